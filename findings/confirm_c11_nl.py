"""F-C11-1: the quadratic (von Karman) strain terms of Panel.strain must be the squares/products of the TOTAL slopes:
exx(NL) - exx(lin) = w,x^2/2, eyy: w,y^2/2, gxy: w,x*w,y, with w,x = -phix and w,y = -phiy as Panel.uvw reports them.
Run from a tree root with /venv/bin/python."""
import os
import sys
sys.path.insert(0, os.getcwd())
import numpy as np
from compmech.panel import Panel

worst = 0.
for model, r in (('plate_clt_donnell_bardell', None), ('cpanel_clt_donnell_bardell', 2.)):
    p = Panel()
    p.a, p.b, p.m, p.n = 1.1, 0.7, 5, 4
    p.r = r
    p.plyt = 0.125e-3
    p.laminaprop = (142.5e9, 8.7e9, 0.28, 5.1e9, 5.1e9, 5.1e9)
    p.stack = [0, 45, -45, 90]
    p.model = model
    size = p.get_size() if hasattr(p, 'get_size') else 3 * p.m * p.n
    c = np.random.RandomState(1).rand(3 * p.m * p.n) * 1e-2
    xs = np.linspace(0.1, 1.0, 7)
    ys = np.linspace(0.1, 0.6, 7)
    X, Y = np.meshgrid(xs, ys)
    p.calc_k0(silent=True)
    p.uvw(c, xs=X, ys=Y)
    wx, wy = -np.asarray(p.phix), -np.asarray(p.phiy)
    enl = p.strain(c, xs=X, ys=Y, NLterms=True)
    eln = p.strain(c, xs=X, ys=Y, NLterms=False)
    for comp, want in (('exx', 0.5 * wx**2), ('eyy', 0.5 * wy**2), ('gxy', wx * wy)):
        got = np.asarray(enl[comp]) - np.asarray(eln[comp])
        err = np.abs(got - want).max() / np.abs(want).max()
        worst = max(worst, err)
        print('%-28s %s: max|NL part - expected| / max|expected| = %.2e' % (model, comp, err))
print('PASS' if worst < 1e-9 else 'FAIL')
sys.exit(0 if worst < 1e-9 else 1)
