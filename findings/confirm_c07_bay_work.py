"""F-C07-2 after the fix: the load vector of point forces on the skin of a stiffened bay equals the virtual work against the
field uvw_skin reports (run with /venv/bin/python from a tree root; not a check)"""
import sys, os; sys.path.insert(0, os.getcwd())
import numpy as np
import compmech; print(compmech.__file__)
from compmech.stiffpanelbay import StiffPanelBay
rng = np.random.default_rng(3)
worst = 0
for r in (None, 2.):
    b = StiffPanelBay(); b.a=1.; b.b=0.6; b.stack=[0,45,90]; b.plyt=1e-3; b.laminaprop=(140e9,10e9,0.3,5e9,5e9,5e9); b.mu=1600.; b.m=5; b.n=6
    if r: b.r = r
    b.add_panel(y1=0, y2=0.25); b.add_panel(y1=0.25, y2=b.b)
    b.add_tstiff2d(ys=0.25, bb=0.06, bf=0.04, bstack=[0,90], bplyts=[1e-3,1e-3], blaminaprops=[b.laminaprop]*2, fstack=[0,0], fplyts=[1e-3]*2, flaminaprops=[b.laminaprop]*2, mb=4, nb=3, mf=4, nf=3)
    forces = [(0.31, 0.17, 1.3, -0.7, 2.1), (0.77, 0.52, -0.4, 0.9, -1.5)]
    for f in forces:
        b.forces_skin.append(list(f))
    b.calc_k0(silent=True)
    fext = np.asarray(b.calc_fext(silent=True))
    for trial in range(3):
        c = rng.standard_normal(fext.shape[0])
        work = 0.
        for x, y, fx, fy, fz in forces:
            res = b.uvw_skin(c, xs=np.array([x]), ys=np.array([y]))
            u, v, w = [np.asarray(t).ravel()[0] for t in res[:3]]
            work += fx*u + fy*v + fz*w
        err = abs(fext.dot(c) - work)/abs(work)
        worst = max(worst, err)
        print('r=%s trial %d  f.c = %.12g  sum F.u = %.12g  rel err %.1e' % (r, trial, fext.dot(c), work, err))
print('PASS' if worst < 1e-10 else 'FAIL')
