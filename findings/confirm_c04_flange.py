"""F-C04-3 / F-C04-2: BladeStiff1D flange mass kernel (run with /venv/bin/python; not a check)"""
import os, sys
sys.path.insert(0, os.getcwd())
import numpy as np
from compmech.stiffener.models import bladestiff1d_clt_donnell_bardell as mod
from compmech.sparse import make_symmetric
m = n = 6
a, b, bf, hf, mu, h, hb = 1.0, 0.5, 0.03, 0.002, 2700., 0.002, 0.0
df = bf/2. + hb + h/2.
flags = [1., 1., 1., 1.] * 6          # all edge functions active (unrestrained)
size = 3*m*n
kM = make_symmetric(mod.fkMf(0.25, mu, h, hb, hf, a, b, bf, df, m, n, *flags, size, 0, 0)).toarray()
w = np.linalg.eigvalsh(kM)
print('flange mass matrix: min eig %.4g, max eig %.4g  (a kinetic-energy Hessian is positive semi-definite)' % (w.min(), w.max()))
# rigid-body check: u = const + rotation about y: the kinetic energy of a rigid rotation phi about the skin line
# must equal 1/2 * mu*bf*hf*(df^2 + bf^2/12)*a*phi^2 ; coupling u-w enters with df
# halve the coupling blocks and test again
K2 = kM.copy()
iu = np.arange(0, size, 3); iv = iu+1; iw = iu+2
for r_, c_ in ((iu, iw), (iw, iu), (iv, iw), (iw, iv)):
    K2[np.ix_(r_, c_)] *= 0.5
w2 = np.linalg.eigvalsh(K2)
print('with the four coupling blocks halved: min eig %.4g (>= -1e-12*max -> PSD: %s)' % (w2.min(), w2.min() > -1e-9*w2.max()))
