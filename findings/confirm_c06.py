"""F-C06-1 / F-C06-2 (run with /venv/bin/python; not a check)"""
import numpy as np
from scipy.sparse import csr_matrix
from compmech.analysis import freq
rng = np.random.default_rng(0)
def pair(n):
    A = rng.standard_normal((n, n)); B = rng.standard_normal((n, n))
    return csr_matrix(A @ A.T + n*np.eye(n)), csr_matrix(B @ B.T + n*np.eye(n))
K, M = pair(30)
try:
    freq(K, M, sparse_solver=False, reduced_dof=True, silent=True); print('dense reduced_dof: ok')
except Exception as e:
    print('F-C06-1 dense freq(reduced_dof=True), 30x30 ->', type(e).__name__, e)
K, M = pair(12)
try:
    freq(K, M, sparse_solver=True, silent=True, num_eigvalues=25); print('sparse small: ok')
except Exception as e:
    print('F-C06-2 sparse freq, 12x12, 25 requested ->', type(e).__name__, e)
