"""F-C11-3: StiffPanelBay.uvw_stiffener offsets (run with /venv/bin/python; not a check)"""
import sys, os; sys.path.insert(0, os.getcwd())
import numpy as np
from compmech.stiffpanelbay import StiffPanelBay
def bay():
    b = StiffPanelBay(); b.a=1.; b.b=0.6; b.stack=[0,90,0]; b.plyt=1e-3; b.laminaprop=(140e9,10e9,0.3,5e9,5e9,5e9); b.mu=1600.; b.m=5; b.n=5
    b.add_panel(y1=0, y2=0.2); b.add_panel(y1=0.2, y2=0.4); b.add_panel(y1=0.4, y2=b.b)
    return b
lp=(140e9,10e9,0.3,5e9,5e9,5e9)
b=bay()
b.add_bladestiff2d(ys=0.2, bb=0.02, bf=0.05, bstack=[0]*4, bplyt=1e-3, blaminaprop=lp, fstack=[0]*4, fplyt=1e-3, flaminaprop=lp, mf=4, nf=4)
b.add_bladestiff2d(ys=0.4, bb=0.02, bf=0.05, bstack=[0]*4, bplyt=1e-3, blaminaprop=lp, fstack=[0]*4, fplyt=1e-3, flaminaprop=lp, mf=4, nf=4)
b.calc_k0(silent=True)
c=np.arange(b.get_size(), dtype=float)
try:
    b.uvw_stiffener(c, 1, region='flange', gridx=3, gridy=3); print('two blade stiffeners: ok')
except Exception as e:
    print('two blade stiffeners, si=1 ->', type(e).__name__, e)
b=bay()
b.add_tstiff2d(ys=0.2, bb=0.04, bf=0.05, bstack=[0]*4, bplyt=1e-3, blaminaprop=lp, fstack=[0]*4, fplyt=1e-3, flaminaprop=lp, mb=3, nb=3, mf=4, nf=4)
b.add_bladestiff2d(ys=0.4, bb=0.02, bf=0.05, bstack=[0]*4, bplyt=1e-3, blaminaprop=lp, fstack=[0]*4, fplyt=1e-3, flaminaprop=lp, mf=4, nf=4)
b.calc_k0(silent=True)
size=b.get_size(); skin=3*b.m*b.n
t=b.tstiff2ds[0]; bl=b.bladestiff2ds[0]
print('layout: skin', skin, '| blade flange', bl.flange.get_size(), '| T base', t.base.get_size(), 'T flange', t.flange.get_size(), '| total', size)
# amplitude vector that is 1 exactly on the T-stiffener base block of the *matrix layout*
c=np.zeros(size); start=skin+bl.flange.get_size(); c[start:start+t.base.get_size()]=1.
u,v,w,_,_=b.uvw_stiffener(c, 0, region='base', gridx=3, gridy=3)
print('T base (listed first, laid out second): max|w| from uvw_stiffener =', abs(w).max(), '(non-zero expected if the right slice were used)')
