# F-C17-1: clpt_sanders_bc2_nonlinear skipped row > col in calc_k0L / cfk0L although k0L is not symmetric and is
# used unsymmetrised (kT = k0 + k0L + k0L^T + kLL + kG).  Remove the four guards (source), and neutralise the
# same four tests in the Cython-generated C (run from a tree root; `src` = source only).
import re, sys
src_only = len(sys.argv) > 1 and sys.argv[1] == 'src'
name = 'clpt_sanders_bc2_nonlinear'
p = 'compmech/conecyl/clpt/%s.pyx' % name
L = open(p).read().split('\n')
# function extents
def extent(prefix):
    a = [i for i, l in enumerate(L) if l.startswith(prefix)][0]
    b = a + 1
    while b < len(L) and not (L[b].startswith('def ') or L[b].startswith('cdef void')):
        b += 1
    return a, b
guards = []
for pre in ('def calc_k0L(', 'cdef void cfk0L('):
    a, b = extent(pre)
    for i in range(a, b):
        if L[i].strip() == 'if row > col:' and L[i + 1].strip() == 'continue':
            guards.append(i)
assert len(guards) == 4, guards
lines = [g + 1 for g in guards]            # 1-based pyx line numbers of the tests
if not src_only:
    pc = 'compmech/conecyl/clpt/%s.c' % name
    C = open(pc).read().split('\n')
    marker = re.compile(r'/\* "compmech/conecyl/clpt/%s\.pyx":(\d+)$' % name)
    cur, incomment, n = None, False, 0
    for k, line in enumerate(C):
        m = marker.search(line.strip())
        if m:
            cur, incomment = int(m.group(1)), True
            continue
        if incomment:
            if line.strip().endswith('*/'):
                incomment = False
            continue
        if cur in lines and '(__pyx_v_row > __pyx_v_col)' in line:
            C[k] = line.replace('(__pyx_v_row > __pyx_v_col)', '0')
            n += 1
    assert n == 4, n
    open(pc, 'w').write('\n'.join(C))
# now the source: drop '#NOTE symmetry', the test and the continue (and one surrounding blank line)
for g in sorted(guards, reverse=True):
    lo = g
    if L[g - 1].strip() == '#NOTE symmetry':
        lo = g - 1
    hi = g + 2
    if L[hi].strip() == '' and L[lo - 1].strip() == '':
        hi += 1
    del L[lo:hi]
open(p, 'w').write('\n'.join(L))
print('removed guards at pyx lines', lines)
