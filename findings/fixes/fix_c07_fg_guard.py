# F-C07-2: fg (load-vector kernel of the panel field module) compared the class name with == 'Panel' while every
# other kernel tests `'Panel' in name`; StiffPanelBay.calc_fext passes the bay itself.  Source and, unless `src` is
# given, the equivalent statement of the Cython-generated C (then rebuild clt_bardell_field with
# compmech/lib/src/bardell_functions.c, see README.md).  Run from a tree root.
import sys
src_only = len(sys.argv) > 1 and sys.argv[1] == 'src'
name = 'compmech/panel/models/clt_bardell_field'
s = open(name + '.pyx').read()
old = "    if p.__class__.__name__ != 'Panel':\n"
assert s.count(old) == 1
open(name + '.pyx', 'w').write(s.replace(old, "    if not 'Panel' in p.__class__.__name__:\n"))
if not src_only:
    c = open(name + '.c').read()
    old = ("  __pyx_t_3 = __Pyx_PyObject_CompareBoolNe_object_str(__pyx_t_2, __pyx_mstate_global->__pyx_n_u_Panel, Py_NE); "
           "if (unlikely((__pyx_t_3 < 0))) __PYX_ERR(0, 300, __pyx_L1_error)\n")
    assert c.count(old) == 1
    new = ("  __pyx_t_3 = PySequence_Contains(__pyx_t_2, __pyx_mstate_global->__pyx_n_u_Panel); "
           "if (unlikely((__pyx_t_3 < 0))) __PYX_ERR(0, 300, __pyx_L1_error)\n  __pyx_t_3 = !__pyx_t_3;\n")
    open(name + '.c', 'w').write(c.replace(old, new))
print('ok')
