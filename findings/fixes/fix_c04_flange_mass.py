# F-C04-3: fkMf (1-D blade stiffener flange mass) couples in-plane and rotational inertia with twice the value the
# kinetic-energy Hessian gives (the matrix was indefinite).  Halve the four coupling entries: source and, unless
# `src` is given, the same four statements of the Cython-generated C.  Run from a tree root.
import re, sys
src_only = len(sys.argv) > 1 and sys.argv[1] == 'src'
name = 'compmech/stiffener/models/bladestiff1d_clt_donnell_bardell'
s = open(name + '.pyx').read()
a = s.index('def fkMf(')
b = s.index('kMf = coo_matrix', a)
body = s[a:b]
pairs = [('kMfv[c] += 2*bf*df*fAufBwxi*gAu*gBw*hf*mu', 'kMfv[c] += bf*df*fAufBwxi*gAu*gBw*hf*mu'),
         ('kMfv[c] += 2*a*bf*df*fAvfBw*gAv*gBweta*hf*mu/b', 'kMfv[c] += a*bf*df*fAvfBw*gAv*gBweta*hf*mu/b'),
         ('kMfv[c] += 2*bf*df*fAwxifBu*gAw*gBu*hf*mu', 'kMfv[c] += bf*df*fAwxifBu*gAw*gBu*hf*mu'),
         ('kMfv[c] += 2*a*bf*df*fAwfBv*gAweta*gBv*hf*mu/b', 'kMfv[c] += a*bf*df*fAwfBv*gAweta*gBv*hf*mu/b')]
for o, n in pairs:
    assert body.count(o) == 1, o
    body = body.replace(o, n)
open(name + '.pyx', 'w').write(s[:a] + body + s[b:])
if not src_only:
    C = open(name + '.c').read().split('\n')
    n = 0
    for k, line in enumerate(C):
        if '__pyx_v_kMfv.data' in line and '__pyx_v_df' in line and line.lstrip().startswith('*((double'):
            m = re.search(r'\+= \(+2\.0 \* ', line)
            assert m, line[:200]
            # (((2.0 * bf) * df) ...  ->  (((1.0 * bf) * df) ...
            C[k] = line.replace('(2.0 * __pyx_v_', '(1.0 * __pyx_v_', 1)
            n += 1
    assert n == 4, n
    open(name + '.c', 'w').write('\n'.join(C))
print('ok')
