# applies the two source fixes and the equivalent edits of the generated C (run in a tree root)
import sys
src_only = len(sys.argv) > 1 and sys.argv[1] == 'src'
p='compmech/conecyl/clpt/clpt_commons_bc3.pyx'
s=open(p).read()
old="""                gxt += (-c[col+1]*j2*sini2x*sinj2t/r
                        -0.5*c[col+2]*sinj2t*(L*cosi2x*(cosa*(2*w0x + wx) + 2*sina) + 2*pi*i2*r*sini2x)/(L*r)"""
new="""                gxt += (c[col+0]*cosj2t*j2*sini2x/r
                        -c[col+1]*j2*sini2x*sinj2t/r
                        -0.5*c[col+2]*sinj2t*(L*cosi2x*(cosa*(2*w0x + wx) + 2*sina) + 2*pi*i2*r*sini2x)/(L*r)"""
assert s.count(old)==1
open(p,'w').write(s.replace(old,new))
p='compmech/conecyl/clpt/clpt_donnell_bc2_linear.pyx'
s=open(p).read()
old="""                        for l2 in range(j0, n2+j0):

                            #NOTE symmetry
                            if row > col:
                                continue

                            col = (k2-i0)*num2 + (l2-j0)*num2*m2 + num0 + num1*m1
                            if k2==i2 and l2==j2:"""
new="""                        for l2 in range(j0, n2+j0):
                            col = (k2-i0)*num2 + (l2-j0)*num2*m2 + num0 + num1*m1

                            #NOTE symmetry
                            if row > col:
                                continue

                            if k2==i2 and l2==j2:"""
assert s.count(old)==1
open(p,'w').write(s.replace(old,new))
if src_only:
    sys.exit(0)
p='compmech/conecyl/clpt/clpt_commons_bc3.c'
L=open(p).read().split('\n')
pre='        __pyx_v_gxt = (__pyx_v_gxt + (((((((((-(__pyx_v_c[(__pyx_v_col + 1)]))'
idx=[k for k,l in enumerate(L) if l.startswith(pre)]
assert len(idx)==1, idx
i=idx[0]
term='(((((__pyx_v_c[(__pyx_v_col + 0)]) * __pyx_v_cosj2t) * __pyx_v_j2) * __pyx_v_sini2x) / __pyx_v_r)'
L[i]='        __pyx_v_gxt = ((__pyx_v_gxt + (%s)) + (((((((((-(__pyx_v_c[(__pyx_v_col + 1)]))' % term + L[i][len(pre):]
open(p,'w').write('\n'.join(L))
p='compmech/conecyl/clpt/clpt_donnell_bc2_linear.c'
L=open(p).read().split('\n')
# the fk0 (cone) k0_22 loop: guard statement directly followed (a few lines later) by the col assignment from k2/l2
cands=[]
for k,l in enumerate(L):
    if l.strip()=='__pyx_t_18 = (__pyx_v_row > __pyx_v_col);':
        for j in range(k+1,k+45):
            if L[j].strip().startswith('__pyx_v_col = (((((__pyx_v_k2 - '):
                cands.append((k,j))
                break
            if L[j].strip().startswith('__pyx_v_col = '):
                break
assert len(cands)==1, cands
k,j=cands[0]
stmt=L.pop(j)
L.insert(k, stmt)
open(p,'w').write('\n'.join(L))
print('ok', k, j)
