# F-C16-1: the k0_01 entries of the isotropic short-cut kernels are written with the index (and trig temporaries) of the
# k1 loop that only starts afterwards; the general models use i1.  Rename inside the k0_01 block only.
import re, sys
src_only = len(sys.argv) > 1 and sys.argv[1] == 'src'
REN = [('cosk1xa', 'cosi1xa'), ('cosk1xb', 'cosi1xb'), ('sink1xa', 'sini1xa'), ('sink1xb', 'sini1xb'), ('k1', 'i1')]
for name in ('iso_clpt_donnell_bc2_linear', 'iso_clpt_donnell_bc3_linear'):
    p = 'compmech/conecyl/clpt/%s.pyx' % name
    L = open(p).read().split('\n')
    blocks = []
    i = 0
    while i < len(L):
        if L[i].strip() == '# k0_01 cond_1':
            j = i
            while not L[j].strip().startswith('for k1 in range'):
                j += 1
            blocks.append((i, j))
            i = j
        i += 1
    assert len(blocks) == 2, blocks
    changed = []
    for a, b in blocks:
        for k in range(a, b):
            new = L[k]
            for o, n in REN:
                new = re.sub(r'\b%s\b' % o, n, new)
            if new != L[k]:
                changed.append(k + 1)
                L[k] = new
    open(p, 'w').write('\n'.join(L))
    print(name, 'pyx lines changed', changed)
    if src_only:
        continue
    pc = 'compmech/conecyl/clpt/%s.c' % name
    C = open(pc).read().split('\n')
    marker = re.compile(r'/\* "compmech/conecyl/clpt/%s\.pyx":(\d+)$' % name)
    cur = None
    nch = 0
    incomment = False
    for k, line in enumerate(C):
        m = marker.search(line.strip())
        if m:
            cur = int(m.group(1))
            incomment = True
            continue
        if incomment:
            if line.strip().endswith('*/'):
                incomment = False
            continue
        if cur in changed:
            new = line
            for o, n in REN:
                new = re.sub(r'\b__pyx_v_%s\b' % o, '__pyx_v_' + n, new)
            if new != line:
                C[k] = new
                nch += 1
    open(pc, 'w').write('\n'.join(C))
    print(name, 'C lines changed', nch)
