# F-C11-1: cfstrain added the von Karman terms inside the series loop, as sum_S (c_S w_S,x)^2 instead of
# (sum_S c_S w_S,x)^2.  Accumulate the slopes in the loop and add the quadratic terms after it.
# Source edit and (unless `src`) the equivalent edit of the Cython-generated C.  Run from a tree root.
import sys
src_only = len(sys.argv) > 1 and sys.argv[1] == 'src'
name = 'compmech/panel/models/clt_bardell_field'
s = open(name + '.pyx').read()
a = s.index('cdef void cfstrain(')
b = s.index('    free(fu)', a)
body = s[a:b]
rep = [
 ('    cdef double exx, eyy, gxy, kxx, kyy, kxy\n', '    cdef double exx, eyy, gxy, kxx, kyy, kxy, wxi, weta\n'),
 ('        kxy = 0\n\n        for j in range(n):', '        kxy = 0\n        wxi = 0\n        weta = 0\n\n        for j in range(n):'),
 ("                exx += c[col+0]*fuxi[i]*gu[j]*(2/a) + NLterms*2/(a*a)*(c[col+2]*fwxi[i]*gw[j])**2\n",
  "                exx += c[col+0]*fuxi[i]*gu[j]*(2/a)\n"),
 ("                    eyy += c[col+1]*fv[i]*gveta[j]*(2/b) + 1/r*c[col+2]*fw[i]*gw[j] + NLterms*2/(b*b)*(c[col+2]*fw[i]*gweta[j])**2\n",
  "                    eyy += c[col+1]*fv[i]*gveta[j]*(2/b) + 1/r*c[col+2]*fw[i]*gw[j]\n"),
 ("                    eyy += c[col+1]*fv[i]*gveta[j]*(2/b) + NLterms*2/(b*b)*(c[col+2]*fw[i]*gweta[j])**2\n",
  "                    eyy += c[col+1]*fv[i]*gveta[j]*(2/b)\n"),
 ("                gxy += c[col+0]*fu[i]*gueta[j]*(2/b) + c[col+1]*fvxi[i]*gv[j]*(2/a) + NLterms*4/(a*b)*c[col+2]*fwxi[i]*gw[j]*c[col+2]*fw[i]*gweta[j]\n",
  "                gxy += c[col+0]*fu[i]*gueta[j]*(2/b) + c[col+1]*fvxi[i]*gv[j]*(2/a)\n"),
 ("                kxy += -2*c[col+2]*fwxi[i]*gweta[j]*4/(a*b)\n\n        exxs[pti] = exx\n",
  "                kxy += -2*c[col+2]*fwxi[i]*gweta[j]*4/(a*b)\n                wxi += c[col+2]*fwxi[i]*gw[j]\n                weta += c[col+2]*fw[i]*gweta[j]\n\n"
  "        # von Karman terms of the total slopes w,x = (2/a)*wxi and w,y = (2/b)*weta\n"
  "        exx += NLterms*2/(a*a)*wxi*wxi\n        eyy += NLterms*2/(b*b)*weta*weta\n        gxy += NLterms*4/(a*b)*wxi*weta\n\n        exxs[pti] = exx\n"),
]
for o, n in rep:
    assert body.count(o) == 1, o
    body = body.replace(o, n)
open(name + '.pyx', 'w').write(s[:a] + body + s[b:])
if src_only:
    print('source edited'); sys.exit(0)
C = open(name + '.c').read()
nm = 'static void __pyx_f_8compmech_5panel_6models_17clt_bardell_field_cfstrain('
pos, fa = 0, None
while True:
    k = C.find(nm, pos)
    if k < 0:
        break
    semi, brace = C.find(';', k), C.find('{', k)
    if brace < semi:
        fa = brace
    pos = k + 1
assert fa is not None
fb = C.index('\n}\n', fa)
F = C[fa:fb]
def once(o, n):
    global F
    assert F.count(o) == 1, (F.count(o), o[:80])
    F = F.replace(o, n)
once('  double __pyx_v_kxy;\n', '  double __pyx_v_kxy;\n  double __pyx_v_wxi;\n  double __pyx_v_weta;\n')
once('    __pyx_v_kxy = 0.0;\n', '    __pyx_v_kxy = 0.0;\n    __pyx_v_wxi = 0.0;\n    __pyx_v_weta = 0.0;\n')
nlx = ' + ((((double)(__pyx_v_NLterms * 2)) / (__pyx_v_a * __pyx_v_a)) * pow((((__pyx_v_c[(__pyx_v_col + 2)]) * (__pyx_v_fwxi[__pyx_v_i])) * (__pyx_v_gw[__pyx_v_j])), 2.0))'
nly = ' + ((((double)(__pyx_v_NLterms * 2)) / (__pyx_v_b * __pyx_v_b)) * pow((((__pyx_v_c[(__pyx_v_col + 2)]) * (__pyx_v_fw[__pyx_v_i])) * (__pyx_v_gweta[__pyx_v_j])), 2.0))'
assert F.count(nlx) == 1 and F.count(nly) == 2
F = F.replace(nlx, ' + 0.0').replace(nly, ' + 0.0')
i = F.index('__pyx_v_gxy = (__pyx_v_gxy + ')
j = F.index('\n', i)
line = F[i:j]
k = line.index(' + (((((((((double)(__pyx_v_NLterms * 4))')
# the non-linear summand runs to the matching close of the outer sum: keep the linear part, drop the rest
lin = line[:k]
# balance the parentheses of what is kept
opens = lin.count('(') - lin.count(')')
F = F[:i] + lin + ' + 0.0' + ')' * opens + ';' + F[j:]
acc = ('        __pyx_v_wxi = (__pyx_v_wxi + (((__pyx_v_c[(__pyx_v_col + 2)]) * (__pyx_v_fwxi[__pyx_v_i])) * (__pyx_v_gw[__pyx_v_j])));\n'
       '        __pyx_v_weta = (__pyx_v_weta + (((__pyx_v_c[(__pyx_v_col + 2)]) * (__pyx_v_fw[__pyx_v_i])) * (__pyx_v_gweta[__pyx_v_j])));\n')
i = F.index('__pyx_v_kxy = (__pyx_v_kxy + ')
j = F.index('\n', i) + 1
F = F[:j] + acc + F[j:]
post = ('    __pyx_v_exx = (__pyx_v_exx + (((((double)(__pyx_v_NLterms * 2)) / (__pyx_v_a * __pyx_v_a)) * __pyx_v_wxi) * __pyx_v_wxi));\n'
        '    __pyx_v_eyy = (__pyx_v_eyy + (((((double)(__pyx_v_NLterms * 2)) / (__pyx_v_b * __pyx_v_b)) * __pyx_v_weta) * __pyx_v_weta));\n'
        '    __pyx_v_gxy = (__pyx_v_gxy + (((((double)(__pyx_v_NLterms * 4)) / (__pyx_v_a * __pyx_v_b)) * __pyx_v_wxi) * __pyx_v_weta));\n')
o = '    (__pyx_v_exxs[__pyx_v_pti]) = __pyx_v_exx;\n'
assert F.count(o) == 1
F = F.replace(o, post + o)
open(name + '.c', 'w').write(C[:fa] + F + C[fb:])
print('source and generated C edited')
