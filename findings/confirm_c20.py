"""F-C20-1: entry points that fail on a freshly defined object (run with /venv/bin/python; not a check)"""
import os, sys
sys.path.insert(0, os.getcwd())   # test the tree we are run from
import numpy as np, traceback
from compmech.panel import Panel
from compmech.stiffpanelbay import StiffPanelBay
def fresh(**kw):
    return Panel(a=1., b=0.5, stack=[0, 90, 0], plyt=1e-3, laminaprop=(140e9, 10e9, 0.3, 5e9, 5e9, 5e9), mu=1600., m=5, n=5, **kw)
def attempt(label, f):
    try:
        f(); print('%-55s ok' % label)
    except Exception as e:
        print('%-55s %s: %s' % (label, type(e).__name__, str(e)[:70]))
c = np.zeros(75)
attempt('Panel.get_size()', lambda: fresh().get_size())
attempt('Panel.calc_kM()', lambda: fresh().calc_kM(silent=True))
def kA():
    p = fresh(); p.beta = 1e4; p.calc_kA(silent=True)
attempt('Panel.calc_kA()', kA)
attempt('Panel.calc_cA(1.)', lambda: fresh().calc_cA(1., silent=True))
attempt('Panel.calc_fint(c)', lambda: fresh().calc_fint(c, silent=True))
attempt('Panel.uvw(c)', lambda: fresh().uvw(c, gridx=3, gridy=3))
attempt('Panel.strain(c)', lambda: fresh().strain(c, gridx=3, gridy=3))
attempt('Panel.stress(c)', lambda: fresh().stress(c, gridx=3, gridy=3))
def after_rebuild_only(meth, *a, **k):
    p = fresh(); p._rebuild(); return getattr(p, meth)(*a, **k)
attempt('Panel._rebuild(); calc_kM()  [plyts]', lambda: after_rebuild_only('calc_kM', silent=True))
attempt('Panel._rebuild(); strain(c)  [alpharad]', lambda: after_rebuild_only('strain', c, gridx=3, gridy=3))
attempt('Panel._rebuild(); stress(c)  [F]', lambda: after_rebuild_only('stress', c, gridx=3, gridy=3))
attempt('Panel._rebuild(); calc_fint(c) [F]', lambda: after_rebuild_only('calc_fint', c, silent=True))
def k0_size_given():
    p = fresh(); F = np.eye(6)*1e6; p.calc_k0(size=75, Fnxny=F, silent=True)
attempt('Panel.calc_k0(size=75, Fnxny=F)  [self.size]', k0_size_given)
def bay():
    b = StiffPanelBay(); b.a=1.; b.b=0.6; b.stack=[0,90,0]; b.plyt=1e-3; b.laminaprop=(140e9,10e9,0.3,5e9,5e9,5e9); b.mu=1600.; b.m=5; b.n=5
    b.add_panel(y1=0, y2=b.b); return b
attempt('StiffPanelBay.get_size()', lambda: bay().get_size())
attempt('StiffPanelBay.calc_fext()', lambda: bay().calc_fext(silent=True))
attempt('StiffPanelBay.uvw_skin(c)', lambda: bay().uvw_skin(c, gridx=3, gridy=3))
def bay_kA():
    b = bay(); b.Mach=2.; b.rho_air=1.2; b.V=600.; b.speed_sound=300.; b.calc_kA(silent=True)
attempt('StiffPanelBay.calc_kA()  [size]', bay_kA)
