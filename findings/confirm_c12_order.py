"""F-C12-1: the connection matrix of an assembly must not depend on whether p1 is listed before or after p2
(up to the corresponding permutation of the amplitude blocks).  Run from a tree root with /venv/bin/python."""
import os
import sys
sys.path.insert(0, os.getcwd())
import numpy as np
from compmech.panel import Panel
from compmech.panel.assembly import PanelAssembly


def panel(a, b, m, n):
    p = Panel()
    p.a, p.b, p.m, p.n = a, b, m, n
    p.plyt = 0.125e-3
    p.laminaprop = (142.5e9, 8.7e9, 0.28, 5.1e9, 5.1e9, 5.1e9)
    p.stack = [0, 45, -45, 90]
    p.model = 'plate_clt_donnell_bardell'
    for f in ('u', 'v', 'w'):
        for e in ('1tx', '1rx', '2tx', '2rx', '1ty', '1ry', '2ty', '2ry'):
            setattr(p, f + e, 1)      # all edges free: the interface functions do not vanish
    return p


worst = 0.
for func, extra in (('SSycte', dict(ycte1=0.4, ycte2=0.)), ('SSxcte', dict(xcte1=1.1, xcte2=0.)), ('SB', {}),
                    ('BFycte', dict(ycte1=0.2, ycte2=0.)), ('BFxcte', dict(xcte1=0.3, xcte2=0.))):
    mats = []
    for order in ('p1 first', 'p2 first'):
        p1, p2 = panel(1.1, 0.4, 4, 3), panel(1.1, 0.4, 3, 4)
        conn = [dict(p1=p1, p2=p2, func=func, **extra)]
        panels = [p1, p2] if order == 'p1 first' else [p2, p1]
        assy = PanelAssembly(panels, conn=conn)
        k = assy.get_k0_conn().toarray()
        n1, n2 = 3 * p1.m * p1.n, 3 * p2.m * p2.n
        if order == 'p2 first':
            perm = list(range(n2, n2 + n1)) + list(range(n2))      # back to (p1, p2) ordering
            k = k[np.ix_(perm, perm)]
        mats.append(k)
    d = np.abs(mats[0] - mats[1]).max() / np.abs(mats[0]).max()
    off = np.abs(mats[1][:n1, n1:]).max() / np.abs(mats[0]).max()
    worst = max(worst, d)
    print('%-7s max|K(p1 first) - K(p2 first)| / max|K| = %.2e   coupling block with p2 first: %.2e of max|K|' % (func, d, off))
print('PASS' if worst < 1e-12 else 'FAIL')
sys.exit(0 if worst < 1e-12 else 1)
