"""F-C16-3: k0 of the classical shell models vs the Hessian of the strain energy of the package's own linear
strain field (commons.fstrain), cylinder and cone, all amplitudes except the always-prescribed c[2].
Run from /repo with /venv/bin/python.  Not part of any check."""
import importlib
import os
import sys
sys.path.insert(0, os.getcwd())   # test the tree we are run from, not the editable install
import numpy as np
from compmech.sparse import make_symmetric

rng = np.random.RandomState(5)
a = rng.rand(6, 6)
F = a @ a.T + 6 * np.eye(6)
for r0, c0 in ((0, 0), (0, 3), (3, 3)):
    s_ = F[r0:r0 + 3, c0:c0 + 3]
    F[r0:r0 + 3, c0:c0 + 3] = (s_ + s_.T) / 2
F[3:6, 0:3] = F[0:3, 3:6].T
F = np.ascontiguousarray(F)
m1, m2, n2 = 3, 3, 2
r2, L = 2.5, 5.1


def hessian(commons, kin, sina, cosa, size, nx=120):
    nt = 4 * n2 + 4
    xg, wg = np.polynomial.legendre.leggauss(nx)
    x = 0.5 * L * (xg + 1)
    wx = 0.5 * L * wg
    t = np.linspace(0, 2 * np.pi, nt, endpoint=False)
    X, T = np.meshgrid(x, t, indexing='ij')
    W = np.outer(wx * (r2 + sina * x), np.full(nt, 2 * np.pi / nt)).ravel()
    xs, ts = np.ascontiguousarray(X.ravel()), np.ascontiguousarray(T.ravel())
    cz = np.zeros(1)

    def strain(c):
        e = commons.fstrain(c, sina, cosa, 0., xs, ts, r2, L, m1, m2, n2, cz, 0, 0, 2, kin, 1)
        return np.array(e).reshape(-1, 6)
    B = np.zeros((size, xs.size, 6))
    for i in range(size):
        c = np.zeros(size)
        c[i] = 1.
        B[i] = 0.5 * (strain(c) - strain(-c))
    return np.einsum('ipe,ef,jpf,p->ij', B, F, B, W)


for kinname, kin in (('donnell', 0), ('sanders', 1)):
    for bc in '1234':
        commons = importlib.import_module('compmech.conecyl.clpt.clpt_commons_bc' + bc)
        lin = importlib.import_module('compmech.conecyl.clpt.clpt_%s_bc%s_linear' % (kinname, bc))
        size = 3 + 3 * m1 + 6 * m2 * n2
        free = [i for i in range(size) if i != 2]
        for alpha, s in ((0., 1), (0.35, 400)):
            sina, cosa = np.sin(alpha), np.cos(alpha)
            if alpha == 0.:
                k0 = lin.fk0_cyl(r2, L, F, m1, m2, n2)
            else:
                k0 = lin.fk0(alpha, r2, L, F, m1, m2, n2, s)
            k0 = make_symmetric(k0).toarray()[np.ix_(free, free)]
            K = hessian(commons, kin, sina, cosa, size)[np.ix_(free, free)]
            d = np.sqrt(np.abs(np.diag(K)))
            d[d == 0] = d.max()
            rel = np.abs(k0 - K) / np.outer(d, d)
            i, j = np.unravel_index(rel.argmax(), rel.shape)
            print('clpt_%s_bc%s %-8s max scaled |k0 - d2U/dc2| = %.2e at (%d,%d): k0 %.6g  energy %.6g' % (
                kinname, bc, 'cylinder' if alpha == 0 else 'cone', rel.max(), free[i], free[j], k0[i, j], K[i, j]))
