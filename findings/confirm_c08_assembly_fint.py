"""F-C08-1: PanelAssembly.calc_fint on any assembly.  Run from a tree root with /venv/bin/python."""
import os
import sys
sys.path.insert(0, os.getcwd())
import numpy as np
from compmech.panel import Panel
from compmech.panel.assembly import PanelAssembly


def panel():
    p = Panel()
    p.a, p.b, p.m, p.n = 1.1, 0.4, 4, 3
    p.plyt = 0.125e-3
    p.laminaprop = (142.5e9, 8.7e9, 0.28, 5.1e9, 5.1e9, 5.1e9)
    p.stack = [0, 45, -45, 90]
    p.model = 'plate_clt_donnell_bardell'
    return p


p1, p2 = panel(), panel()
assy = PanelAssembly([p1, p2], conn=[dict(p1=p1, p2=p2, func='SSycte', ycte1=0.4, ycte2=0.)])
c = np.random.RandomState(0).rand(assy.get_size()) * 1e-4
try:
    k0 = assy.calc_k0()                # builds the laminates first (a fresh Panel.calc_fint needs self.F, see F-C20-1)
    f = np.asarray(assy.calc_fint(c))
    print('fint computed; |fint(eps c) - k0 eps c| / |k0 eps c| =', np.abs(np.asarray(assy.calc_fint(1e-6 * c)) - k0.dot(1e-6 * c)).max() / np.abs(k0.dot(1e-6 * c)).max())
    print('PASS')
except TypeError as e:
    print('FAIL: PanelAssembly.calc_fint raises TypeError:', e)
    sys.exit(1)
