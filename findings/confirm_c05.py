"""F-C05-1 (run with /venv/bin/python; not a check)"""
import numpy as np
from scipy.sparse import csr_matrix
from compmech.analysis import lb
n = 8
rng = np.random.default_rng(0)
A = rng.standard_normal((n, n)); K = csr_matrix(A @ A.T + n*np.eye(n)); G = rng.standard_normal((n, n)); KG = csr_matrix(-(G @ G.T))
for sparse in (False,):
    try:
        lb(K, KG, sparse_solver=sparse, silent=True, num_eigvalues=25); print('ok')
    except Exception as e:
        print('dense lb, 8x8 matrices, 25 requested ->', type(e).__name__, e)
K2 = K.toarray(); K2[3, :] = 0; K2[:, 3] = 0; KG2 = KG.toarray(); KG2[3, :] = 0; KG2[:, 3] = 0
try:
    lb(csr_matrix(K2), csr_matrix(KG2), sparse_solver=True, silent=True, num_eigvalues=25); print('ok')
except Exception as e:
    print('sparse lb with a null row (fallback path), 8x8, 25 requested ->', type(e).__name__, e)
