"""F-C16-1: isotropic short-cut kernels vs the general kernels fed the isotropic laminate.
Run from the tree root with /venv/bin/python.  Not part of any check."""
import importlib
import os
import sys
sys.path.insert(0, os.getcwd())   # test the tree we are run from, not the editable install
import numpy as np
from compmech.sparse import make_symmetric

E, nu, h = 71e3, 0.33, 1.7
A11 = E * h / (1 - nu**2)
F = np.zeros((6, 6))
F[0, 0] = F[1, 1] = A11
F[0, 1] = F[1, 0] = nu * A11
F[2, 2] = A11 * (1 - nu) / 2
F[3:, 3:] = F[:3, :3] * h**2 / 12
m1, m2, n2, s = 6, 4, 3, 5
r2, L = 250., 510.
for bc in '23':
    iso = importlib.import_module('compmech.conecyl.clpt.iso_clpt_donnell_bc%s_linear' % bc)
    gen = importlib.import_module('compmech.conecyl.clpt.clpt_donnell_bc%s_linear' % bc)
    for alpha in (0., 0.4):
        if alpha == 0.:
            ki = iso.fk0_cyl(r2, L, E, nu, h, m1, m2, n2)
            kg = gen.fk0_cyl(r2, L, F, m1, m2, n2)
        else:
            ki = iso.fk0(alpha, r2, L, E, nu, h, m1, m2, n2, s)
            kg = gen.fk0(alpha, r2, L, F, m1, m2, n2, s)
        ki, kg = make_symmetric(ki).toarray(), make_symmetric(kg).toarray()
        n12 = 3 + 3 * m1
        d = np.abs(ki - kg)[:n12, :n12]      # amplitudes 0..2 and the axisymmetric block (the general bc2 cone kernel has its own defect in k0_22)
        i, j = np.unravel_index(d.argmax(), d.shape)
        print('bc%s %-8s max|iso - general| / max|general| = %.3e at (%d,%d): iso %.6g general %.6g' % (
            bc, 'cylinder' if alpha == 0 else 'cone', d.max() / np.abs(kg).max(), i, j, ki[i, j], kg[i, j]))
