"""F-C16-4: cone kernels at alpharad = 0 vs the dedicated cylinder kernels (upper triangle, as make_symmetric uses it).
Run from /repo with /venv/bin/python.  Not part of any check."""
import importlib
import os
import sys
sys.path.insert(0, os.getcwd())   # test the tree we are run from, not the editable install
import numpy as np
from compmech.sparse import make_symmetric

rng = np.random.RandomState(3)


def laminate(n):
    a = rng.rand(6, 6)
    F = np.zeros((n, n))
    F[:6, :6] = a @ a.T + 6 * np.eye(6)
    # A, B, D blocks each symmetric, as a laminate has them
    for blk in ((0, 0), (0, 3), (3, 3)):
        s = F[blk[0]:blk[0] + 3, blk[1]:blk[1] + 3]
        F[blk[0]:blk[0] + 3, blk[1]:blk[1] + 3] = (s + s.T) / 2
    F[3:6, 0:3] = F[0:3, 3:6].T
    if n == 8:
        b = rng.rand(2, 2)
        F[6:, 6:] = b @ b.T + np.eye(2)
    return np.ascontiguousarray(F)


MODELS = [('clpt', 'clpt_donnell_bc1_linear', 6), ('clpt', 'clpt_sanders_bc3_linear', 6), ('fsdt', 'fsdt_donnell_bc1_linear', 8),
          ('fsdt', 'fsdt_donnell_bcn_linear', 8), ('fsdt', 'fsdt_sanders_bcn_linear', 8), ('fsdt', 'fsdt_geier1997_bc2', 8),
          ('fsdt', 'fsdt_shadmehri2012_bc2', 8), ('fsdt', 'fsdt_shadmehri2012_bc3', 8), ('clpt', 'clpt_geier1997_bc2', 6)]
m1, m2, n2, s = 3, 3, 2, 7
r2, L = 250., 510.
for sub, name, n in MODELS:
    mod = importlib.import_module('compmech.conecyl.%s.%s' % (sub, name))
    F = laminate(n)
    for pair in (('fk0', 'fk0_cyl'), ('fkG0', 'fkG0_cyl')):
        fc, fy = getattr(mod, pair[0], None), getattr(mod, pair[1], None)
        if fc is None or fy is None:
            continue
        try:
            if pair[0] == 'fk0':
                kc = fc(0., r2, L, F, m1, m2, n2, s)
                ky = fy(r2, L, F, m1, m2, n2)
            else:
                kc = fc(1000., 0.3, 50., r2, 0., L, m1, m2, n2, s)
                ky = fy(1000., 0.3, 50., r2, L, m1, m2, n2)
        except TypeError as e:
            print('%-28s %-5s signature differs: %s' % (name, pair[0], e))
            continue
        kc = make_symmetric(kc).toarray()
        ky = make_symmetric(ky).toarray()
        d = np.abs(kc - ky)
        sc = np.abs(ky).max()
        i, j = np.unravel_index(d.argmax(), d.shape)
        print('%-28s %-5s max|cone(0)-cyl|/max|cyl| = %.3e at (%d,%d): cone %.6g cyl %.6g' % (name, pair[0], d.max() / sc, i, j, kc[i, j], ky[i, j]))
