"""C17: kT.d against the central finite difference of calc_fint along random directions, all models that
advertise non-linear static analysis, cylinder and cone.  Error relative to the non-linear part of the derivative.
Run from a tree root with /venv/bin/python.  Not part of any check."""
import os
import sys
sys.path.insert(0, os.getcwd())
import numpy as np
from compmech.conecyl import ConeCyl, modelDB


def build(model, alphadeg, stack):
    cc = ConeCyl()
    cc.model = model
    cc.m1 = cc.m2 = cc.n2 = 3
    cc.laminaprop = (123.55e3, 8.708e3, 0.319, 5.695e3, 5.695e3, 5.695e3)
    cc.stack = stack
    cc.plyt = 0.125
    cc.r2 = 100.
    cc.H = 150.
    cc.alphadeg = alphadeg
    cc.nx = 48
    cc.nt = 64
    cc.ni_method = 'trapz2d'
    cc.ni_num_cores = 2
    cc._calc_linear_matrices(silent=True)
    return cc


def state(cc, rng, wamp):
    md = modelDB.db[cc.model]
    num0, num1, num2 = md['num0'], md['num1'], md['num2']
    size = cc.get_size()
    scale = np.ones(size) * 0.01
    wd1 = 2
    wd2 = (4, 5)
    for i in range(cc.m1):
        scale[num0 + i * num1 + wd1] = 1.
    for i in range(cc.m2 * cc.n2):
        for k in wd2:
            scale[num0 + cc.m1 * num1 + i * num2 + k] = 1.
    c = wamp * rng.uniform(-1, 1, size) * scale
    return np.delete(c, cc.excluded_dofs)


general = [30, -20, 55, 10]
for model, ent in modelDB.db.items():
    if ent.get('non-linear static') is not True:
        continue
    for alpha in (0., 25.):
        try:
            cc = build(model, alpha, general)
            rng = np.random.RandomState(1)
            c = state(cc, rng, 0.6 * sum(cc.plyts))
            kT = cc.calc_kT(c, silent=True).toarray()
            k0 = cc.k0uu.toarray()
            jac = 0.
            for trial in range(3):
                d = state(cc, rng, 1.)
                d /= np.linalg.norm(d)
                step = 1.e-4
                fd = (cc.calc_fint(c + step * d, silent=True) - cc.calc_fint(c - step * d, silent=True)) / (2 * step)
                an = kT.dot(d)
                jac = max(jac, np.linalg.norm(fd - an) / np.linalg.norm(an - k0.dot(d)))
            print('%-22s alpha=%4.1f  |fd - kT d| / |(kT - k0) d| = %.2e   asym = %.1e' % (model, alpha, jac, np.abs(kT - kT.T).max() / np.abs(kT).max()))
        except Exception as e:
            print('%-22s alpha=%4.1f  ERROR %s: %s' % (model, alpha, type(e).__name__, str(e)[:100]))
