"""Triage demonstrations for the C19 findings (run with /venv/bin/python against
import sys, os; sys.path.insert(0, os.getcwd())
the built package; NOT part of any registered check)."""
import numpy as np, traceback
from compmech.panel import Panel
from compmech.stiffpanelbay import StiffPanelBay

def mk(**kw):
    p = Panel(a=1., b=0.5, stack=[0], plyt=1e-3, laminaprop=(70e9, 70e9, 0.3), mu=2700., m=6, n=6, **kw)
    p.u1tx=p.u2tx=0; p.v1tx=p.v2tx=0
    return p

print('--- F-C19-2a Panel.freq(damping=True) omits aeromu')
p = mk(); p.beta = 1e5; p.flow='x'
try:
    p.freq(atype=2, damping=True, silent=True, sparse_solver=False)
    print('no error')
except Exception as e:
    print('raises', type(e).__name__, e)

print('--- F-C19-2b StiffPanelBay.calc_cA call signature')
bay = StiffPanelBay(); bay.a=1.; bay.b=0.5; bay.stack=[0]; bay.plyt=1e-3; bay.laminaprop=(70e9,70e9,0.3); bay.mu=2700.; bay.m=6; bay.n=6
bay.add_panel(y1=0, y2=bay.b)
bay.Mach=2.; bay.rho_air=1.2; bay.V=600.; bay.speed_sound=300.; bay.r=1e6
try:
    bay.calc_k0(silent=True); bay.calc_cA(silent=True); print('no error')
except Exception as e:
    print('raises', type(e).__name__, e)

print('--- F-C19-3 bay.beta supplied by the user never reaches the panel')
bay2 = StiffPanelBay(); bay2.a=1.; bay2.b=0.5; bay2.stack=[0]; bay2.plyt=1e-3; bay2.laminaprop=(70e9,70e9,0.3); bay2.mu=2700.; bay2.m=6; bay2.n=6
bay2.add_panel(y1=0, y2=bay2.b)
bay2.beta = 1e5
try:
    bay2.calc_k0(silent=True); kA = bay2.calc_kA(silent=True); print('no error, |kA|max', abs(kA).max())
except Exception as e:
    print('raises', type(e).__name__, e)
for beta in (1e5, 2e5):
    bay3 = StiffPanelBay(); bay3.a=1.; bay3.b=0.5; bay3.stack=[0]; bay3.plyt=1e-3; bay3.laminaprop=(70e9,70e9,0.3); bay3.mu=2700.; bay3.m=6; bay3.n=6
    bay3.add_panel(y1=0, y2=bay3.b)
    bay3.beta = beta; bay3.Mach=2.; bay3.rho_air=1.2; bay3.V=600.; bay3.speed_sound=300.
    bay3.calc_k0(silent=True); kA = bay3.calc_kA(silent=True); print('bay.beta=%g -> |kA|max %g (does not scale with beta)' % (beta, abs(kA).max()))
