"""F-C04-1: natural frequencies of an unrestrained homogeneous panel must not change when only the reference
surface is moved (Panel.offset).  Run from a tree root with /venv/bin/python."""
import os
import sys
sys.path.insert(0, os.getcwd())
import numpy as np
from compmech.panel import Panel

res = {}
for off in (0., 0.4, -0.4):
    p = Panel()
    p.a, p.b, p.m, p.n = 1.1, 0.7, 7, 6
    h = 0.004
    p.stack = [0]
    p.plyt = h
    p.laminaprop = (70e9, 70e9, 0.3, 70e9 / 2.6, 70e9 / 2.6, 70e9 / 2.6)
    p.mu = 2700.
    p.model = 'plate_clt_donnell_bardell'
    p.offset = off * h
    for f in ('u', 'v', 'w'):
        for e in ('1tx', '1rx', '2tx', '2rx', '1ty', '1ry', '2ty', '2ry'):
            setattr(p, f + e, 1)
    k0 = p.calc_k0(silent=True).toarray()
    kM = p.calc_kM(silent=True).toarray()
    w2 = np.sort(np.linalg.eigvals(np.linalg.solve(kM, k0)).real)
    res[off] = np.sqrt(np.abs(w2[w2 > 1e-3 * w2.max() * 1e-6][6:12]))      # first elastic modes after the rigid-body ones
    print('offset %+.1f h : first elastic frequencies' % off, np.array2string(res[off], precision=4))
d = max(np.abs(res[o] / res[0.] - 1).max() for o in (0.4, -0.4))
print('largest relative change of a frequency with the reference surface: %.2e' % d)
print('PASS' if d < 1e-6 else 'FAIL')
sys.exit(0 if d < 1e-6 else 1)
