"""F-C06-1 (Panel.freq): dense path with reduced_dof=True.  Run from a tree root with /venv/bin/python."""
import os
import sys
sys.path.insert(0, os.getcwd())
import numpy as np
from compmech.panel import Panel


def panel():
    p = Panel()
    p.a, p.b, p.m, p.n = 1.1, 0.7, 5, 4
    p.plyt = 0.125e-3
    p.laminaprop = (142.5e9, 8.7e9, 0.28, 5.1e9, 5.1e9, 5.1e9)
    p.stack = [0, 45, -45, 90, -45, 45, 0]
    p.mu = 1.3e3
    p.model = 'plate_clt_donnell_bardell'
    for f in ('u', 'v', 'w'):
        for e in ('1tx', '1rx', '2tx', '2rx', '1ty', '1ry', '2ty', '2ry'):
            setattr(p, f + e, 1)      # every amplitude active: the (v, w) selection then refers to the full numbering
    return p


ok = True
ref = panel()
ref.freq(atype=4, sparse_solver=False, silent=True)
w_full = np.sort(ref.eigvals.real[ref.eigvals.real > 1.])[:4]
for sort in (True, False):
    p = panel()
    try:
        p.freq(atype=4, sparse_solver=False, reduced_dof=True, sort=sort, silent=True)
        k0, kM = p.k0.toarray(), p.kM.toarray()
        w, v = p.eigvals, p.eigvecs
        order = np.argsort(w.real)
        i = [k for k in order if w[k].real > 1.][0]      # first elastic mode (the free panel has rigid-body modes)
        # the (v, w)-reduced problem: residual on the kept amplitudes, zeros on the dropped u amplitudes
        take = np.column_stack((np.arange(k0.shape[0])[1::3], np.arange(k0.shape[0])[2::3])).flatten()
        r = (k0 - w[i]**2 * kM)[np.ix_(take, take)].dot(v[take, i])
        res = np.abs(r).max() / np.abs(k0[np.ix_(take, take)].dot(v[take, i])).max()
        zeros = np.abs(v[0::3, i]).max()
        print('sort=%s: lowest %.5f rad/s (full problem %.5f), reduced residual %.1e, |u amplitudes| %.1e, shape %s' % (sort, w[i].real, w_full[0], res, zeros, v.shape))
        ok = ok and res < 1e-8 and zeros == 0 and v.shape[0] == k0.shape[0]
    except Exception as e:
        print('sort=%s: %s: %s' % (sort, type(e).__name__, e))
        ok = False
print('PASS' if ok else 'FAIL')
sys.exit(0 if ok else 1)
