"""F-C18-1: prescribed load-asymmetry amplitude has no right-hand-side term (run with /venv/bin/python from a tree root; not a check).

For every built model: the column of the linear stiffness matrix that couples the free amplitudes with the
always-prescribed amplitude 2 (LA = r2*tan(betarad)).  Where that column is not zero (the first-order-shear
'bcn' models), the linear static solution must satisfy  K_uu c_u = f_u - K_uk[:, 2]*LA ;  calc_fext leaves the
last term out, so the free amplitudes do not respond to the prescribed value and the free rows of the full system
K c = f are out of balance by K_uk[:, 2]*LA."""
import sys, os; sys.path.insert(0, os.getcwd())
import numpy as np
import compmech
from compmech.conecyl import ConeCyl
from compmech.conecyl.modelDB import db
print('compmech from', compmech.__file__)


def mk(model, alpha, betadeg):
    cc = ConeCyl(); cc.model = model; cc.m1 = 6; cc.m2 = 5; cc.n2 = 5; cc.r2 = 250.; cc.H = 500.; cc.alphadeg = alpha
    cc.laminaprop = (70e3, 70e3, 0.3); cc.stack = [0]; cc.plyt = 1.
    cc.Fc = 1000.; cc.pdC = False; cc.betadeg = betadeg
    return cc


bad = 0
for model in sorted(db):
    if db[model]['linear'] is None or model.startswith('iso_'):
        continue
    for alpha in (0., 20.):
        cc = mk(model, alpha, 2.)
        cc._rebuild(); cc._calc_linear_matrices()
        col = np.asarray(cc.k0uk)[:, 2]
        if np.abs(col).max() == 0:
            continue
        sol = {}
        for beta in (0., 2.):
            cc = mk(model, alpha, beta)
            cc.static(silent=True) if 'silent' in cc.static.__code__.co_varnames else cc.static()
            c = np.asarray(cc.cs[0]); f = np.asarray(cc.calc_fext(silent=True))
            kuk = np.asarray(cc.k0uk)
            # free rows of the full system, prescribed amplitudes inserted:  K_uu c_u + K_uk c_k - f_applied
            # (amplitudes 0 and 1: force-controlled / prescribed to zero here; the applied loads do not depend on betadeg)
            if beta == 0.:
                f_applied = f          # LA = 0, no prescribed rotation or shortening: the applied loads alone
            res_reduced = np.abs(cc.k0uu*c - f).max()/np.abs(f_applied).max()
            res_full = np.abs(cc.k0uu*c + kuk[:, 2]*cc.LA - f_applied).max()/np.abs(f_applied).max()
            sol[beta] = c
            print('%-22s alpha=%4.1f betadeg=%g LA=%7.3f  |K_uu c_u - f_u|/|f| = %.1e   free rows of the full system out of balance by %.3e' % (model, alpha, beta, cc.LA, res_reduced, res_full))
        same = np.allclose(sol[0.], sol[2.], rtol=1e-12, atol=0)
        print('    free amplitudes identical with and without the prescribed LA: %s' % same)
        bad += same
print('FAIL: %d model/geometry pairs ignore the prescribed load asymmetry' % bad if bad else 'ok')
sys.exit(1 if bad else 0)
