"""F-C18-1: prescribed load-asymmetry amplitude has no right-hand-side term (run with /venv/bin/python; not a check)"""
import numpy as np
from compmech.conecyl import ConeCyl
def mk(betadeg):
    cc = ConeCyl(); cc.model='clpt_donnell_bc1'; cc.m1=8; cc.m2=6; cc.n2=6; cc.r2=250.; cc.H=500.; cc.alphadeg=20.
    cc.laminaprop=(70e3,70e3,0.3); cc.stack=[0]; cc.plyt=1.
    cc.Fc=1000.; cc.pdC=False; cc.betadeg=betadeg
    return cc
res = {}
for beta in (0., 2.):
    cc = mk(beta); cc.static(); c = cc.cs[0]
    fext = cc.calc_fext()
    cfull = cc.calc_full_c(c)
    k0 = cc.k0.toarray() if hasattr(cc.k0,'toarray') else np.asarray(cc.k0)
    free = [i for i in range(k0.shape[0]) if i not in cc.excluded_dofs]
    # equilibrium of the free rows of the FULL system with the prescribed amplitudes inserted
    ffull = np.zeros(k0.shape[0]); ffull[free] = fext
    # remove the prescribed-displacement terms that calc_fext already moved to the rhs (dofs 0,1 handled; 2 is the question)
    j = cc.excluded_dofs.index(2)
    r = np.asarray(cc.k0uk)[:, j]*cc.LA
    print('betadeg=%g  LA=%g  excluded=%s  max|k0uk[:,LA dof]*LA| (term missing from the rhs) = %.4g   |c_u| = %.6g' % (beta, cc.LA, cc.excluded_dofs, np.abs(r).max(), np.abs(c).max()))
    res[beta] = c
print('free amplitudes identical with and without the prescribed LA:', np.allclose(res[0.], res[2.]))
