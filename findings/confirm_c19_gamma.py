"""F-C19-1: the curvature (gamma) part of the piston-theory matrix of a cylindrical panel is mirrored
skew-symmetrically (run with /venv/bin/python from a tree root; not a check).

The kernel writes, for row <= col,  kA[row, col] = -ab/4 (gamma <phi_row, phi_col> + (2 beta/a) <phi_row,x, phi_col>).
The gamma part is the virtual work of a pressure proportional to w: a symmetric (mass-like) form.  Panel.calc_kA
fills the lower triangle with make_skew_symmetric, i.e. with MINUS the upper one."""
import sys, os; sys.path.insert(0, os.getcwd())
import numpy as np
import compmech
from compmech.panel import Panel
print('compmech from', compmech.__file__)


def mk():
    p = Panel(); p.model = 'cpanel_clt_donnell_bardell'; p.a = 0.8; p.b = 0.5; p.r = 1.2; p.m = 6; p.n = 5
    p.stack = [0, 45, -45, 90]; p.plyt = 1.25e-4; p.laminaprop = (142.5e9, 8.7e9, 0.28, 5.1e9, 5.1e9, 5.1e9); p.mu = 1500.
    p.flow = 'x'
    return p


p = mk(); p.beta = 0.; p.gamma = 1.
kA = p.calc_kA(silent=True).toarray()
w = np.arange(2, kA.shape[0], 3)
G = kA[np.ix_(w, w)]
print('gamma part alone (beta = 0): |G - G.T| = %.3e, |G + G.T| = %.3e, |G| = %.3e' % (np.abs(G - G.T).max(), np.abs(G + G.T - 2*np.diag(np.diag(G))).max(), np.abs(G).max()))
bad = np.abs(G - G.T).max() > 1e-9*np.abs(G).max()
print('FAIL: the pressure proportional to w is represented by a skew-symmetric matrix (its lower triangle has the wrong sign)' if bad else 'ok')
sys.exit(1 if bad else 0)
