"""F-C07-1 / F-C07-2 (run with /venv/bin/python; not a check)"""
import sys, os; sys.path.insert(0, os.getcwd())
import numpy as np
from compmech.panel import Panel
from compmech.stiffpanelbay import StiffPanelBay
p = Panel(a=1., b=0.5, stack=[0], plyt=1e-3, laminaprop=(70e9, 70e9, 0.3), mu=2700., m=6, n=6)
p.model = 'plate_clt_donnell_bardell_w'
p.add_force(0.5, 0.25, 0, 0, 1.)
try:
    p.calc_fext(silent=True); print('w-only model: ok')
except Exception as e:
    print('F-C07-1 w-only model + point force ->', type(e).__name__, e)
b = StiffPanelBay(); b.a=1.; b.b=0.6; b.stack=[0,90,0]; b.plyt=1e-3; b.laminaprop=(140e9,10e9,0.3,5e9,5e9,5e9); b.mu=1600.; b.m=5; b.n=5
b.add_panel(y1=0, y2=b.b)
b.add_force(0.5, 0.3, 0, 0, 1.) if hasattr(b, 'add_force') else b.forces_skin.append([0.5, 0.3, 0, 0, 1.])
try:
    b.calc_k0(silent=True); b.calc_fext(silent=True); print('bay skin force: ok')
except Exception as e:
    print('F-C07-2 bay skin force ->', type(e).__name__, e)
