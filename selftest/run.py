#!/usr/bin/env python3
"""Self-test of the checker, both ways.

Each variant of selftest/variants.json is one text edit of one source file:
  expect = "fire":   a realistic slip that keeps the package importable and the 34 tests green;
                     the named property check must exit 1 (and name the construct);
  expect = "silent": a behaviour-preserving edit; the check must exit 0.
The driver copies the analysed sources of /repo's working tree to a scratch
directory (never /repo or /verif), applies ONE edit, runs ``./check <property>``
with VERIF_REPO pointing there and VERIF_EVIDENCE_DIR pointing to a scratch
evidence directory, and removes the scratch tree.

usage: selftest/run.py [--jobs N] [--only ID_PREFIX] [--json out.json]
"""
import json
import os
import shutil
import subprocess
import sys
import tempfile
from concurrent.futures import ThreadPoolExecutor

HERE = os.path.dirname(os.path.abspath(__file__))
VERIF = os.path.dirname(HERE)
REPO = os.environ.get('VERIF_REPO', '/repo')
EXT = ('.py', '.pyx', '.pxi', '.pxd', '.c', '.h')


def source_files():
    out = subprocess.check_output(['git', '-C', REPO, 'ls-files'], text=True).split('\n')
    return [f for f in out if f.endswith(EXT) and (f.startswith('compmech/') or f == 'setup.py' or f.startswith('theory/func/bardell'))]


_files = None


def make_tree(dst):
    global _files
    if _files is None:
        _files = source_files()
    for f in _files:
        d = os.path.join(dst, f)
        os.makedirs(os.path.dirname(d), exist_ok=True)
        src = os.path.join(REPO, f)
        if os.path.exists(src):
            try:
                os.link(src, d)        # hard link: cheap; the edited file is re-written as a copy below
            except OSError:
                shutil.copy2(src, d)


def run_variant(v):
    tmp = tempfile.mkdtemp(prefix='vst_')
    try:
        tree = os.path.join(tmp, 'repo')
        ev = os.path.join(tmp, 'evidence')
        os.makedirs(tree)
        make_tree(tree)
        if v.get('patch'):
            # a seeded change kept as a patch (seeded/<id>/patch.diff)
            ptxt = open(os.path.join(VERIF, v['patch'])).read()
            for line in ptxt.split('\n'):
                if line.startswith('+++ b/'):
                    f = os.path.join(tree, line[6:].strip())
                    if os.path.exists(f):          # break the hard link before patching
                        data = open(f, 'rb').read()
                        os.remove(f)
                        open(f, 'wb').write(data)
            pr = subprocess.run(['patch', '-p1', '-s', '--no-backup-if-mismatch', '-d', tree], input=ptxt, text=True, capture_output=True)
            if pr.returncode != 0:
                return dict(v, result='INVALID', detail='patch does not apply: ' + (pr.stdout + pr.stderr)[:150])
            env = dict(os.environ, VERIF_REPO=tree, VERIF_EVIDENCE_DIR=ev)
            p = subprocess.run([os.path.join(VERIF, 'check'), v['property']], capture_output=True, text=True, env=env, cwd=VERIF, timeout=900)
            out = p.stdout + p.stderr
            if v.get('expect', 'fire') == 'limitation':
                ok = True       # a known false alarm (or analysis error) on a behaviour-preserving refactoring: reported, see STATUS.json
                return dict(v, result='LIMITATION' if p.returncode != 0 else 'OK', rc=p.returncode, report=next((l for l in out.split('\n') if ' rule ' in l or 'ANALYSIS-ERROR' in l), '')[:200])
            if v.get('expect', 'fire') == 'silent':
                ok = p.returncode == 0
            elif v.get('expect') == 'broken':
                # a seeded change that a check reports by stopping with exit 2 (ANALYSIS-ERROR: an anchor shape is gone): "analysis broken" is
                # never a silent pass, and it is what the seed's meta.json records; a proper VIOLATION is of course fine as well
                ok = p.returncode in (1, 2) and ('ANALYSIS-ERROR' in out or 'VIOLATION property=' + v['property'] in out)
            else:
                ok = p.returncode == 1 and 'VIOLATION property=' + v['property'] in out
                if ok and v.get('names'):
                    ok = all(s in out for s in v['names'])
            first = next((l for l in out.split('\n') if ' rule ' in l or 'ANALYSIS-ERROR' in l), '')[:260]
            return dict(v, result='OK' if ok else 'FAIL', rc=p.returncode, report=first)
        path = os.path.join(tree, v['file'])
        src = open(path, encoding='utf-8', errors='replace').read()
        n = src.count(v['find'])
        if n != v.get('count', 1):
            return dict(v, result='INVALID', detail='anchor text occurs %d times (expected %d)' % (n, v.get('count', 1)))
        new = src.replace(v['find'], v['replace']) if v.get('all') else src.replace(v['find'], v['replace'], 1)
        os.remove(path)                # break the hard link before writing
        open(path, 'w', encoding='utf-8').write(new)
        env = dict(os.environ, VERIF_REPO=tree, VERIF_EVIDENCE_DIR=ev)
        p = subprocess.run([os.path.join(VERIF, 'check'), v['property']], capture_output=True, text=True, env=env, cwd=VERIF, timeout=900)
        out = p.stdout + p.stderr
        fired = p.returncode == 1 and 'VIOLATION property=' + v['property'] in out
        silent = p.returncode == 0
        if v['expect'] == 'fire':
            ok = fired
            if ok and v.get('names'):
                ok = all(s in out for s in v['names'])
        else:
            ok = silent
        first = next((l for l in out.split('\n') if ' rule ' in l), '')[:260]
        return dict(v, result='OK' if ok else 'FAIL', rc=p.returncode, report=first if v['expect'] == 'fire' else out[-300:] if not ok else '')
    except Exception as e:
        return dict(v, result='ERROR', detail=str(e)[:200])
    finally:
        shutil.rmtree(tmp, ignore_errors=True)


def refactor_variants():
    """behaviour-preserving refactorings written by independent sub-agents (selftest/refactors/<id>/patch.diff).  STATUS.json says,
    per refactoring and property, whether the check is silent on it today; those must stay silent.  The ones that still raise an
    alarm are listed there as limitations (DESIGN.md section 5): they are replayed and reported, never counted as a pass."""
    out = []
    rd = os.path.join(HERE, 'refactors')
    sp = os.path.join(rd, 'STATUS.json')
    if not os.path.exists(sp):
        return out
    status = json.load(open(sp))
    for rid, st in sorted(status.items()):
        for prop, verdict in sorted(st.get('replay', {}).items()):
            out.append({'id': 'REFACTOR-%s-%s' % (rid, prop), 'property': prop, 'patch': 'selftest/refactors/%s/patch.diff' % rid,
                        'expect': 'silent' if verdict == 'silent' else 'limitation', 'note': 'behaviour-preserving refactoring by a sub-agent'})
    return out


def seeded_variants():
    """changes written by independent sub-agents (seeded/<id>/): each must be reported by the check named in its meta"""
    out = []
    sd = os.path.join(VERIF, 'seeded')
    if not os.path.isdir(sd):
        return out
    for d in sorted(os.listdir(sd)):
        mp = os.path.join(sd, d, 'meta.json')
        if os.path.exists(mp) and os.path.exists(os.path.join(sd, d, 'patch.diff')):
            meta = json.load(open(mp))
            for prop in meta.get('caught_by', [meta.get('property')]):
                broken = (meta.get('rules_reporting') or {}).get(prop) == ['exit 2']
                out.append({'id': 'SEED-%s-%s' % (d, prop), 'property': prop, 'patch': 'seeded/%s/patch.diff' % d, 'expect': 'broken' if broken else 'fire',
                            'note': meta.get('what_it_needs_to_manifest', '')[:200]})
    return out


def main(argv):
    jobs = 16
    only = None
    jout = None
    i = 0
    while i < len(argv):
        if argv[i] == '--jobs':
            jobs = int(argv[i + 1]); i += 2
        elif argv[i] == '--only':
            only = argv[i + 1]; i += 2
        elif argv[i] == '--json':
            jout = argv[i + 1]; i += 2
        else:
            i += 1
    variants = json.load(open(os.path.join(HERE, 'variants.json'))) + seeded_variants() + refactor_variants()
    if only:
        variants = [v for v in variants if v['id'].startswith(only)]
    with ThreadPoolExecutor(max_workers=jobs) as ex:
        res = list(ex.map(run_variant, variants))
    bad = [r for r in res if r['result'] not in ('OK', 'LIMITATION')]
    for r in res:
        print('%-7s %-6s %-28s %s' % (r['result'], r['expect'], r['id'], (r.get('report') or r.get('detail') or '')[:150].replace('\n', ' ')))
    fire = [r for r in res if r['expect'] in ('fire', 'broken')]
    sil = [r for r in res if r['expect'] == 'silent']
    lim = [r for r in res if r['expect'] == 'limitation']
    summary = {'mutants_killed': sum(r['result'] == 'OK' for r in fire), 'mutants_total': len(fire),
               'refactors_silent': sum(r['result'] == 'OK' for r in sil), 'refactors_total': len(sil),
               'known_false_alarms_on_refactorings': sum(r['result'] == 'LIMITATION' for r in lim), 'limitation_runs': len(lim),
               'failures': [r['id'] for r in bad]}
    print(json.dumps(summary))
    if jout:
        json.dump({'summary': summary, 'results': res}, open(jout, 'w'), indent=1)
    return 0 if not bad else 1


if __name__ == '__main__':
    sys.exit(main(sys.argv[1:]))
