"""C07 - static analysis: load vector = virtual work of the loads; K c = f solved."""
import ast
import re

from . import fieldk, pyrules, pyflow, c13
from .poly import P
from .spec import S, C
from .pyrules import module, norm, attr_calls, local_defs, PANEL
from .pyflow import Sig, bind, dotted
from .report import AnalysisError

LEVEL = 'other'
ASSEMBLY = 'compmech/panel/assembly/assembly.py'
BAY = 'compmech/stiffpanelbay/stiffpanelbay.py'
SPARSE = 'compmech/sparse.py'


def gradient_vs_field(chk, which, disp_helper, ncomp):
    """R07.1: the shape-function row matrix written by cfg is the gradient of the
    displacement the package reports (cfuvw / cfw) with respect to the amplitudes"""
    unit, rel = fieldk.load(chk, which)
    ser = fieldk.Series(unit, disp_helper)
    gs = fieldk.Series(unit, 'cfg', state='__none__')
    outs = [p for p in ser.params if p in ser.outputs]
    chk.need(len(outs) == ncomp, '%s: expected %d displacement outputs' % (disp_helper, ncomp))
    _, pr1 = ser.at_canon()
    _, pr2 = gs.at_canon()
    chk.ob('R07.1', not pr1 and not pr2, rel, 'cfg/' + disp_helper, 'same natural coordinates', expected='xi = 2x/a - 1, eta = 2y/b - 1 in both', got=pr1 + pr2)
    # cfg entries: g[row, base+off] = value ; roles from the definition of base
    w = gs.w
    entries = {}
    garr = gs.params[0]
    for e in w.emits:
        if e.array != garr or len(e.index_polys) != 2:
            continue
        rowp, colp = e.index_polys
        if rowp is None or colp is None or set(rowp.t) - {()}:
            chk.ob('R07.1', False, rel, 'cfg', 'store index', line=e.line, got=e.index)
            continue
        row = int(rowp.t.get((), 0))
        from .kernel import MatrixKernel
        off, base = MatrixKernel._split(colp)
        fdef = e.frame.get(base) if base else None
        if fdef is None:
            chk.ob('R07.1', False, rel, 'cfg', 'column index', line=e.line, got=e.index)
            continue
        mapping = {tok: 'S' for tok in w.loop_tokens(fdef)}
        val, unresolved = w.resolve(e.value, mapping)
        entries.setdefault((row, off), []).append((gs.canon(val), fdef, e.line, unresolved))
    for d, arr in enumerate(outs):
        acc, factor, rem = ser.lin_of_output(arr)
        lin = fieldk.series_lin(ser, acc) if acc else {}
        want = {q: v * factor for q, v in lin.items()} if acc else {}
        for q, v in want.items():
            got = entries.pop((d, q), [])
            ok = len(got) == 1 and got[0][0].close(v) and not got[0][3]
            chk.ob('R07.1', ok, rel, 'cfg', 'g[%d, col+%d] is d(%s)/dc' % (d, q, arr), line=got[0][2] if got else 0,
                   expected=repr(v), got=[repr(g[0]) for g in got],
                   sample='g[%d,col+%d] = %r = d %s / d c[col+%d]' % (d, q, v, arr, q))
            # same amplitude index map
            if got:
                maps = ser.w.lin_maps.get(acc, [])
                same = bool(maps) and all(repr_map(ser.w, m[0]) == repr_map(w, got[0][1]) for m in maps)
                chk.ob('R07.1', same, rel, 'cfg', 'index map of g[%d]' % d, expected='col = num*(j*m+i) as in ' + disp_helper,
                       got=repr(got[0][1]))
    for key, got in entries.items():
        chk.ob('R07.1', False, rel, 'cfg', 'extra entry g[%d, col+%d]' % key, line=got[0][2], expected='only the entries of the gradient are written', got=repr(got[0][0]))
    # fg forwards the flags/geometry under their own names and writes g of the caller
    fn = unit.func('fg')
    calls = [c for c in pyflow.calls_in(fn) if getattr(c.func, 'id', '') == 'cfg']
    chk.need(len(calls) == 1, 'fg: expected one cfg call')
    mp, probs = bind(calls[0], Sig(unit.func('cfg')))
    bad = [p for p, a in mp.items() if norm(a) != p]
    chk.ob('R07.1', not probs and not bad, rel, 'fg', 'cfg call forwards every argument under its own name', got=bad, detail='; '.join(probs),
           sample='fg -> cfg(%s)' % ', '.join(sorted(mp)[:6]))
    envp = {}
    for st in fn.body:
        if isinstance(st, ast.Assign):
            tg = st.targets[0]
            if isinstance(tg, ast.Name) and isinstance(st.value, ast.Attribute) and dotted(st.value.value) == fn.args.args[3].arg:
                envp[tg.id] = st.value.attr
    badp = {k: v for k, v in envp.items() if k != v}
    chk.ob('R07.1', not badp and len(envp) >= 4 + 8 * (ncomp), rel, 'fg', 'flags and geometry read from the panel under their own names', got=badp or len(envp))
    return unit, rel


def repr_map(w, fdef):
    """index map with loop tokens replaced by their bound atoms (m / n)"""
    from . import panelk
    p = fdef.n
    return repr(p.rename(lambda a: ('I' + (panelk._bound_atom(w, a) or '?')) if re.match(r'^L\d+$', a) else a))


def class_guards(unit, fname):
    """tests on <param>.__class__.__name__ that raise: [(param, kind, literal)]"""
    fn = unit.func(fname)
    out = []
    for n in ast.walk(fn):
        if isinstance(n, ast.If) and any(isinstance(s, ast.Raise) for s in n.body):
            t = n.test
            txt = norm(t)
            m = re.match(r"^(\w+)\.__class__\.__name__!='(\w+)'$", txt)
            if m:
                out.append((m.group(1), 'eq', m.group(2)))
            m = re.match(r"^not'(\w+)'in(\w+)\.__class__\.__name__$", txt)
            if m:
                out.append((m.group(2), 'in', m.group(1)))
    return out


def guard_accepts(kind, lit, cls):
    return cls == lit if kind == 'eq' else lit in cls


def run(chk):
    chk.level = LEVEL
    chk.trusted = ['python3 ast', 'E1 lowering', 'C10 function tables', 'scipy spsolve solves the reduced system']
    u3, rel3 = gradient_vs_field(chk, '3dof', 'cfuvw', 3)
    u1, rel1 = gradient_vs_field(chk, '1dof', 'cfw', 1)
    r07_2(chk, u3, u1)
    r07_3(chk)
    r07_4(chk, u3, rel3)
    r07_5(chk)
    chk.explanation = ('the row matrix written by fg/cfg is proved to be the gradient of the reported displacement series; '
                       'calc_fext of Panel/PanelAssembly/StiffPanelBay checked for inc-degree, tuple order, write ranges, dofs '
                       'dispatch, layout order and kernel class guards; sparse.solve reduce/scatter pairing')


def r07_2(chk, u3, u1):
    m = module(PANEL)
    fn = m.method('Panel', 'calc_fext')
    fname = 'Panel.calc_fext'
    pyrules.rebuild_first(chk, 'R07.2', PANEL, 'Panel', 'calc_fext', {'fg'}) if False else None
    # add_force tuple order
    af = m.method('Panel', 'add_force')
    apps = {}
    for c in pyflow.calls_in(af):
        if isinstance(c.func, ast.Attribute) and c.func.attr == 'append':
            apps[dotted(c.func.value)] = norm(c.args[0])
    loops = [n for n in fn.body if isinstance(n, ast.For)]
    by_list = {}
    for lp in loops:
        it = lp.iter
        if isinstance(it, ast.Call) and getattr(it.func, 'id', '') == 'enumerate':
            it = it.args[0]
        by_list[dotted(it)] = lp
    chk.ob('R07.2', set(by_list) == {'self.forces', 'self.forces_inc'}, PANEL, fname, 'constant and incrementable force lists', got=sorted(map(str, by_list)))
    dofs_vals = sorted({v.get('dofs') for v in pyrules.modeldb().values()})
    for lst, inc_deg in (('self.forces', 0), ('self.forces_inc', 1)):
        lp = by_list.get(lst)
        if lp is None:
            continue
        unpack = [s for s in lp.body if isinstance(s, ast.Assign) and isinstance(s.targets[0], ast.Tuple)]
        order = norm(unpack[0].targets[0]).strip('()') if unpack else None
        if order is None:
            # for x, y, fx, fy, fz in self.forces  (with or without enumerate)
            tg = lp.target
            if isinstance(lp.iter, ast.Call) and getattr(lp.iter.func, 'id', '') == 'enumerate' and isinstance(tg, ast.Tuple) and len(tg.elts) == 2:
                tg = tg.elts[1]
            if isinstance(tg, ast.Tuple):
                order = norm(tg).strip('()')
        want_order = apps.get(lst, '').strip('[]')
        chk.ob('R07.2', order == want_order and order == 'x,y,fx,fy,fz', PANEL, fname, 'tuple order of ' + lst, expected=want_order, got=order,
               sample='%s entries unpacked as (%s), stored by add_force as [%s]' % (lst, order, want_order))
        # fg(g, x, y, self)
        calls = [c for c in pyflow.calls_in(lp) if getattr(c.func, 'id', '') == 'fg']
        okc = len(calls) == 1
        if okc:
            mp, probs = bind(calls[0], Sig(u3.func('fg')))
            got = pyrules.bound_texts(fn, mp)
            okc = not probs and got == {'g': 'g', 'x': 'x', 'y': 'y', 'p': 'self'}
        chk.ob('R07.2', okc, PANEL, fname, 'fg call in the %s loop' % lst, expected='fg(g, x, y, self)', got=[norm(c) for c in calls])
        # dofs dispatch: force row per branch; degree in inc
        branches = {}
        for s in lp.body:
            node = s
            while isinstance(node, ast.If):
                t = norm(node.test)
                mm = re.match(r'^dofs==(\d+)$', t)
                if mm:
                    branches[int(mm.group(1))] = node.body
                node = node.orelse[0] if len(node.orelse) == 1 and isinstance(node.orelse[0], ast.If) else None
        # the load factor may be applied once after the dispatch (fpt = fpt*inc) instead of in every branch
        after = [st for st in lp.body if (isinstance(st, ast.Assign) and norm(st.targets[0]) == 'fpt' and norm(st.value) in ('fpt*inc', 'inc*fpt'))
                 or (isinstance(st, ast.AugAssign) and norm(st.target) == 'fpt' and isinstance(st.op, ast.Mult) and norm(st.value) == 'inc')]
        for dv, body in sorted(branches.items()):
            val = [st.value for st in body if isinstance(st, ast.Assign) and norm(st.targets[0]) == 'fpt']
            txt = norm(val[0]) if val else None
            if txt is not None and len(after) == 1:
                txt = txt + '*inc'
            row = {3: 'np.array([[fx,fy,fz]])', 5: 'np.array([[fx,fy,fz,0,0]])', 1: 'np.array([[fz]])'}.get(dv)
            want = row if inc_deg == 0 else row + '*inc'
            alt = 'inc*' + row
            chk.ob('R07.2', txt in (want, alt), PANEL, fname, 'force row for dofs=%d in %s' % (dv, lst), expected=want, got=txt,
                   sample='%s: fpt = %s' % (lst, txt))
        ninc = sum(1 for n in ast.walk(lp) if isinstance(n, ast.Name) and n.id == 'inc')
        if len(after) == 1 and ninc == 1:
            ninc = max(1, len(branches))       # applied once to whatever row the dispatch chose: degree one in every branch
        chk.ob('R07.2', ninc == inc_deg * max(1, len(branches)), PANEL, fname, 'degree in inc of ' + lst,
               expected='load factor used %s' % ('never' if inc_deg == 0 else 'exactly once per branch'), got=ninc)
        for dv in dofs_vals:
            chk.ob('R07.2', dv in branches, PANEL, fname, 'dofs=%s handled in the %s loop' % (dv, lst), line=lp.lineno,
                   expected='a branch for every dofs value registered in modelDB %s' % dofs_vals, got=sorted(branches),
                   detail='modelDB registers a model with dofs=%s but calc_fext defines the force row only for dofs in %s: fpt is unbound for that model' % (dv, sorted(branches)))
        # write range
        augs = [s for s in lp.body if isinstance(s, ast.AugAssign)]
        okw = len(augs) == 1 and norm(augs[0].target) == 'fext[col0:col1]' and norm(augs[0].value) == 'fpt.dot(g).ravel()'
        chk.ob('R07.2', okw, PANEL, fname, 'accumulation range in ' + lst, expected='fext[col0:col1] += fpt.dot(g).ravel()', got=[norm(a) for a in augs])
    defs = {k: [norm(v) for v in vs if v is not None] for k, vs in local_defs(fn).items()}
    chk.ob('R07.2', defs.get('col1') == ['col0+self.get_size()'], PANEL, fname, 'own block of the global vector', got=defs.get('col1'))
    chk.ob('R07.2', defs.get('g') == ['np.zeros((dofs,self.get_size()),dtype=DOUBLE)'], PANEL, fname, 'row matrix shape', got=defs.get('g'))
    chk.ob('R07.2', defs.get('fext') == ['np.zeros(size,dtype=DOUBLE)'], PANEL, fname, 'global vector', got=defs.get('fext'))
    chk.ob('R07.2', defs.get('dofs') == ["db[model]['dofs']"] and defs.get('fg') == ["db[model]['field'].fg"], PANEL, fname, 'model tables', got=(defs.get('dofs'), defs.get('fg')))
    # kernel class guard at this call site
    for unit, which in ((u3, '3dof'), (u1, '1dof')):
        for par, kind, lit in class_guards(unit, 'fg'):
            chk.ob('R07.4', guard_accepts(kind, lit, 'Panel'), fieldk.FIELD[which], 'fg', 'class guard vs Panel.calc_fext',
                   expected='fg accepts the object Panel.calc_fext passes (a Panel)', got='%s %s' % (kind, lit))


def r07_3(chk):
    m = module(ASSEMBLY)
    fn = m.method('PanelAssembly', 'calc_fext')
    loops = [n for n in fn.body if isinstance(n, ast.For) and norm(n.iter) == 'self.panels']
    ok = len(loops) == 1
    got = None
    if ok:
        pv = loops[0].target.id
        calls = [c for c in pyflow.calls_in(loops[0]) if isinstance(c.func, ast.Attribute) and c.func.attr == 'calc_fext']
        ok = len(calls) == 1
        if ok:
            mp, probs = bind(calls[0], Sig(module(PANEL).method('Panel', 'calc_fext'), drop_self=True))
            got = pyrules.bound_texts(fn, mp)
            ok = not probs and got.get('inc') == 'inc' and got.get('size') == 'size' and got.get('col0') == pv + '.col_start'
    chk.ob('R07.3', ok, ASSEMBLY, 'PanelAssembly.calc_fext', 'per panel: inc forwarded, own column offset, global size', got=got,
           sample='PanelAssembly.calc_fext -> p.calc_fext(%s)' % got)
    if len(loops) == 1 and ok:
        # every panel contributes whatever kind of load it carries (point, incremental, distributed, pre-load)
        skips = [norm(n)[:50] for n in ast.walk(loops[0]) if isinstance(n, (ast.Continue, ast.Break))]
        cond = [norm(t)[:60] for t, pol in pyrules.enclosing_tests(loops[0], calls[0])]
        chk.ob('R07.3', not skips and not cond, ASSEMBLY, 'PanelAssembly.calc_fext', 'every panel contributes', line=loops[0].lineno,
               expected='the per-panel calc_fext call is unconditional (only a raise on undefined offsets may precede it)', got=skips + cond,
               detail='' if not (skips or cond) else 'the load vector of the panels for which the condition holds never reaches the global vector')


def r07_4(chk, u3, rel3):
    # layout order is checked by c13.fext_layout under R13.2; here: class guards at the bay call sites
    m = module(BAY)
    fn = m.method('StiffPanelBay', 'calc_fext')
    defs = local_defs(fn)
    guards = class_guards(u3, 'fg')
    chk.need(guards or True, '')
    calls = [c for c in pyflow.calls_in(fn) if isinstance(c.func, ast.Name) and c.func.id.startswith('fg')]
    chk.need(len(calls) >= 4, 'StiffPanelBay.calc_fext: fg call sites vanished')
    for k, c in enumerate(sorted(calls, key=lambda c: c.lineno)):
        obj = norm(c.args[3]) if len(c.args) >= 4 else None
        if obj == 'self':
            cls = 'StiffPanelBay'
        elif obj in ('s.flange', 's.base'):
            cls = 'Panel'
        else:
            cls = None
        for par, kind, lit in guards:
            ok = cls is not None and guard_accepts(kind, lit, cls)
            chk.ob('R07.4', ok, BAY, 'StiffPanelBay.calc_fext', 'class guard of fg at call #%d (%s)' % (k + 1, obj), line=c.lineno,
                   expected="fg requires p.__class__.__name__ %s '%s'" % ('==' if kind == 'eq' else 'to contain', lit),
                   got='receives a %s' % cls,
                   detail='fg raises ValueError unless the class name is exactly %r; this call passes the %s itself, so any point force on the skin makes calc_fext fail' % (lit, cls) if not ok else '',
                   sample='fg call #%d passes a %s' % (k + 1, cls))
    # component lists: forces_skin for the skin; s.flange.forces / s.base.forces for the stiffeners
    lists = []
    for lp in sorted([x for x in ast.walk(fn) if isinstance(x, ast.For)], key=lambda x: x.lineno):
        it = lp.iter.args[0] if isinstance(lp.iter, ast.Call) and getattr(lp.iter.func, 'id', '') == 'enumerate' and lp.iter.args else lp.iter
        if norm(it).endswith('forces_skin') or norm(it).endswith('.forces'):
            lists.append(norm(it))
    chk.ob('R07.4', lists == ['self.forces_skin', 's.flange.forces', 's.base.forces', 's.flange.forces'], BAY, 'StiffPanelBay.calc_fext',
           'force lists per component', got=lists)
    c13.fext_layout(chk) if False else None


def r07_5(chk):
    m = module(SPARSE)
    fn = m.function('solve')
    a, b = fn.args.args[0].arg, fn.args.args[1].arg
    # value sets (vcheck/symval.py): whatever the temporaries are called, the function must compute
    #   (A, U) = remove_null_cols(a);  x = zeros like b;  x[U] = spsolve(A, b[U]);  return x
    from .symval import Flow
    fl = Flow(fn)
    fl.run()
    rn = 'remove_null_cols(%s, silent=silent)' % a
    red, used = rn + '[0]', rn + '[1]'
    alloc_ok = {'np.zeros(%s.shape[0], dtype=%s.dtype)' % (b, b), 'np.zeros_like(%s)' % b, 'np.zeros(%s.shape, dtype=%s.dtype)' % (b, b), 'np.zeros(len(%s), dtype=%s.dtype)' % (b, b),
                'np.zeros(shape=%s.shape[0], dtype=%s.dtype)' % (b, b)}
    sc = [(t, v) for t, v, node in fl.stores]
    okst = len(sc) == 1 and sc[0][1] == {'spsolve(%s, %s[%s], **kwargs)' % (red, b, used)}
    tgt = sc[0][0] if sc else ''
    base = tgt[:-len('[%s]' % used)] if tgt.endswith('[%s]' % used) else None
    rets = [next(iter(r)) if len(r) == 1 else None for r in fl.returns]
    ok = okst and base in alloc_ok and rets == [base]
    chk.ob('R07.5', ok, SPARSE, 'solve', 'reduce, solve, scatter through the same index set',
           expected='(A, U) = remove_null_cols(a); x = zeros like b; x[U] = spsolve(A, b[U]); return x', got={'stores': sc, 'returns': rets},
           sample='solve: x[U] = spsolve(A, b[U]) with (A, U) = remove_null_cols(a)')
    # remove_null_cols: used_cols = unique(cols) of the first matrix; every matrix reduced by rows and columns
    pyrules.check_remove_null_cols(chk, 'R07.5')
    from .symval import Flow

    def contents(fl, fnode, expr):
        """elements of a list-valued expression at the end of the function: literal elements, then what was appended to the name"""
        if isinstance(expr, (ast.List, ast.Tuple)):
            return [next(iter(fl.subst(e, fl.final))) if len(fl.subst(e, fl.final)) == 1 else None for e in expr.elts]
        if isinstance(expr, ast.Name):
            init = [n.value for n in ast.walk(fnode) if isinstance(n, ast.Assign) and len(n.targets) == 1 and isinstance(n.targets[0], ast.Name) and n.targets[0].id == expr.id]
            if len(init) != 1 or not isinstance(init[0], ast.List):
                return None
            out = contents(fl, fnode, init[0])
            for kind, recv, rvals, args, st in fl.events:
                if kind == 'append' and recv == expr.id and len(args) == 1:
                    out.append(next(iter(args[0])) if len(args[0]) == 1 else None)
            return out
        return None
    for rel, fname, getter in (('compmech/analysis/static.py', 'static', lambda mod: mod.function('static')),):
        mod = module(rel)
        f = getter(mod)
        fl = Flow(f)
        fl.final = fl.run()
        K, F = f.args.args[0].arg, f.args.args[1].arg
        rets = [r.value for r in ast.walk(f) if isinstance(r, ast.Return) and r.value is not None]
        got = None
        ok = len(rets) == 1 and isinstance(rets[0], ast.Tuple) and len(rets[0].elts) == 2
        if ok:
            got = [contents(fl, f, e) for e in rets[0].elts]
            ok = got[0] in (['1.0'], ['1']) and got[1] == ['solve(%s, %s, silent=silent)' % (K, F)]
        chk.ob('R07.5', ok, rel, fname, 'linear solution reported at load factor 1', expected='returns ([1.0], [solve(K, fext)])', got=got)
    am = module('compmech/analysis/analysis.py')
    f = am.method('Analysis', 'static')
    fl = Flow(f)
    fl.final = fl.run()
    lin = []
    for kind, recv, rvals, args, st in fl.events:
        if kind == 'append' and len(args) == 1 and recv in ('self.cs', 'self.increments'):
            tests = [(norm(t), pol) for t, pol in pyrules.enclosing_tests(f, st)]
            if ('NLgeom', False) in tests or ('notNLgeom', True) in tests:
                lin.append((recv, sorted(args[0])))
    a0 = a1 = None
    calls = [c for c in pyflow.calls_in(f) if getattr(c.func, 'id', '') == 'solve']
    cs_vals = [v for r, v in lin if r == 'self.cs']
    inc_vals = [v for r, v in lin if r == 'self.increments']
    ok = len(cs_vals) == 1 and len(cs_vals[0]) == 1 and inc_vals in ([['1.0']], [['1']])
    if ok:
        try:
            call = ast.parse(cs_vals[0][0], mode='eval').body
        except SyntaxError:
            call = None
        ok = isinstance(call, ast.Call) and getattr(call.func, 'id', '') == 'solve' and len(call.args) >= 2
        if ok:
            a0, a1 = norm(call.args[0]), norm(call.args[1])
            ok = (a0 in ('self.k0',) or a0.startswith('self.calc_k0(')) and (a1 in ('self.fext',) or a1.startswith('self.calc_fext('))
    chk.ob('R07.5', ok, 'compmech/analysis/analysis.py', 'Analysis.static', 'linear branch solves (k0, fext)',
           expected='under `not NLgeom`: c = solve(k0, fext) with k0 = self.calc_k0(...) and fext = self.calc_fext(...) evaluated in this request; increments [1.0], cs [c]',
           got=lin + (['operands resolve to %s, %s' % (a0, a1)] if a0 else []),
           detail='' if ok else 'a stiffness matrix or load vector that is not recomputed by this request (cached, or another quantity) is solved: the result does not satisfy K c = f of the present definition')
