"""R17.5 - the tangent integrands of the complete-shell non-linear modules are the derivative of
the internal-force integrand.

Everything is decided at integrand level, symbolically:
* ``cffint`` is evaluated with the state-dependent scalars (wx, wt, exx0, exxL, ...) kept as atoms; each
  scalar carries its definition as a linear form  sum_C c_C * coeff_C(basis of C ; other scalars);
* d(scalar)/dc_B follows from the linear form by the product/chain rule; the sums over the
  amplitudes that the chain rule produces are recognised as multiples of known scalars
  (linear-form matching), never expanded;
* the three matrix integrands (cfk0L, cfkLL, cfkG) are read by walking the writer of the
  (row, col) tables (calc_k0L ...) and the writer of the values (cfk0L ...) in lock step;
* the residual  d fint_A / d c_B - (k0L_AB + k0L_BA + kLL_AB + kG_AB)  must be the zero polynomial.
"""
import ast
import os
from fractions import Fraction as Fr

from . import pyxast, shellk
from .shellenergy import (SEval, Basis, unit_consts, fname_F, trig_subs, tnormal, reduce_sg, inv_poly, clear_inv,
                          Undecided, INVREG)
from .poly import P, nfs, Unsupported, NonMonomialDivision
from .report import repo_path, REPO, AnalysisError

S, C = P.sym, P.const
EXT = {'wxs': 'wx', 'wts': 'wt', 'w0xs': 'w0x', 'w0ts': 'w0t', 'vs': 'v', 'us': 'u', 'ws': 'w',
       'phixs': 'phix', 'phits': 'phit', 'xs': 'x', 'ts': 't', 'alphas': 'alpha', 'betas': 'beta'}
STATE = ('c', 'coeffs')
CANON = {1: ('i1',), 2: ('i2', 'j2')}
COLV = {1: ('k1',), 2: ('k2', 'l2')}
SKIP_ARR = {'out', 'fint', 'rows', 'cols', 'es', 'Ns'}


class JEval(SEval):
    def __init__(self, unit, fn, e_num):
        self.e_num = e_num
        self.basis = Basis(unit)
        SEval.__init__(self, unit, fn, sub_hook=self.hook, state=None, frozen=('r',))
        self.den_names = set()
        self.sdef = {}
        self.scalars = set()
        self.buf = {}
        self.events = []
        self.problems = []

    # ---- leaves
    def hook(self, name, idx):
        if name in EXT:
            return S(EXT[name])
        return None

    def leaf(self, n):
        if isinstance(n, ast.Subscript) and isinstance(n.value, ast.Name):
            name = n.value.id
            if name in STATE and not (name in self.env and set(self.env[name].t) <= {()}):
                idx = self.pev(n.slice)
                cls, k, vs = self.basis.classify(idx, xvars1=('i1', 'k1'), xvars2=('i2', 'k2'), tvars=('j2', 'l2'))
                if cls and vs != CANON[cls]:
                    raise AnalysisError('%s: amplitude read with non-canonical index variables %s' % (self.fn.name, vs))
                return S('c{%d;%d}' % (cls, k))
            if name == 'F':
                idx = self.pev(n.slice)
                if set(idx.t) <= {()}:
                    p, q = divmod(int(idx.t.get((), 0)), self.e_num)
                    return S(fname_F(p, q))
            if name == 'Ns':
                idx = self.pev(n.slice)
                q = idx.t.get((), Fr(0))
                return S('N{%d}' % int(q))
            if name in self.buf:
                return self.load(name, self.pev(n.slice))
        if isinstance(n, ast.Subscript) and isinstance(n.value, ast.Attribute):
            # args_in.sina[0]
            return S(n.value.attr)
        if isinstance(n, ast.Attribute):
            return S(n.attr)
        return SEval.leaf(self, n)

    def load(self, name, idx):
        tab = self.buf[name]
        key = nfs(idx)
        if key in tab:
            return tab[key][1]
        # one loop variable with unit coefficient: shift/rename it
        for k_, (sidx, val, vars_) in tab.items():
            sv = [v for v in sidx.atoms() if v in vars_]
            if len(sv) == 1:
                v = sv[0]
                rest = sidx - S(v)
                if v in rest.atoms():
                    continue
                new = idx - rest
                return trig_subs(val, self.trig, {v: new})
        raise AnalysisError('%s: load of %s[%s] matches no store' % (self.fn.name, name, key))

    # ---- statements
    def assign(self, t, value, st, aug):
        if isinstance(t, ast.Name) and t.id in self.frozen:
            self.env[t.id] = S(t.id)
            return
        if isinstance(t, ast.Subscript) and isinstance(t.value, ast.Name):
            arr = t.value.id
            sl = t.slice
            idxs = sl.elts if isinstance(sl, ast.Tuple) else [sl]
            try:
                ip = [self.pev(i) for i in idxs]
                v = self.pev(value)
            except (Unsupported, NonMonomialDivision, ZeroDivisionError) as e:
                self.events.append((arr, None, None, st.lineno, tuple(self.loops), tuple(self.guards)))
                return
            if arr in SKIP_ARR or arr in EXT:
                self.events.append((arr, ip, v, st.lineno, tuple(self.loops), tuple(self.guards)))
            else:
                vars_ = tuple(v_ for l in self.loops for v_ in l[0])
                self.buf.setdefault(arr, {})[nfs(ip[0])] = (ip[0], v, vars_)
            return
        if isinstance(t, ast.Name):
            try:
                v = self.pev(value)
            except (Unsupported, NonMonomialDivision, ZeroDivisionError):
                self.env.pop(t.id, None)
                return
            name = t.id
            if name == 'c' and aug and set(v.t) <= {()}:
                return                       # emit counter
            has_state = any(a.startswith('c{') for a in v.atoms())
            if has_state or (aug and name in self.scalars):
                sign = -1 if aug == 'Sub' else 1
                if aug in ('Add', 'Sub'):
                    base = self.sdef.get(name)
                    if base is None:
                        base = self.env.get(name, P())
                        if isinstance(base, P) and base == S(name):
                            base = P()
                    self.sdef[name] = base + v * C(sign)
                elif not aug:
                    self.sdef[name] = v
                else:
                    raise AnalysisError('%s: unsupported update of the state scalar %s' % (self.fn.name, name))
                self.scalars.add(name)
                self.env[name] = S(name)
                return
            if aug == 'Add':
                self.env[name] = self.env.get(name, P()) + v
            elif aug == 'Sub':
                self.env[name] = self.env.get(name, P()) - v
            elif aug == 'Mult':
                self.env[name] = self.env.get(name, P()) * v
            elif not aug:
                if name in self.scalars:
                    # a scalar reset to a constant (exx0 = 0.) before its accumulation
                    self.sdef[name] = v
                    if not v.t:
                        self.scalars.discard(name)
                        self.sdef.pop(name, None)
                        self.env[name] = v
                    return
                self.env[name] = v
            return


def lin_form(p):
    """polynomial -> ({(cls,k): coeff}, remainder without amplitudes)"""
    lin, rem = shellk.linear_in_state(p, 'c')
    for a in rem.atoms():
        if a.startswith('c{'):
            raise AnalysisError('a state scalar is not linear in the amplitudes: ' + nfs(rem)[:100])
    out = {}
    for key, coeff in lin.items():
        cls, k = key[2:-1].split(';')
        out[(int(cls), int(k))] = coeff
    return out, rem


class Scalars:
    """definitions of the state scalars of one function + derivative rules"""

    def __init__(self, ev, ext=None):
        self.trig = ev.trig
        self.lf, self.const = {}, {}
        for name in ev.scalars:
            self.lf[name], self.const[name] = lin_form(ev.sdef[name])
        for name, (lf, const) in (ext or {}).items():
            if name not in self.lf:
                self.lf[name], self.const[name] = lf, const
        self.names = set(self.lf)
        self.fresh, self.fresh_text = {}, {}

    def index_free(self, p):
        bad = {'x', 't', 'i1', 'k1', 'i2', 'k2', 'j2', 'l2'}
        for a in p.atoms():
            if a in bad or a in self.trig:
                return False
        return True

    def express(self, h, depth=0):
        """sum_C c_C h_C as a polynomial in scalar atoms: h = sum_s lambda_s * lf_s with index-free lambda_s,
        found by eliminating one scalar at a time at an amplitude where its coefficient is a monomial"""
        h = {k: v for k, v in h.items() if v.t and not v.close(P(), ref=None)}
        if not h:
            return P()
        if depth > 5:
            raise Undecided('linear-form matching did not terminate')
        pure = sorted(self.names, key=lambda n: (sum(1 for v in self.lf[n].values() for a in v.atoms() if a in self.names), n))
        # amplitude with the fewest candidate scalars first
        cands = {}
        for k0 in h:
            cands[k0] = [s2 for s2 in pure if self.lf[s2].get(k0, P()).t and len(self.lf[s2][k0].t) == 1
                         and set(k for k, v in self.lf[s2].items() if v.t) <= set(h)]
        for k0 in sorted(h, key=lambda k: (len(cands[k]) or 99, k)):
            for s2 in cands[k0]:
                lam = h[k0] * self.lf[s2][k0].inv()
                if not self.index_free(lam):
                    continue
                rest = dict(h)
                for k, v in self.lf[s2].items():
                    if v.t:
                        rest[k] = rest.get(k, P()) - lam * v
                rest = {k: v for k, v in rest.items() if v.t and not v.close(P(), ref=h.get(k))}
                if len(rest) >= len(h):
                    continue
                try:
                    return lam * S(s2) + self.express(rest, depth + 1)
                except Undecided:
                    continue
            break
        if depth:
            raise Undecided('no combination')
        # not in the span of the known scalars: a new, independent linear form of the amplitudes
        for nm, lf in self.fresh.items():
            if set(lf) == set(h) and all(lf[k].close(h[k]) for k in h):
                return S(nm)
        nm = 'U%d' % (len(self.fresh) + 1)
        self.fresh[nm] = dict(h)
        self.fresh_text[nm] = 'sum over the amplitudes with coefficients ' + str({k: nfs(v)[:70] for k, v in list(h.items())[:3]})
        return S(nm)

    def d(self, name, B, memo):
        """d(name)/dc_B ; B = (cls, k, index vars)"""
        key = (name, B)
        if key in memo:
            return memo[key]
        cls, k, vars_ = B
        base = self.lf[name].get((cls, k), P())
        if cls:
            base = trig_subs(base, self.trig, {c_: S(v) for c_, v in zip(CANON[cls], vars_) if c_ != v})
        out = base
        inner = set()
        for v in list(self.lf[name].values()) + [self.const[name]]:
            inner |= (v.atoms() & self.names)
        for s2 in sorted(inner):
            h = {kk: vv.diff(s2) for kk, vv in self.lf[name].items()}
            e = self.express(h) + self.const[name].diff(s2)
            if e.t:
                out = out + e * self.d(s2, B, memo)
        memo[key] = out
        return out

    def dpoly(self, p, B, memo):
        out = P()
        for s in sorted(p.atoms() & self.names):
            ds = self.d(s, B, memo)
            if ds.t:
                out = out + p.diff(s) * ds
        return out


# --------------------------------------------------------------------------
# reading the functions

def eval_fn(unit, fname, e_num):
    fn = unit.func(fname)
    if fn is None:
        return None
    ev = JEval(unit, fn, e_num)
    ev.run()
    return ev


def vector_entries(ev, arr='fint'):
    """{(cls,k): integrand} from  fint[idx] = beta*fint[idx] + alpha*(...)"""
    out = {}
    for a, ip, v, line, loops, guards in ev.events:
        if a != arr:
            continue
        if ip is None:
            raise AnalysisError('%s: store to %s at line %d not evaluated' % (ev.fn.name, arr, line))
        cls, k, vs = ev.basis.classify(ip[0])
        if cls and vs != CANON[cls]:
            raise AnalysisError('%s: %s written with index variables %s' % (ev.fn.name, arr, vs))
        out[(cls, k)] = out.get((cls, k), P()) + v.coeff_of('alpha', 1)
    return out


def matrix_entries(unit, calc, cf, e_num):
    """walk the (row, col) writer and the value writer in lock step -> {((cls,k),(cls,k)): (value, line, row vars, col vars)}"""
    evc, evf = eval_fn(unit, calc, e_num), eval_fn(unit, cf, e_num)
    if evc is None or evf is None:
        return None, None, ['%s / %s missing' % (calc, cf)]
    rc = []
    r = None
    for a, ip, v, line, loops, guards in evc.events:
        if a == 'rows':
            r = (v, loops, guards, line)
        elif a == 'cols' and r is not None:
            rc.append((r[0], v, tuple(l for l in loops), tuple(guards), line))
            r = None
    vals = [(v, loops, guards, line) for a, ip, v, line, loops, guards in evf.events if a == 'out']
    problems = []
    if len(rc) != len(vals):
        problems.append('%s writes %d (row, col) pairs per pass, %s writes %d values' % (calc, len(rc), cf, len(vals)))
        return None, evf, problems
    out = {}
    for (row, col, l1, g1, ln1), (v, l2, g2, ln2) in zip(rc, vals):
        # the value writer runs inside the integration-point loop: drop it
        l2 = tuple(l for l in l2 if l[0] != ('i',))
        sk1 = tuple(g for g in g1)
        sk2 = tuple(g for g in g2)
        if [l[0] for l in l1] != [l[0] for l in l2] or sk1 != sk2:
            problems.append('%s line %d and %s line %d are not in the same loop/guard context: %s %s vs %s %s' % (calc, ln1, cf, ln2, [l[0] for l in l1], sk1, [l[0] for l in l2], sk2))
            continue
        if v is None or row is None or col is None:
            problems.append('%s line %d: value not evaluated' % (cf, ln2))
            continue
        rk = evc.basis.classify(row, xvars1=('i1', 'k1'), xvars2=('i2', 'k2'), tvars=('j2', 'l2'))
        ck = evc.basis.classify(col, xvars1=('i1', 'k1'), xvars2=('i2', 'k2'), tvars=('j2', 'l2'))
        key = ((rk[0], rk[1]), (ck[0], ck[1]))
        val = v.coeff_of('alpha', 1)
        # canonical naming: row indices i1 / i2,j2 ; column indices k1 / k2,l2
        ren = {}
        if rk[0]:
            for a_, b_ in zip(rk[2], CANON[rk[0]]):
                if a_ != b_:
                    ren[a_] = b_
        if ck[0]:
            for a_, b_ in zip(ck[2], COLV[ck[0]]):
                if a_ != b_:
                    ren[a_] = b_
        if ren:
            # simultaneous renaming through temporaries
            tmp = {a_: S('@' + b_) for a_, b_ in ren.items()}
            val = trig_subs(val, evf.trig, tmp)
            val = trig_subs(val, evf.trig, {'@' + b_: S(b_) for b_ in ren.values()})
        if key in out:
            problems.append('%s: entry %s written twice' % (cf, key))
        out[key] = (val, ln2, 'upper' if any(g.startswith('skip-if') for g in sk2) else 'full')
    return out, evf, problems


def swap_roles(p, trig):
    """row indices <-> column indices"""
    m1 = {'i1': S('@k1'), 'k1': S('@i1'), 'i2': S('@k2'), 'k2': S('@i2'), 'j2': S('@l2'), 'l2': S('@j2')}
    p = trig_subs(p, trig, m1)
    return trig_subs(p, trig, {'@' + v: S(v) for v in ('i1', 'k1', 'i2', 'k2', 'j2', 'l2')})


STRAIN_NAMES6 = ['exx', 'ett', 'gxt', 'kxx', 'ktt', 'kxt']
STRAIN_NAMES8 = STRAIN_NAMES6 + ['gtz', 'gxz']


def jacobian_residuals(unit, commons_unit, kin):
    """-> (results, notes); results: list of dicts per amplitude pair"""
    consts = unit_consts(unit)
    e_num = int(consts.get('e_num', 6))
    names = STRAIN_NAMES6 if e_num == 6 else STRAIN_NAMES8
    notes = []
    evf = eval_fn(unit, 'cffint', e_num)
    if evf is None:
        raise AnalysisError('anchor vanished: cffint in %s' % unit.rel)
    # external scalars: wx, wt (and v ...) from the commons
    ext = {}
    for fn_, nm in (('cfwx', 'wx'), ('cfwt', 'wt'), ('cfv', 'v')):
        e = eval_fn(commons_unit, fn_, e_num)
        if e is not None and nm in e.sdef:
            ext[nm] = lin_form(e.sdef[nm])
    sc = Scalars(evf, ext)
    trig = evf.trig
    cross = []
    # inline wx / wt of cffint must be the commons' wx / wt
    for nm in ('wx', 'wt', 'v'):
        if nm in evf.scalars and nm in ext:
            a, b = sc.lf[nm], ext[nm][0]
            ok = set(k for k, v in a.items() if v.t) == set(k for k, v in b.items() if v.t) and all(a[k].close(b[k]) for k in b if b[k].t)
            cross.append(('cffint computes %s as the commons %s does' % (nm, 'cf' + nm), ok, ''))
    fint = vector_entries(evf)
    mats = {}
    problems = []
    for calc, cf in (('calc_k0L', 'cfk0L'), ('calc_kLL', 'cfkLL'), ('calc_kG', 'cfkG')):
        m, ev_, pr = matrix_entries(unit, calc, cf, e_num)
        problems += pr
        mats[cf] = m or {}
        if ev_ is not None:
            trig.update(ev_.trig)
    # stress resultants used by kG = laminate matrix times (linear + non-linear strain of cffint)
    Nsub = {}
    have = all((n + '0') in sc.names or (n + 'L') in sc.names for n in names[:3])
    for q in range(e_num):
        tot = P()
        for p_ in range(e_num):
            if (q < 6) != (p_ < 6):
                continue
            e_tot = P()
            for suf in ('0', 'L'):
                if names[p_] + suf in sc.names:
                    e_tot = e_tot + S(names[p_] + suf)
            tot = tot + S(fname_F(q, p_)) * e_tot
        Nsub['N{%d}' % q] = tot
    # the commons' strain (what cfN multiplies by the laminate matrix) must be cffint's e0 + eL
    evs = eval_fn(commons_unit, 'cfstrain_' + kin, e_num)
    if evs is not None:
        comp = {}
        for a, ip, v, line, loops, guards in evs.events:
            if a == 'es' and ip is not None:
                comp[int(ip[0].t.get((), 0))] = v
        scs = Scalars(evs, ext)
        for q in range(e_num):
            nm = names[q]
            want = comp.get(q, P())
            # expand the commons' component to its linear form
            lf_c, rem_c = {}, P()
            for s in sorted(want.atoms() & scs.names):
                pass
            got_lf = {}
            for suf in ('0', 'L'):
                if nm + suf in sc.names:
                    for k, v in sc.lf[nm + suf].items():
                        got_lf[k] = got_lf.get(k, P()) + v
            want_lf = {}
            if want.t:
                if want.atoms() & scs.names:
                    w = P()
                    for s in want.atoms() & scs.names:
                        if want == S(s):
                            want_lf = dict(scs.lf[s])
                        else:
                            want_lf = None
                else:
                    want_lf = {}
            if want_lf is None:
                cross.append(('commons strain component %s readable' % nm, False, nfs(want)[:80]))
                continue
            keys = set(k for k, v in got_lf.items() if v.t) | set(k for k, v in want_lf.items() if v.t)
            bad = [k for k in sorted(keys) if not got_lf.get(k, P()).close(want_lf.get(k, P()))]
            cross.append(('cffint %s0 + %sL equals the commons cfstrain_%s component (what cfN multiplies by the laminate matrix for kG)' % (nm, nm, kin), not bad,
                          '; '.join('amplitude %s: %s' % (k, '; '.join(got_lf.get(k, P()).diffterms(want_lf.get(k, P()), 2))) for k in bad[:2])))
    # residuals
    b = evf.basis
    dofs = [(0, k) for k in range(b.num0)] + [(1, k) for k in range(b.num1)] + [(2, k) for k in range(b.num2)]
    results = []
    memo = {}
    k0L, kLL, kG = mats['cfk0L'], mats['cfkLL'], mats['cfkG']

    def entry(m, A, Bk, sym=False):
        if (A, Bk) in m:
            return m[(A, Bk)][0]
        if sym and (Bk, A) in m and A != Bk:
            return swap_roles(m[(Bk, A)][0], trig)
        return P()
    structure = []
    up = sorted(k for k, v in k0L.items() if v[2] == 'upper')
    structure.append(('k0L is written for every (row, col), not only the upper triangle (it is used unsymmetrised: kT = k0 + k0L + k0L^T + ...)', not up,
                      'entries %s ... are skipped for row > col' % (up[:3],) if up else '', k0L[up[0]][1] if up else 0))
    for A in dofs:
        if A == (0, 2):
            continue
        fA = fint.get(A, P())
        for Bk in dofs:
            if Bk == (0, 2):
                continue
            Bfull = (Bk[0], Bk[1], COLV.get(Bk[0], ()))
            try:
                lhs = sc.dpoly(fA, Bfull, memo)
                rhs = entry(k0L, A, Bk) + swap_roles(entry(k0L, Bk, A), trig) + entry(kLL, A, Bk, sym=True) + entry(kG, A, Bk, sym=True).subs(Nsub)
                # the same external names in the matrix kernels (wx, wt, w0x, w0t) are the scalars of cffint
                D = tnormal(lhs - rhs, trig)
                ok = D.close(P(), ref=tnormal(lhs, trig) if lhs.t else (tnormal(rhs, trig) if rhs.t else None))
                detail = '' if ok else '; '.join(D.diffterms(P(), 3))
                if not ok:
                    for nm in sorted(a for a in D.atoms() if a in sc.fresh_text):
                        detail += ' [%s = %s: not expressible through the state scalars the tangent kernels use]' % (nm, sc.fresh_text[nm])
            except Undecided as ex:
                ok, detail = None, str(ex)
            line = 0
            for m in (k0L, kLL, kG):
                if (A, Bk) in m:
                    line = line or m[(A, Bk)][1]
            results.append({'row': A, 'col': Bk, 'ok': ok, 'detail': detail, 'line': line, 'zero': not lhs.t if ok is not None else None})
    # R17.6 order of the internal-force integrand in the amplitudes (perfect shell: w0 = 0)
    perfect = {'w0x': P(), 'w0t': P(), 'w0': P()}
    order_memo = {}

    def order(name, stack=()):
        if name in order_memo:
            return order_memo[name]
        if name in stack:
            return 1
        best = None
        for v in sc.lf[name].values():
            v = v.subs(perfect)
            for m in v.t:
                o = 1 + sum(e * order(a, stack + (name,)) for a, e in m if a in sc.names)
                best = o if best is None else min(best, o)
        cst = sc.const[name].subs(perfect)
        for m in cst.t:
            o = sum(e * order(a, stack + (name,)) for a, e in m if a in sc.names)
            best = o if best is None else min(best, o)
        order_memo[name] = best if best is not None else 99
        return order_memo[name]
    orders = []
    for A in dofs:
        fA = fint.get(A, P())
        o_gen = min([sum(e for a, e in m if a in sc.names) for m in fA.t] or [99])
        fp = fA.subs(perfect)
        o_perf = min([sum(e * order(a) for a, e in m if a in sc.names) for m in fp.t] or [99])
        orders.append((A, o_gen, o_perf))
    return results, cross, problems, structure, orders


# --------------------------------------------------------------------------
# R17.7 isotropic short-cut non-linear modules vs the general ones

def iso_vs_general(iso_unit, gen_unit):
    """k0L and kLL integrands of an iso_ module == those of the general module under the isotropic laminate"""
    from . import c16iso
    from .panelk import abd_name
    Fiso = c16iso.iso_F()
    sub = {}
    for p_ in range(6):
        for q_ in range(6):
            sub[abd_name(p_, q_)] = Fiso[p_][q_]
    consts = unit_consts(gen_unit)
    e_num = int(consts.get('e_num', 6))
    results, problems = [], []
    for calc, cf in (('calc_k0L', 'cfk0L'), ('calc_kLL', 'cfkLL')):
        mi, evi, pi_ = matrix_entries(iso_unit, calc, cf, e_num)
        mg, evg, pg = matrix_entries(gen_unit, calc, cf, e_num)
        problems += pi_ + pg
        if mi is None or mg is None:
            continue
        trig = dict(evi.trig)
        trig.update(evg.trig)
        for key in sorted(set(mi) | set(mg)):
            vi = mi[key][0] if key in mi else P()
            vg = mg[key][0].subs(sub) if key in mg else P()
            try:
                nu, Q = S('nu'), S(c16iso.QNAME)
                pre = {'INV(%s)' % nfs(C(1) - nu): (C(1) + nu) * Q, 'INV(%s)' % nfs(C(1) + nu): (C(1) - nu) * Q}
                a = c16iso.reduce_iso(vi.subs(pre), trig)
                b = c16iso.reduce_iso(vg.subs(pre), trig)
                ok = a.close(b)
                detail = '' if ok else '; '.join(a.diffterms(b, 3))
            except (Unsupported, NonMonomialDivision) as ex:
                ok, detail = None, str(ex)
            if key in mi and key in mg and mi[key][2] != mg[key][2]:
                ok, detail = False, 'written for %s in the short-cut module but for %s in the general one' % (mi[key][2], mg[key][2])
            results.append({'matrix': cf, 'key': key, 'ok': ok, 'detail': detail, 'line': mi[key][1] if key in mi else 0,
                            'missing': key not in mi})
    return results, problems
