"""C17 - cone/cylinder non-linear tangent: named structural clauses only."""
import ast
import os
import re

from . import pyflow, pyrules, pyxast
from .pyflow import Sig, bind, dotted, callee_name
from .pyrules import module, norm, local_defs, resolve
from .report import repo_path, REPO, AnalysisError

LEVEL = 'proof'
CONECYL = 'compmech/conecyl/conecyl.py'
MODELDB = 'compmech/conecyl/modelDB.py'
INTV = 'compmech/integrate/integratev.pyx'


def conecyl_db():
    m = module(MODELDB)
    for st in m.tree.body:
        if isinstance(st, ast.Assign) and getattr(st.targets[0], 'id', '') == 'db' and isinstance(st.value, ast.Dict):
            out = {}
            for k, v in zip(st.value.keys, st.value.values):
                if isinstance(k, ast.Constant) and isinstance(v, ast.Dict):
                    out[k.value] = {kk.value: (vv.value if isinstance(vv, ast.Constant) else ast.unparse(vv)) for kk, vv in zip(v.keys, v.values) if isinstance(kk, ast.Constant)}
            return out
    raise AnalysisError('conecyl modelDB.db literal not found')


def nl_module_file(name):
    for sub in ('clpt', 'fsdt'):
        p = 'compmech/conecyl/%s/%s.pyx' % (sub, name)
        if os.path.exists(repo_path(p)):
            return p
    return None


def integratev_structure(chk, rule='R17.3'):
    u = pyxast.parse(repo_path(INTV), REPO)
    fn = u.func('integratev')
    chk.need(fn is not None, 'integratev vanished')
    fname = 'integratev'
    pr = [n for n in ast.walk(fn) if isinstance(n, ast.For) and isinstance(n.iter, ast.Call) and getattr(n.iter.func, 'id', '') == 'prange']
    chk.ob(rule, len(pr) == 1, INTV, fname, 'one prange loop', got=len(pr))
    if len(pr) != 1:
        return
    lp = pr[0]
    iv = lp.target.id
    nc = norm(lp.iter.args[0])
    calls = [s.value for s in lp.body if isinstance(s, ast.Expr) and isinstance(s.value, ast.Call)]
    ok = len(calls) == 1 and len(lp.body) == 1
    det = ''
    if ok:
        c = calls[0]
        args = [norm(a) for a in c.args]
        # f(k, &xs2[k*i], &ys2[k*i], &outs[i, 0], &alphas[k*i], &betas[k*i], args=args)
        kname = args[0]
        want = [kname, 'ADDR(xs2[%s*%s])' % (kname, iv), 'ADDR(ys2[%s*%s])' % (kname, iv), 'ADDR(outs[%s,0])' % iv,
                'ADDR(alphas[%s*%s])' % (kname, iv), 'ADDR(betas[%s*%s])' % (kname, iv)]
        ok = args == want
        det = str(args)
    chk.ob(rule, ok, INTV, fname, 'iteration i integrates points [k*i, k*(i+1)) into its own row outs[i,:]', detail=det,
           expected='f(k, &xs2[k*i], &ys2[k*i], &outs[i,0], &alphas[k*i], &betas[k*i])', sample='integratev prange: ' + det)
    defs = {k: [norm(v) for v in vs if v is not None] for k, vs in local_defs(fn).items()}
    chk.ob(rule, defs.get('k') == ['npts/%s' % nc] and defs.get('npts') == ['xs2.shape[0]'], INTV, fname, 'chunk length k = npts // num_cores (C integer division)',
           got=(defs.get('k'), defs.get('npts')))
    chk.ob(rule, defs.get('rest') == ['npts-k*%s' % nc], INTV, fname, 'tail length', got=defs.get('rest'))
    chk.ob(rule, defs.get('outs') == ['np.zeros((%s,fdim),DOUBLE)' % nc], INTV, fname, 'per-thread accumulators start from zero', got=defs.get('outs'))
    tail = [n for n in ast.walk(fn) if isinstance(n, ast.If) and norm(n.test) == 'rest>0']
    okt = False
    if len(tail) == 1 and len(tail[0].body) == 1 and isinstance(tail[0].body[0], ast.Expr):
        args = [norm(a) for a in tail[0].body[0].value.args]
        off = 'k*%s' % nc
        okt = args == ['rest', 'ADDR(xs2[%s])' % off, 'ADDR(ys2[%s])' % off, 'ADDR(outs[0,0])', 'ADDR(alphas[%s])' % off, 'ADDR(betas[%s])' % off]
        # the tail runs after the parallel loop (sequentially)
        okt = okt and tail[0].lineno > lp.lineno
    chk.ob(rule, okt, INTV, fname, 'tail [k*num_cores, npts) integrated once, after the parallel loop', sample='tail: f(rest, &xs2[k*num_cores], ..., &outs[0,0], ...)')
    chk.ob(rule, defs.get('out_tmp') == ['np.sum(outs,axis=0)'], INTV, fname, 'reduction is a plain sum over the thread rows', got=defs.get('out_tmp'))
    st = [norm(n) for n in ast.walk(fn) if isinstance(n, ast.Assign) and isinstance(n.targets[0], ast.Subscript) and norm(n.targets[0].value) == 'out']
    chk.ob(rule, st == ['out[i]=out_tmp[i]'], INTV, fname, 'result copied component-wise', got=st)
    # both rules come from the point-set builders verified under C10
    m = [norm(n.value) for n in ast.walk(fn) if isinstance(n, ast.Assign) and isinstance(n.targets[0], ast.Tuple) and norm(n.targets[0]) == '(xs2,ys2,alphas,betas)']
    chk.ob(rule, sorted(m) == sorted(['trapz2d_points(xmin,xmax,nx,ymin,ymax,ny)', 'simps2d_points(xmin,xmax,nx,ymin,ymax,ny)']), INTV, fname,
           'point sets from trapz2d_points / simps2d_points', got=m)


def run(chk):
    chk.level = LEVEL
    chk.trusted = ['Fraction polynomial arithmetic (poly.P)', 'linear-form matching of shelljac (incomplete only towards reporting a mismatch)', 'python3 ast', 'E1 lowering']
    chk.assumptions = ['the Jacobian identity inside the generated non-linear modules is NOT decided (p.q factorised integrands with buffers)']
    m = module(CONECYL)
    fn = m.method('ConeCyl', '_calc_NL_matrices')
    fname = 'ConeCyl._calc_NL_matrices'
    defs = {k: [norm(v) for v in vs if v is not None] for k, vs in local_defs(fn).items()}
    # R17.1 composition
    kt = defs.get('kT', [])
    ktn = [v for v in local_defs(fn).get('kT', []) if v is not None]
    okkt = len(ktn) == 1 and isinstance(ktn[0], ast.Call) and pyflow.callee_name(ktn[0]) in ('coo_matrix', 'csr_matrix') and \
        pyrules.same_expr(ktn[0].args[0], 'self.k0 + k0L + kL0 + kLL + kG')
    chk.ob('R17.1', okkt, CONECYL, fname, 'kT = k0 + k0L + k0L^T + kLL + kG', got=kt, sample='kT = ' + str(kt))
    chk.ob('R17.1', defs.get('kL0') == ['k0L.T'], CONECYL, fname, 'kL0 is the transpose of k0L', got=defs.get('kL0'))
    for nm in ('kG', 'kLL'):
        vs = defs.get(nm, [])
        sym = [v for v in vs if v == 'make_symmetric(%s)' % nm]
        raw = [v for v in vs if v.startswith('calc_' + nm + '(')]
        chk.ob('R17.1', len(sym) >= 1 and len(sym) == len(raw), CONECYL, fname, '%s symmetrised after every integration' % nm, got=vs,
               sample='%s: %d integrations, %d symmetrisations' % (nm, len(raw), len(sym)))
    part = [norm(n.value) for n in ast.walk(fn) if isinstance(n, ast.Assign) and norm(n.targets[0]) == 'k']
    chk.ob('R17.1', part == ['self.exclude_dofs_matrix(kT,return_kuk=True)'], CONECYL, fname, 'tangent partitioned by exclude_dofs_matrix', got=part)
    chk.ob('R17.1', "self.kTuu=k['kuu']" in [norm(n) for n in ast.walk(fn) if isinstance(n, ast.Assign)], CONECYL, fname, 'kTuu stored')
    stm = [s_ for s_ in fn.body if not (isinstance(s_, ast.Expr) and isinstance(s_.value, ast.Constant))]
    first = norm(stm[0]) if stm else ''
    chk.ob('R17.1', first == 'c=self.calc_full_c(c,inc=inc)', CONECYL, fname, 'full amplitude vector built first', got=first)
    ff = m.method('ConeCyl', 'calc_fint')
    fdefs = {k: [norm(v) for v in vs if v is not None] for k, vs in local_defs(ff).items()}
    body = [norm(s) for s in ast.walk(ff) if isinstance(s, (ast.Assign, ast.AugAssign))]
    chk.ob('R17.1', body and body[0] == 'c=self.calc_full_c(c,inc=inc)', CONECYL, 'ConeCyl.calc_fint', 'full amplitude vector built first', got=body[:1])
    chk.ob('R17.1', 'fint+=self.k0*c' in body, CONECYL, 'ConeCyl.calc_fint', 'fint = fint_NL(c) + k0.c', got=[b for b in body if b.startswith('fint')],
           sample='calc_fint: fint = calc_fint_0L_L0_LL(c, ...) ; fint += self.k0*c')
    chk.ob('R17.1', 'fint=np.delete(fint,self.excluded_dofs)' in body, CONECYL, 'ConeCyl.calc_fint', 'reduced by the same excluded_dofs', got=[b for b in body if 'delete' in b])
    ex = m.method('ConeCyl', 'exclude_dofs_matrix')
    uses = {norm(n) for n in ast.walk(ex) if isinstance(n, ast.Attribute) and norm(n) == 'self.excluded_dofs'}
    chk.ob('R17.1', bool(uses), CONECYL, 'ConeCyl.exclude_dofs_matrix', 'partition uses self.excluded_dofs')
    # the tangent and the internal force are evaluated at the requested load level
    pyrules.check_forwarding(chk, 'R17.1', CONECYL, 'ConeCyl', 'inc', methods=('calc_kT', '_calc_NL_matrices', 'calc_fint'), floor=3,
                             why='the prescribed amplitudes (uTM, thetaT, LA) enter the state as inc*value: the tangent is then the Jacobian of the internal force at another state')
    # R17.2 configuration agreement
    db = conecyl_db()
    gen = [k for k, v in db.items() if v.get('non-linear') not in (None, 'None') and not k.startswith('iso_')]
    chk.need(gen, 'no non-linear capable model found in the conecyl modelDB')
    nlrel = nl_module_file(db[gen[0]]['non-linear'])
    chk.need(nlrel is not None, 'non-linear kernel file not found for %s' % gen[0])
    unl = pyxast.parse(repo_path(nlrel), REPO)
    roles = {}
    ncalls = 0
    for cal in ('calc_kG', 'calc_k0L', 'calc_kLL'):
        calls = [c for c in pyflow.calls_in(fn) if getattr(c.func, 'id', '') == cal]
        for c in calls:
            tests = [(norm(t), pol) for t, pol in pyrules.enclosing_tests(fn, c)]
            iso = ("'iso_'inmodel", True) in tests
            if iso and cal != 'calc_kG':
                continue          # iso signature (E11, nu, h) is bound separately below
            mp, probs = bind(c, Sig(unl.func(cal)))
            got = {p: resolve(fn, a) for p, a in mp.items()}
            chk.ob('R17.2', not probs, CONECYL, fname, '%s call binds against %s' % (cal, os.path.basename(nlrel)), line=c.lineno, detail='; '.join(probs))
            ncalls += 1
            for p, v in got.items():
                pname = {'coeffs': 'c', 'tLA': 'tLArad'}.get(p, p)
                roles.setdefault(pname, set()).add(v)
    calls = [c for c in pyflow.calls_in(ff) if isinstance(c.func, ast.Attribute) and c.func.attr == 'calc_fint_0L_L0_LL']
    chk.need(len(calls) == 1, 'ConeCyl.calc_fint: kernel call vanished')
    mp, probs = bind(calls[0], Sig(unl.func('calc_fint_0L_L0_LL')))
    chk.ob('R17.2', not probs, CONECYL, 'ConeCyl.calc_fint', 'calc_fint_0L_L0_LL call binds', detail='; '.join(probs))
    gotf = {p: resolve(ff, a, depth=3) for p, a in mp.items()}
    for p, v in gotf.items():
        pname = {'coeffs': 'c', 'tLA': 'tLArad'}.get(p, p)
        if pname in ('nx', 'nt'):
            chk.ob('R17.2', v == 'self.%s*m' % pname, CONECYL, 'ConeCyl.calc_fint', 'integration grid ' + pname, expected='self.%s*m (refinement factor m)' % pname, got=v)
            continue
        roles.setdefault(pname, set()).add(v)
    for pname, vs in sorted(roles.items()):
        ok = len(vs) == 1
        chk.ob('R17.2', ok, CONECYL, 'ConeCyl._calc_NL_matrices/calc_fint', 'all kernels receive the same ' + pname, expected='one source expression', got=sorted(vs),
               sample='%s <- %s' % (pname, sorted(vs)))
    chk.floor('R17.2 kernel calls compared', ncalls, 3)
    # R17.3
    integratev_structure(chk, 'R17.3')
    # R17.4 iso models borrow calc_kG / fint from the general model of the same boundary condition
    kg = defs.get('calc_kG', [])
    chk.ob('R17.4', sorted(kg) == sorted(["modelDB.db[model[4:]]['non-linear'].calc_kG", 'nlmodule.calc_kG']), CONECYL, fname,
           'iso_ models take calc_kG from the general model of the same BC', got=kg, sample='calc_kG sources: %s' % kg)
    nlm = fdefs.get('nlmodule', [])
    chk.ob('R17.4', sorted(nlm) == sorted(["modelDB.db[self.model[4:]]['non-linear']", "modelDB.db[self.model]['non-linear']"]), CONECYL, 'ConeCyl.calc_fint',
           'iso_ models integrate fint with the general model of the same BC', got=nlm)
    for k, v in db.items():
        if k.startswith('iso_'):
            chk.ob('R17.4', k[4:] in db and db[k[4:]].get('non-linear') not in (None, 'None'), MODELDB, 'db', 'general sibling of ' + k, got=db.get(k[4:], {}).get('non-linear'))
    r17_5(chk)
    chk.explanation = ('composition of kT and fint, agreement of the configuration handed to the four integration kernels, '
                       'structure of the threaded vector integration, provenance of calc_kG for the isotropic short-cut models, '
                       'symbolic differentiation of the internal-force integrand against the three tangent integrands (R17.5)')


# --------------------------------------------------------------------------
# R17.5 tangent integrands == derivative of the internal-force integrand


def _task_jac(args):
    model, nlrel, crel = args
    from . import shelljac, shellenergy
    try:
        u = pyxast.parse(repo_path(nlrel), REPO)
        cu = pyxast.parse(repo_path(crel), REPO)
        consts = shellenergy.unit_consts(u)
        kin = {0: 'donnell', 1: 'sanders'}.get(int(consts.get('NL_kinematics', -1)))
        imp = re.findall(r'from\s+([\w\.]+)\s+cimport\s+([^\n]*cfN[^\n]*)', u.src)
        if kin is None:
            return args, None, 'NL_kinematics constant not found in ' + nlrel
        res, cross, problems, structure, orders = shelljac.jacobian_residuals(u, cu, kin)
        return args, (kin, [i[0].split('.')[-1] for i in imp], res, cross, problems, structure, orders), None
    except AnalysisError as e:
        return args, None, str(e)


def r17_5(chk):
    from concurrent.futures import ProcessPoolExecutor
    db = conecyl_db()
    built = set(pyxast.built_sources(REPO))
    tasks = []
    for model, ent in sorted(db.items()):
        if ent.get('non-linear static') is not True or model.startswith('iso_'):
            continue
        nlrel = nl_module_file(ent.get('non-linear'))
        crel = nl_module_file(ent.get('commons'))
        if nlrel is None or crel is None or nlrel not in built:
            chk.ob('R17.5', False, MODELDB, 'db', 'kernels of the non-linear capable model ' + model, got='non-linear module %s / commons %s not found among the built sources' % (ent.get('non-linear'), ent.get('commons')))
            continue
        tasks.append((model, nlrel, crel))
    n = 0
    with ProcessPoolExecutor(max_workers=min(16, os.cpu_count() or 4)) as pool:
        for (model, nlrel, crel), out, err in pool.map(_task_jac, tasks):
            if err:
                raise AnalysisError('R17.5 %s: %s' % (model, err))
            kin, imps, res, cross, problems, structure, orders = out
            base = os.path.basename(nlrel)
            chk.ob('R17.5', kin == model.split('_')[1], nlrel, 'module', 'NL_kinematics constant agrees with the model name', expected=model.split('_')[1], got=kin)
            want = os.path.basename(crel)[:-4]
            chk.ob('R17.5', imps == [want], nlrel, 'module', 'cfwx/cfwt/cfN come from the commons module the model registers', expected=want, got=imps)
            chk.ob('R17.5', not problems, nlrel, 'calc_k0L/calc_kLL/calc_kG', 'writer of (row, col) and writer of the values walk the same loop/guard structure',
                   got=problems[:3], detail='; '.join(problems[:3]),
                   sample='%s: (row, col) tables of calc_k0L/kLL/kG and values of cfk0L/kLL/kG pair up one to one' % base)
            for what, ok, detail, line in structure:
                chk.ob('R17.5', ok, nlrel, 'calc_k0L/cfk0L', what[:110], line=line, got=detail, detail=detail)
            for what, ok, detail in cross:
                chk.ob('R17.5', ok, nlrel, 'cffint', what[:140], got=detail, detail=detail, sample='%s: %s' % (base, what) if n % 40 == 0 else None)
            bad0 = [a for a, og, op in orders if og < 1]
            bad1 = [a for a, og, op in orders if op < 2]
            chk.ob('R17.6', not bad0, nlrel, 'cffint', 'internal force vanishes with the amplitudes', expected='every term of every fint integrand carries at least one state scalar (all of which vanish at c = 0)',
                   got='amplitudes %s have a state-independent term' % bad0[:4] if bad0 else '', sample='%s: fint(0) = 0 term by term' % base)
            chk.ob('R17.6', not bad1, nlrel, 'cffint', 'non-linear part is of second order for the perfect shell', expected='with w0 = 0 every term of the fint integrand is of order >= 2 in the amplitudes, so fint -> k0.c for vanishing amplitudes',
                   got='amplitudes %s have a first-order term' % bad1[:4] if bad1 else '', sample='%s: fint_NL = O(|c|^2) for the perfect shell' % base)
            for r in res:
                n += 1
                construct = 'd fint[%d;%d] / d c[%d;%d]' % (r['row'] + r['col'])
                chk.ob('R17.5', r['ok'] is True, nlrel, 'cffint vs cfk0L+cfk0L^T+cfkLL+cfkG', construct, line=r['line'],
                       expected='the derivative of the internal-force integrand of amplitude (class;dof) %s with respect to amplitude %s equals the sum of the tangent integrands' % (r['row'], r['col']),
                       got='equal' if r['ok'] else ('differs' if r['ok'] is False else 'not decidable'), detail=r['detail'][:900],
                       sample='%s: %s == k0L + k0L^T + kLL + kG (integrand level, %s)' % (base, construct, 'identically zero' if r['zero'] else 'non-trivial') if n % 60 == 1 else None)
    # R17.7 the isotropic short-cut modules: k0L and kLL integrands == the general module's under the isotropic laminate
    from . import shelljac
    ni = 0
    for model, ent in sorted(db.items()):
        if not model.startswith('iso_') or ent.get('non-linear static') is not True:
            continue
        irel = nl_module_file(ent.get('non-linear'))
        grel = nl_module_file(db.get(model[4:], {}).get('non-linear'))
        if irel is None or grel is None:
            chk.ob('R17.7', False, MODELDB, 'db', 'non-linear modules of %s and its general sibling' % model, got=(ent.get('non-linear'), db.get(model[4:], {}).get('non-linear')))
            continue
        res, problems = shelljac.iso_vs_general(pyxast.parse(repo_path(irel), REPO), pyxast.parse(repo_path(grel), REPO))
        chk.ob('R17.7', not problems, irel, 'calc_k0L/calc_kLL', 'writer of (row, col) and writer of the values walk the same structure', got=problems[:3])
        for r in res:
            ni += 1
            construct = '%s entry %s' % (r['matrix'], r['key'])
            chk.ob('R17.7', r['ok'] is True, irel, r['matrix'], construct, line=r['line'],
                   expected='the general module (%s) evaluated for the isotropic laminate' % os.path.basename(grel),
                   got='equal' if r['ok'] else ('absent from the short-cut module' if r['missing'] else 'differs' if r['ok'] is False else 'not decidable'), detail=r['detail'][:600],
                   sample='%s: %s == general under the isotropic substitution' % (os.path.basename(irel), construct) if ni % 30 == 1 else None)
    chk.floor('R17.7 entries', ni, 80)
    chk.floor('R17.5 modules', len(tasks), 8)
    chk.floor('R17.5 amplitude pairs', n, 1000)
    chk.assumptions = list(getattr(chk, 'assumptions', [])) + [
        'R17.5 decides the Jacobian identity at integrand level (every integration point), for all amplitude pairs except the always-prescribed amplitude 2; '
        'the isotropic short-cut modules (no cffint of their own) are tied to the general ones by R17.4 only',
        'the accuracy of the numerical integration and bit-identical sums across thread counts are not decided']
