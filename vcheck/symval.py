"""Flow-sensitive value sets for local names: a tiny abstract interpreter over straight-line code with if/else.

value(name) at a program point = the set of expressions the name may hold there, written over the inputs (parameters,
attributes, loop items) with every intermediate local substituted.  Branches are merged by union, a loop body is
interpreted once with its target(s) bound to item placeholders (ITEM / INDEX), method calls that mutate a local list
(`x.append(v)`) are recorded as events.  Expressions are kept as normalised text; the rewrites applied are only
substitutions of local names, so two codes that compute the same thing through different temporaries, helpers or branch
layouts give the same value sets."""
import ast
import copy
import itertools

CONVERSIONS = ('csr_matrix', 'csc_matrix', 'coo_matrix', 'np.asarray', 'np.array', 'np.ascontiguousarray')


def _norm(n):
    return ast.unparse(n) if isinstance(n, ast.AST) else str(n)


def _dotted(n):
    if isinstance(n, ast.Name):
        return n.id
    if isinstance(n, ast.Attribute):
        b = _dotted(n.value)
        return b + '.' + n.attr if b else None
    return None


class Flow:
    def __init__(self, fn, limit=16):
        self.fn = fn
        self.limit = limit
        self.events = []        # (kind, receiver value set, argument value set, statement)
        self.stores = []        # (target text with values substituted, value set, statement)
        self.returns = []       # value sets
        self.snap = {}          # id(statement) -> env before it

    # ------------------------------------------------------------------
    def subst(self, node, env):
        """-> set of texts of the expression with local names replaced by their values"""
        names = sorted({n.id for n in ast.walk(node) if isinstance(n, ast.Name) and isinstance(n.ctx, ast.Load) and n.id in env})
        if not names:
            return {_norm(node)}
        out = set()
        choices = [sorted(env[nm])[:self.limit] for nm in names]
        for combo in itertools.islice(itertools.product(*choices), self.limit * 4):
            mp = dict(zip(names, combo))

            class R(ast.NodeTransformer):
                def visit_Name(self, n):
                    if isinstance(n.ctx, ast.Load) and n.id in mp:
                        try:
                            return ast.parse('(' + mp[n.id] + ')', mode='eval').body
                        except SyntaxError:
                            return ast.Name(id='<%s>' % mp[n.id], ctx=ast.Load())
                    return n
            out.add(_norm(R().visit(copy.deepcopy(node))))
        return out

    def bind(self, target, values, env):
        if isinstance(target, ast.Name):
            env[target.id] = set(values)
        elif isinstance(target, (ast.Tuple, ast.List)):
            for k, t in enumerate(target.elts):
                self.bind(t, {'(%s)[%d]' % (v, k) for v in values}, env)
        else:
            self.stores.append((next(iter(self.subst(target, env))) if not isinstance(target, ast.Starred) else _norm(target), set(values), target))

    def run(self, stmts=None, env=None):
        env = {} if env is None else env
        self.block(self.fn.body if stmts is None else stmts, env)
        return env

    def block(self, stmts, env):
        for st in stmts:
            self.snap[id(st)] = {k: set(v) for k, v in env.items()}
            if isinstance(st, ast.Assign):
                vals = self.subst(st.value, env)
                if isinstance(st.value, ast.Tuple) and len(st.targets) == 1 and isinstance(st.targets[0], ast.Tuple) and len(st.targets[0].elts) == len(st.value.elts):
                    parts = [self.subst(v, env) for v in st.value.elts]
                    for t, p in zip(st.targets[0].elts, parts):
                        self.bind(t, p, env)
                else:
                    for t in st.targets:
                        self.bind(t, vals, env)
            elif isinstance(st, ast.AugAssign):
                if isinstance(st.target, ast.Name):
                    cur = env.get(st.target.id, {st.target.id})
                    env[st.target.id] = {'(%s)%s(%s)' % (c, type(st.op).__name__, v) for c in cur for v in self.subst(st.value, env)}
                else:
                    self.stores.append((next(iter(self.subst(st.target, env))), {'AUG:' + v for v in self.subst(st.value, env)}, st))
            elif isinstance(st, ast.Expr) and isinstance(st.value, ast.Call) and isinstance(st.value.func, ast.Attribute) and st.value.func.attr in ('append', 'extend', 'insert'):
                recv = self.subst(st.value.func.value, env)
                args = [self.subst(a, env) for a in st.value.args]
                self.events.append((st.value.func.attr, _norm(st.value.func.value), recv, args, st))
            elif isinstance(st, ast.If):
                e1 = {k: set(v) for k, v in env.items()}
                e2 = {k: set(v) for k, v in env.items()}
                self.block(st.body, e1)
                self.block(st.orelse, e2)
                x1 = _exits(st.body)
                x2 = _exits(st.orelse)
                env.clear()
                if x1 and not x2:
                    env.update(e2)
                elif x2 and not x1:
                    env.update(e1)
                else:
                    for k in set(e1) | set(e2):
                        env[k] = set(e1.get(k, {k})) | set(e2.get(k, {k}))
            elif isinstance(st, ast.For):
                it = self.subst(st.iter, env)
                if isinstance(st.iter, ast.Call) and _dotted(st.iter.func) == 'enumerate' and isinstance(st.target, ast.Tuple) and len(st.target.elts) == 2:
                    seq = self.subst(st.iter.args[0], env)
                    self.bind(st.target.elts[0], {'INDEX'}, env)
                    self.bind(st.target.elts[1], {'ITEM(%s)' % s for s in seq}, env)
                elif isinstance(st.iter, ast.Call) and _dotted(st.iter.func) == 'range':
                    self.bind(st.target, {'INDEX'}, env)
                else:
                    self.bind(st.target, {'ITEM(%s)' % s for s in it}, env)
                self.block(st.body, env)
                self.block(st.orelse, env)
            elif isinstance(st, ast.While):
                self.block(st.body, env)
            elif isinstance(st, ast.With):
                self.block(st.body, env)
            elif isinstance(st, ast.Try):
                self.block(st.body, env)
                for h in st.handlers:
                    self.block(h.body, env)
                self.block(st.orelse, env)
                self.block(st.finalbody, env)
            elif isinstance(st, ast.Return):
                self.returns.append(self.subst(st.value, env) if st.value is not None else {'None'})


def _exits(stmts):
    for st in stmts:
        if isinstance(st, (ast.Return, ast.Raise, ast.Continue, ast.Break)):
            return True
        if isinstance(st, ast.If) and st.orelse and _exits(st.body) and _exits(st.orelse):
            return True
    return False


def strip_conversion(txt):
    """csr_matrix(X) -> X (format conversions do not change the matrix)"""
    changed = True
    while changed:
        changed = False
        for c in CONVERSIONS:
            if txt.startswith(c + '(') and txt.endswith(')') and _balanced(txt[len(c) + 1:-1]):
                txt = txt[len(c) + 1:-1]
                changed = True
    return txt


def _balanced(s):
    d = 0
    for ch in s:
        if ch in '([':
            d += 1
        elif ch in ')]':
            d -= 1
            if d < 0:
                return False
        elif ch == ',' and d == 0:
            return False
    return d == 0


def strip_conversions(txt):
    """format conversions (csr_matrix(X), np.asarray(X), list(X)) removed everywhere in an expression text"""
    try:
        tree = ast.parse(txt, mode='eval')
    except SyntaxError:
        return txt

    class R(ast.NodeTransformer):
        def visit_Call(self, n):
            self.generic_visit(n)
            if _dotted(n.func) in CONVERSIONS + ('list',) and len(n.args) == 1 and not n.keywords:
                return n.args[0]
            return n

        def visit_Subscript(self, n):
            self.generic_visit(n)
            # SEQ[INDEX] is the loop item
            if isinstance(n.slice, ast.Name) and n.slice.id == 'INDEX':
                return ast.Call(func=ast.Name(id='ITEM', ctx=ast.Load()), args=[n.value], keywords=[])
            return n

        def visit_IfExp(self, n):
            self.generic_visit(n)
            if _norm(n.body) == _norm(n.orelse):
                return n.body
            # `SEQ[0] if INDEX == 0 else ITEM(SEQ)`: the first element is the item of the first iteration
            t = _norm(n.test)
            if t in ('INDEX == 0', '0 == INDEX') and isinstance(n.body, ast.Subscript) and _norm(n.body.slice) == '0' and _norm(n.orelse) == 'ITEM(%s)' % _norm(n.body.value):
                return n.orelse
            if t in ('INDEX != 0', 'INDEX > 0') and isinstance(n.orelse, ast.Subscript) and _norm(n.orelse.slice) == '0' and _norm(n.body) == 'ITEM(%s)' % _norm(n.orelse.value):
                return n.body
            return n
    return _norm(R().visit(tree).body)
