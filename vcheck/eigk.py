"""Shared structural analysis of the eigen-solver drivers (C05, C06)."""
import ast
import re

from . import pyflow, pyrules
from .pyflow import CFG, dotted, callee_name
from .pyrules import norm, module
from .poly import P, Rat, from_ast

SOLVERS = {'eigsh': ('A', 'M'), 'eigs': ('A', 'M'), 'eigh': ('a', 'b'), 'eig': ('a', 'b')}


class Driver:
    def __init__(self, rel, fn, fname, roles):
        """roles: callable(text of a defining expression or parameter name) -> role or None"""
        self.rel, self.fn, self.fname = rel, fn, fname
        self.cfg = CFG(fn)
        self.roles = roles
        self.cut = set()
        self.sites = []
        for i, n in self.cfg.nodes.items():
            e = self.cfg.header_expr(i) if n is not None else None
            if e is None:
                continue
            for c in pyflow.calls_in(e):
                nm = callee_name(c)
                if nm in SOLVERS and isinstance(c.func, ast.Name):
                    kw = {k.arg: k.value for k in c.keywords}
                    a, b = SOLVERS[nm]
                    A = kw.get(a, c.args[0] if c.args else None)
                    M = kw.get(b, c.args[1] if len(c.args) > 1 else None)
                    tg = norm(n.targets[0]) if isinstance(n, ast.Assign) else None
                    if isinstance(n, ast.Assign) and isinstance(n.targets[0], ast.Name):
                        # out = eigsh(...); ...; eigvals, eigvecs = out   (the pair is unpacked later, the name is used for nothing else)
                        nm_ = n.targets[0].id
                        unp = [x for x in ast.walk(fn) if isinstance(x, ast.Assign) and isinstance(x.value, ast.Name) and x.value.id == nm_ and isinstance(x.targets[0], ast.Tuple)]
                        uses = [x for x in ast.walk(fn) if isinstance(x, ast.Name) and x.id == nm_ and isinstance(x.ctx, ast.Load)]
                        if len(unp) == 1 and len(uses) == 1:
                            tg = norm(unp[0].targets[0])
                        else:
                            # the same pattern more than once (an inlined helper): the unpacking that follows in the same block, before the
                            # name is bound again, with no other read of the name in between
                            for blk in [getattr(x, f) for x in ast.walk(fn) for f in ('body', 'orelse', 'finalbody') if isinstance(getattr(x, f, None), list)]:
                                if any(y is n for y in blk):
                                    k0 = [j for j, y in enumerate(blk) if y is n][0]
                                    for y in blk[k0 + 1:]:
                                        reads_ = [z for z in ast.walk(y) if isinstance(z, ast.Name) and z.id == nm_]
                                        if not reads_:
                                            continue
                                        if isinstance(y, ast.Assign) and isinstance(y.value, ast.Name) and y.value.id == nm_ and isinstance(y.targets[0], ast.Tuple) and len(reads_) == 1:
                                            tg = norm(y.targets[0])
                                        break
                    self.sites.append({'node': i, 'call': c, 'solver': nm, 'A': A, 'M': M, 'k': kw.get('k'), 'line': c.lineno, 'targets': tg})

    # reaching definition of a name at a CFG node: last assignment on the (straight-line) dominating path
    def reaching(self, name, at):
        """nodes assigning ``name`` that may reach ``at`` (simple backward search)"""
        seen, out = set(), []
        live = self._live()
        todo = [p for p in self.cfg.pred[at] if (p, at) not in self.cut]
        while todo:
            x = todo.pop()
            if x in seen or x not in live:
                continue
            seen.add(x)
            n = self.cfg.nodes[x]
            if n is not None and name in pyflow.names_stored(n) and not isinstance(n, ast.For):
                out.append(x)
                continue
            todo.extend(p for p in self.cfg.pred[x] if (p, x) not in self.cut)
        return out

    def _live(self):
        key = frozenset(self.cut)
        if getattr(self, '_live_key', None) != key:
            seen, todo = set(), [self.cfg.ENTRY]
            while todo:
                x = todo.pop()
                if x in seen:
                    continue
                seen.add(x)
                todo.extend(y for y in self.cfg.succ[x] if (x, y) not in self.cut)
            self._live_key, self._live_set = key, seen
        return self._live_set

    def role_of(self, node, at, depth=0):
        """role of a matrix expression at CFG node ``at``"""
        if node is None or depth > 6:
            return None
        if isinstance(node, ast.UnaryOp) and isinstance(node.op, ast.USub):
            r = self.role_of(node.operand, at, depth + 1)
            return ('-' + r) if r else None
        txt = norm(node)
        r = self.roles(txt)
        if r:
            return r
        if isinstance(node, ast.Name):
            params = [a.arg for a in self.fn.args.args]
            defs = self.reaching(node.id, at)
            if not defs:
                return self.roles(node.id) if node.id in params else None
            rs = set()
            for d in defs:
                st = self.cfg.nodes[d]
                if isinstance(st, ast.Assign):
                    tg = st.targets[0]
                    if isinstance(tg, ast.Tuple):
                        # X, Y, used = remove_null_cols(X0, Y0): positional correspondence
                        if isinstance(st.value, ast.Call) and callee_name(st.value) == 'remove_null_cols':
                            names = [norm(e) for e in tg.elts]
                            if node.id in names and names.index(node.id) < len(st.value.args):
                                rs.add(self.role_of(st.value.args[names.index(node.id)], d, depth + 1))
                            else:
                                rs.add(None)
                        else:
                            rs.add(None)
                    else:
                        v = st.value
                        # X = X.toarray() / X[pos:, pos:] / X[:, check][check, :] / csr_matrix(X) keep the role
                        rs.add(self.role_of(strip_view(v), d, depth + 1))
                else:
                    rs.add(None)
            if len(rs) == 1:
                return rs.pop()
            return None
        if isinstance(node, ast.BinOp) and isinstance(node.op, ast.Add):
            l = self.role_of(node.left, at, depth + 1)
            r = self.role_of(node.right, at, depth + 1)
            # K + (something that is not KG) is still the stiffness side
            if l and not r:
                return l
            if r and not l:
                return r
            if l == r:
                return l
            if {l, r} == {'K', 'KG'}:
                # stiffness plus a *fixed* pre-load geometric matrix: still the stiffness side
                return 'K'
            return '%s+%s' % (l, r)
        return None


def strip_view(v):
    """peel role-preserving wrappers: .toarray(), csr_matrix(), slicing"""
    while True:
        if isinstance(v, ast.Call) and isinstance(v.func, ast.Attribute) and v.func.attr in ('toarray', 'tocsr', 'tocoo', 'copy') and not v.args:
            v = v.func.value
        elif isinstance(v, ast.Call) and callee_name(v) in ('csr_matrix', 'coo_matrix') and len(v.args) == 1:
            v = v.args[0]
        elif isinstance(v, ast.Subscript):
            v = v.value
        else:
            return v


def transform_of(st, var='eigvals'):
    """classify ``eigvals = f(eigvals)``: returns a tag or None"""
    if not (isinstance(st, ast.Assign) and isinstance(st.targets[0], ast.Name)):
        return None
    tgt = st.targets[0].id
    v = st.value
    sq = False
    if isinstance(v, ast.Call) and dotted(v.func) in ('np.sqrt', 'sqrt') and len(v.args) == 1:
        sq = True
        v = v.args[0]
    try:
        r = from_ast(v, {}, None, ring=Rat)
    except Exception:
        return None
    x = P.sym(tgt)
    tags = {'id': Rat(x), 'neg': Rat(-x), 'inv': Rat(P.const(1), x), 'neginv': Rat(P.const(-1), x)}
    for t, w in tags.items():
        if r.equals(w):
            if t == 'id' and not sq:
                return None
            return ('sqrt:' if sq else '') + t
    return None


def transforms_on_paths(drv, site, var='eigvals', stop=None):
    """set of transform tag sequences over all paths from the solver call to the
    exit (worklist over (node, sequence) states; sequences capped at length 4)"""
    cfg = drv.cfg
    seqs = set()
    seen = set()
    todo = [(y, ()) for y in cfg.succ[site['node']]]
    while todo:
        x, seq = todo.pop()
        if (x, seq) in seen:
            continue
        seen.add((x, seq))
        if x == cfg.EXIT or (stop and x in stop):
            seqs.add(seq)
            continue
        n = cfg.nodes[x]
        t = transform_of(n, var) if n is not None else None
        # a second solver call overwrites the values: path restarts there
        if n is not None and any(s_['node'] == x for s_ in drv.sites) and x != site['node']:
            continue
        seq2 = (seq + (t,))[:4] if t else seq
        for y in cfg.succ[x]:
            todo.append((y, seq2))
    return seqs


def eval_test(t, env):
    """three-valued evaluation of a branch test over known flags"""
    if isinstance(t, ast.Name):
        return env.get(t.id)
    if isinstance(t, ast.UnaryOp) and isinstance(t.op, ast.Not):
        v = eval_test(t.operand, env)
        return None if v is None else (not v)
    if isinstance(t, ast.BoolOp):
        vs = [eval_test(v, env) for v in t.values]
        if isinstance(t.op, ast.And):
            if any(v is False for v in vs):
                return False
            if all(v is True for v in vs):
                return True
            return None
        if any(v is True for v in vs):
            return True
        if all(v is False for v in vs):
            return False
        return None
    if isinstance(t, ast.Compare) and len(t.ops) == 1 and isinstance(t.left, ast.Name) and isinstance(t.comparators[0], ast.Constant):
        v = env.get(t.left.id)
        if v is None:
            return None
        if isinstance(t.ops[0], ast.Eq):
            return v == t.comparators[0].value
        if isinstance(t.ops[0], ast.NotEq):
            return v != t.comparators[0].value
    return None


def assume(cfg, env):
    """edges cut by assuming flag values: {(if-node, successor)}"""
    cut = set()
    for i, n in cfg.nodes.items():
        if isinstance(n, ast.If):
            v = eval_test(n.test, env)
            if v is None:
                continue
            body_first = cfg.node_of_stmt(n.body[0]) if n.body else None
            for y in list(cfg.succ[i]):
                is_body = (y == body_first)
                if (v and not is_body) or (not v and is_body):
                    cut.add((i, y))
    return cut


def path_events(cfg, start, classify, cut=(), stop=None, cap=8):
    """set of event sequences (classify(node) -> event or None) over all paths from start"""
    seqs, seen = set(), set()
    todo = [(y, ()) for y in cfg.succ[start] if (start, y) not in cut]
    while todo:
        x, seq = todo.pop()
        if (x, seq) in seen:
            continue
        seen.add((x, seq))
        if x == cfg.EXIT or (stop and x in stop):
            seqs.add(seq)
            continue
        n = cfg.nodes[x]
        ev = classify(x, n) if n is not None else None
        seq2 = (seq + (ev,))[:cap] if ev is not None else seq
        for y in cfg.succ[x]:
            if (x, y) not in cut:
                todo.append((y, seq2))
    return seqs
