"""C13 - assembled matrices are sums of component matrices (layout domain)."""
import ast
import re

from . import pyrules, pyflow
from .pyrules import module, norm, attr_calls, local_defs, resolve
from .pyflow import Sig, bind, dotted
from .report import AnalysisError

LEVEL = 'other'
ASSEMBLY = 'compmech/panel/assembly/assembly.py'
BAY = 'compmech/stiffpanelbay/stiffpanelbay.py'
STIFF = {'BladeStiff1D': 'compmech/stiffener/bladestiff1d.py', 'BladeStiff2D': 'compmech/stiffener/bladestiff2d.py',
         'TStiff2D': 'compmech/stiffener/tstiff2d.py'}
CONTAINERS = ('panels', 'bladestiff1ds', 'bladestiff2ds', 'tstiff2ds')


# --------------------------------------------------------------------------
# linear layout domain: a value is a sorted tuple of symbolic terms


def lval(fn, node, env, elem=None):
    """value of an offset expression as a tuple of terms, or None"""
    if node is None:
        return None
    if isinstance(node, ast.Constant):
        if isinstance(node.value, int) and not isinstance(node.value, bool) and node.value == 0:
            return ()
        return None
    if isinstance(node, ast.Name):
        if node.id in env:
            return env[node.id]
        return None
    if isinstance(node, ast.Attribute) and norm(node) in env:
        return env[norm(node)]
    if isinstance(node, ast.BinOp) and isinstance(node.op, ast.Add):
        a, b = lval(fn, node.left, env, elem), lval(fn, node.right, env, elem)
        if a is None or b is None:
            return None
        return tuple(sorted(a + b))
    if isinstance(node, ast.Call) and isinstance(node.func, ast.Attribute) and node.func.attr == 'get_size' and not node.args:
        recv = dotted(node.func.value)
        if elem and recv and recv.startswith(elem + '.'):
            return ('EL(%s)' % recv[len(elem) + 1:],)

        if recv == 'self':
            return ('TOTAL',)
        if recv and recv.startswith('self.'):
            return ('EL(%s)' % recv[5:],)
        return None
    # num*m*n of the skin
    txt = resolve(fn, node)
    if txt is not None:
        t = txt.replace('self.', '')
        if sorted(t.split('*')) == sorted(["panelmDB.db[model]['num']", 'm', 'n']) or sorted(t.split('*')) == sorted(['num', 'm', 'n']):
            return ('SKIN',)
    return None


def fmt(v):
    return '+'.join(v) if v else '0' if v == () else '?'


class Trace:
    def __init__(self):
        self.events = []     # dicts: container, callee, row0, col0, size, line
        self.incs = {}       # container -> {var: [terms in order]}
        self.final = {}      # var -> value after the function
        self.problems = []


def trace_offsets(fn, vars_=('row0', 'col0')):
    """idiom (a): running offsets around component calls, and (b): a size
    accumulator ``self.size``"""
    tr = Trace()
    env = {}
    for st in fn.body:
        _trace_stmt(fn, st, env, tr, None, None)
    tr.final = dict(env)
    used = {'self.size'}
    for ev in tr.events:
        used.add(ev['row0_txt'])
        used.add(ev['col0_txt'])
    tr.problems = [(l, m) for l, m in tr.problems if m.split()[0] in used]
    return tr


def _trace_stmt(fn, st, env, tr, cont, elem):
    if isinstance(st, ast.Assign) and len(st.targets) == 1:
        key = norm(st.targets[0])
        if isinstance(st.targets[0], (ast.Name, ast.Attribute)):
            v = lval(fn, st.value, env, elem)
            if v is not None:
                env[key] = v
            elif key in env:
                # an offset variable receives something outside the domain
                if not (isinstance(st.value, ast.Call) and dotted(st.value.func) in ('self.get_size',)):
                    tr.problems.append((st.lineno, '%s assigned a value outside the layout domain: %s' % (key, norm(st.value)[:60])))
                    del env[key]
            if isinstance(st.value, ast.Call) and dotted(st.value.func) == 'self.get_size':
                env[key] = ('TOTAL',)
        _calls(fn, st, env, tr, cont, elem)
        return
    if isinstance(st, ast.AugAssign) and isinstance(st.op, ast.Add):
        key = norm(st.target)
        if key in env:
            v = lval(fn, st.value, env, elem)
            if v is None:
                tr.problems.append((st.lineno, '%s incremented by a value outside the layout domain: %s' % (key, norm(st.value)[:60])))
            else:
                env[key] = tuple(sorted(env[key] + v))
                if cont:
                    tr.incs.setdefault(cont, {}).setdefault(key, []).extend(v)
        _calls(fn, st, env, tr, cont, elem)
        return
    if isinstance(st, ast.Expr):
        _calls(fn, st, env, tr, cont, elem)
        return
    if isinstance(st, ast.If):
        for s in st.body:
            _trace_stmt(fn, s, env, tr, cont, elem)
        for s in st.orelse:
            _trace_stmt(fn, s, env, tr, cont, elem)
        return
    if isinstance(st, ast.For) and isinstance(st.iter, ast.Call) and dotted(st.iter.func) in ('chain', 'itertools.chain') and len(st.iter.args) >= 2:
        # for x in chain(A, B): body  ==  for x in A: body; for x in B: body
        for a_ in st.iter.args:
            _trace_stmt(fn, ast.copy_location(ast.For(target=st.target, iter=a_, body=st.body, orelse=[]), st), env, tr, cont, elem)
        return
    if isinstance(st, ast.For):
        it = st.iter
        c = None
        if isinstance(it, ast.Call) and getattr(it.func, 'id', '') == 'enumerate' and it.args:
            it = it.args[0]
            ev = st.target.elts[1].id if isinstance(st.target, ast.Tuple) else None
        else:
            ev = st.target.id if isinstance(st.target, ast.Name) else None
        d = dotted(it)
        if d and d.startswith('self.'):
            c = d[5:]
        if c is None or ev is None:
            for s in st.body:
                _trace_stmt(fn, s, env, tr, cont, elem)
            return
        before = dict(env)
        # the offsets seen by element i: pre-loop value + PREV(container) of what the body adds
        sym_env = {k: v for k, v in env.items()}
        sym_env['__cont__'] = (c,)
        for s in st.body:
            _trace_stmt(fn, s, sym_env, tr, c, ev)
        # after the loop: pre-loop + ALL(container: increments)
        for k in before:
            incs = tr.incs.get(c, {}).get(k)
            if incs:
                env[k] = tuple(sorted(before[k] + tuple('ALL(%s:%s)' % (c, t) for t in incs)))
        return


def _calls(fn, st, env, tr, cont, elem):
    for c in pyflow.calls_in(st):
        if not isinstance(c.func, ast.Attribute):
            continue
        name = c.func.attr
        if not (name.startswith('calc_') or name.startswith('fk')):
            continue
        kw = {}
        for k in c.keywords:
            if k.arg is not None:
                kw[k.arg] = k.value
            else:
                # **common with common = dict(...) / {...} bound once in this function
                lit = None
                v = k.value
                if isinstance(v, ast.Name):
                    ds = [n for n in ast.walk(fn) if isinstance(n, ast.Assign) and len(n.targets) == 1 and isinstance(n.targets[0], ast.Name) and n.targets[0].id == v.id]
                    v = ds[0].value if len(ds) == 1 else None
                if isinstance(v, ast.Call) and dotted(v.func) == 'dict' and not v.args:
                    lit = {kk.arg: kk.value for kk in v.keywords if kk.arg}
                elif isinstance(v, ast.Dict) and all(isinstance(x, ast.Constant) for x in v.keys):
                    lit = {x.value: y for x, y in zip(v.keys, v.values)}
                for a_, b_ in (lit or {}).items():
                    kw.setdefault(a_, b_)
        if 'row0' not in kw and 'col0' not in kw:
            continue
        # increments already applied in this iteration (call must precede them)
        done = {k: list(v) for k, v in tr.incs.get(cont, {}).items()} if cont else {}
        tr.events.append({'container': cont, 'recv': dotted(c.func.value), 'callee': name,
                          'row0': lval(fn, kw.get('row0'), env, elem), 'col0': lval(fn, kw.get('col0'), env, elem),
                          'size': norm(kw.get('size')), 'finalize': norm(kw.get('finalize')), 'line': c.lineno,
                          'row0_txt': norm(kw.get('row0')), 'col0_txt': norm(kw.get('col0')), 'incs_before': done})


def bay_layout(chk):
    """the reference layout, extracted from StiffPanelBay.calc_k0"""
    m = module(BAY)
    fn = m.method('StiffPanelBay', 'calc_k0')
    tr = trace_offsets(fn)
    lay = {}
    for ev in tr.events:
        if ev['container']:
            lay[ev['container']] = (ev['row0'], tuple(tr.incs.get(ev['container'], {}).get(ev['row0_txt'], [])))
    return lay, tr


def strip_el(v, cont):
    """offset seen inside the loop: own-element terms stand for PREV(container)"""
    return tuple(sorted(('PREV(%s:%s)' % (cont, t[3:-1]) if t.startswith('EL(') else t) for t in v)) if v is not None else None


def check_bay_consumer(chk, meth, lay):
    m = module(BAY)
    fn = m.method('StiffPanelBay', meth)
    fname = 'StiffPanelBay.' + meth
    tr = trace_offsets(fn)
    seen = set()
    for ev in tr.events:
        c = ev['container']
        if c is None:
            continue
        seen.add(c)
        ref = lay.get(c)
        okp = ev['row0'] is not None and ev['row0'] == ev['col0']
        chk.ob('R13.2', okp, BAY, fname, '%s row/col offsets agree' % c, line=ev['line'], expected='row0 == col0 (square diagonal placement)',
               got='%s / %s' % (ev['row0_txt'], ev['col0_txt']))
        incs = tuple(tr.incs.get(c, {}).get(ev['row0_txt'], []))
        incs_c = tuple(tr.incs.get(c, {}).get(ev['col0_txt'], []))
        ok = ref is not None and strip_el(ev['row0'], c) == strip_el(ref[0], c) and incs == ref[1] and incs_c == ref[1]
        chk.ob('R13.2', ok, BAY, fname, '%s layout' % c, line=ev['line'],
               expected='start %s, per element += %s (as in calc_k0)' % (fmt(ref[0]) if ref else '?', list(ref[1]) if ref else '?'),
               got='start %s, per element += %s / %s' % (fmt(ev['row0']) if ev['row0'] is not None else ev['row0_txt'], list(incs), list(incs_c)),
               sample='%s: %s at %s, += %s' % (fname, c, fmt(ev['row0']) if ev['row0'] is not None else '?', list(incs)))
        chk.ob('R13.2', not ev['incs_before'].get(ev['row0_txt']), BAY, fname, '%s call precedes its own increment' % c, line=ev['line'],
               expected='component placed at the offset of the previous components', got=ev['incs_before'])
        chk.ob('R13.2', ev['size'] == 'size' and ev['finalize'] == 'False', BAY, fname, '%s global size, no early symmetrisation' % c,
               line=ev['line'], got='size=%s finalize=%s' % (ev['size'], ev['finalize']))
    for line, msg in tr.problems:
        chk.ob('R13.2', False, BAY, fname, 'offset bookkeeping', line=line, detail=msg)
    return tr, seen


def run(chk):
    chk.level = LEVEL
    chk.trusted = ['python3 ast', 'layout domain of vcheck/c13.py (sums of get_size terms)']
    r13_1(chk)
    lay, tr0 = bay_layout(chk)
    want = {'panels': ((), ()), 'bladestiff1ds': ((), ()), 'bladestiff2ds': (('SKIN',), ('EL(flange)',)),
            'tstiff2ds': (('ALL(bladestiff2ds:EL(flange))', 'SKIN'), ('EL(base)', 'EL(flange)'))}
    for c in CONTAINERS:
        chk.ob('R13.2', lay.get(c) == want[c], BAY, 'StiffPanelBay.calc_k0', 'reference layout of ' + c,
               expected='start %s, += %s' % (fmt(want[c][0]), list(want[c][1])),
               got='start %s, += %s' % ((fmt(lay[c][0]) if lay[c][0] is not None else '?', list(lay[c][1])) if c in lay else ('missing', '')),
               sample='layout: %s at %s, per element += %s' % (c, fmt(want[c][0]), list(want[c][1])))
    for meth in ('calc_k0', 'calc_kG0', 'calc_kM'):
        tr, seen = check_bay_consumer(chk, meth, lay)
        chk.ob('R13.2', seen == set(CONTAINERS), BAY, 'StiffPanelBay.' + meth, 'all component kinds assembled', expected=sorted(CONTAINERS), got=sorted(seen))
        pyrules.check_finalize_path_uncond(chk, 'R13.2', BAY, 'StiffPanelBay', meth, meth[5:])
    # get_size
    m = module(BAY)
    fn = m.method('StiffPanelBay', 'get_size')
    tr = trace_offsets(fn)
    total = tr.final.get('self.size')
    want_total = ('ALL(bladestiff2ds:EL(flange))', 'ALL(tstiff2ds:EL(base))', 'ALL(tstiff2ds:EL(flange))', 'SKIN')
    chk.ob('R13.2', total == want_total, BAY, 'StiffPanelBay.get_size', 'size = end of the layout', expected=fmt(want_total), got=fmt(total) if total else total,
           sample='get_size = ' + fmt(want_total))
    rets = [n for n in ast.walk(fn) if isinstance(n, ast.Return)]
    chk.ob('R13.2', len(rets) == 1 and norm(rets[0].value) == 'self.size', BAY, 'StiffPanelBay.get_size', 'returns the accumulated size')
    fext_layout(chk)
    stiffener_internal(chk)
    from . import stiffk
    stiffk.r13_4(chk)
    pyrules.check_conn_cache(chk, 'R13.5')
    chk.explanation = ('offset bookkeeping interpreted over a linear layout domain; one reference layout extracted from '
                       'StiffPanelBay.calc_k0 and every other consumer compared with it; PanelAssembly offsets are running sums')


# --------------------------------------------------------------------------


def r13_1(chk):
    m = module(ASSEMBLY)
    init = m.method('PanelAssembly', '__init__')
    loops = [n for n in init.body if isinstance(n, ast.For) and norm(n.iter) == 'panels']
    ok = len(loops) == 1
    det = ''
    if ok:
        lp = loops[0]
        pv = lp.target.id
        seq = [norm(s) for s in lp.body]
        det = str(seq)
        # counters: locals set to 0 before the loop; the body is interpreted over symbolic counter terms: value of a counter = number of times the
        # panel's own 3*m*n has been added to it in this iteration (0 = the sum over the previous panels)
        counters = {}
        for st in init.body:
            if st is lp:
                break
            if isinstance(st, ast.Assign) and isinstance(st.value, ast.Constant) and st.value.value == 0:
                for t in st.targets:
                    if isinstance(t, ast.Name):
                        counters[t.id] = 0
        got_attr = {}
        bad = []
        for st in lp.body:
            if isinstance(st, ast.Assign) and isinstance(st.value, ast.Name) and st.value.id in counters:
                for t in st.targets:
                    if isinstance(t, ast.Attribute) and norm(t.value) == pv:
                        got_attr[t.attr] = (st.value.id, counters[st.value.id])
                    else:
                        bad.append(norm(st))
            elif isinstance(st, ast.AugAssign) and isinstance(st.op, ast.Add) and isinstance(st.target, ast.Name) and st.target.id in counters \
                    and pyrules.same_expr(st.value, '3*%s.m*%s.n' % (pv, pv)):
                counters[st.target.id] += 1
            else:
                bad.append(norm(st))
        ok = not bad and {k: v[1] for k, v in got_attr.items()} == {'row_start': 0, 'col_start': 0, 'row_end': 1, 'col_end': 1} \
            and all(counters[v[0]] == 1 for v in got_attr.values())
    chk.ob('R13.1', ok, ASSEMBLY, 'PanelAssembly.__init__', 'running offsets', detail=det,
           expected='row_start = col_start = sum of 3*m*n of the previous panels; row_end = row_start + 3*m*n',
           sample='PanelAssembly offsets: ' + det)
    gs = m.method('PanelAssembly', 'get_size')
    rets = [norm(n.value) for n in ast.walk(gs) if isinstance(n, ast.Assign)]
    oks = False
    sums = [n for n in ast.walk(gs) if isinstance(n, ast.Call) and dotted(n.func) == 'sum' and len(n.args) == 1 and isinstance(n.args[0], (ast.ListComp, ast.GeneratorExp))]
    if len(sums) == 1 and len(sums[0].args[0].generators) == 1 and not sums[0].args[0].generators[0].ifs:
        g = sums[0].args[0].generators[0]
        v = norm(g.target)
        oks = norm(g.iter) == 'self.panels' and pyrules.same_expr(sums[0].args[0].elt, '3*%s.m*%s.n' % (v, v)) and \
            any(isinstance(n, ast.Assign) and norm(n.targets[0]) == 'self.size' for n in ast.walk(gs))
    lps = [n for n in gs.body if isinstance(n, ast.For) and norm(n.iter) == 'self.panels' and isinstance(n.target, ast.Name)]
    if not oks and len(lps) == 1 and len(lps[0].body) == 1 and isinstance(lps[0].body[0], ast.AugAssign) and isinstance(lps[0].body[0].op, ast.Add):
        acc = norm(lps[0].body[0].target)
        v = lps[0].target.id
        init0 = [n for n in gs.body if isinstance(n, ast.Assign) and norm(n.targets[0]) == acc and norm(n.value) == '0' and n.lineno < lps[0].lineno]
        oks = pyrules.same_expr(lps[0].body[0].value, '3*%s.m*%s.n' % (v, v)) and len(init0) == 1 and \
            any(isinstance(n, ast.Assign) and norm(n.targets[0]) == 'self.size' and norm(n.value) == acc for n in gs.body)
    chk.ob('R13.1', oks, ASSEMBLY, 'PanelAssembly.get_size', 'size = sum of 3*m*n', expected='self.size = sum over self.panels of 3*m*n', got=rets)
    nums = pyrules.modeldb_nums()
    chk.ob('R13.1', all(v == 3 for k, v in nums.items() if k != 'plate_w'), pyrules.MODELDB, 'db', 'num == 3 for the models admissible in assemblies', got=nums)
    pm = module(pyrules.PANEL)
    for meth, callee, extra in (('calc_k0', ['calc_k0'], {'c': 'c'}), ('calc_kG0', ['calc_kG0'], {'c': 'c'}), ('calc_kM', ['calc_kM'], {}),
                                ('calc_kT', ['calc_k0', 'calc_kG0'], {'c': 'c', 'NLgeom': 'True'}), ('calc_fint', ['calc_fint'], {'c': 'c'}),
                                ('calc_fext', ['calc_fext'], {'inc': 'inc'})):
        fn = m.method('PanelAssembly', meth)
        fname = 'PanelAssembly.' + meth
        loops = [n for n in fn.body if isinstance(n, ast.For) and norm(n.iter) == 'self.panels']
        chk.ob('R13.1', len(loops) == 1, ASSEMBLY, fname, 'iterates self.panels once', got=len(loops))
        if len(loops) != 1:
            continue
        pv = loops[0].target.id
        sz = [norm(v) for v in local_defs(fn).get('size', []) if v is not None]
        chk.ob('R13.1', sz == ['self.get_size()'], ASSEMBLY, fname, 'global size', got=sz)
        for cal in callee:
            calls = [c for c in pyflow.calls_in(loops[0]) if isinstance(c.func, ast.Attribute) and c.func.attr == cal and dotted(c.func.value) == pv]
            if len(calls) != 1:
                chk.ob('R13.1', False, ASSEMBLY, fname, 'call %s.%s' % (pv, cal), expected='exactly one', got=len(calls))
                continue
            sig = Sig(pm.method('Panel', cal), drop_self=True)
            mp, probs = bind(calls[0], sig)
            got = pyrules.bound_texts(fn, mp)
            exp = {'size': 'size', 'col0': '%s.col_start' % pv}
            if 'row0' in sig.names:
                exp['row0'] = '%s.row_start' % pv
            if 'finalize' in sig.names:
                exp['finalize'] = 'False'
            for k_, v_ in extra.items():
                if k_ in sig.names:
                    exp[k_] = v_
            ok = not probs and all(got.get(k_) == v_ for k_, v_ in exp.items())
            chk.ob('R13.1', ok, ASSEMBLY, fname, 'call %s.%s binding' % (pv, cal), line=calls[0].lineno, expected=exp, got=got, detail='; '.join(probs),
                   sample='%s -> Panel.%s(%s)' % (fname, cal, got))
            st = pyrules.stmt_of(fn, calls[0])
            chk.ob('R13.1', isinstance(st, ast.AugAssign) and isinstance(st.op, ast.Add), ASSEMBLY, fname, '%s accumulated' % cal, line=calls[0].lineno, got=norm(st)[:60])
            # every panel contributes: nothing in the loop body can skip the call
            skips = [norm(n)[:50] for n in ast.walk(loops[0]) if isinstance(n, (ast.Continue, ast.Break))]
            cond = [norm(t) for t, pol in pyrules.enclosing_tests(loops[0], calls[0])] if any(x is calls[0] for x in ast.walk(loops[0])) else []
            chk.ob('R13.1', not skips and not cond, ASSEMBLY, fname, 'every panel contributes to %s' % cal, line=loops[0].lineno,
                   expected='the per-panel call is unconditional (only a raise on undefined offsets may precede it)', got=skips + cond,
                   detail='' if not (skips or cond) else 'panels for which the condition holds are left out of the global sum')
        if meth in ('calc_k0', 'calc_kG0', 'calc_kM', 'calc_kT'):
            pyrules.check_finalize_path(chk, 'R13.1', ASSEMBLY, 'PanelAssembly', meth, meth[5:], allow_after={'k0_conn', 'self.k0_conn'})
    # connection matrix added exactly once in k0 / kT; k0_conn*c in fint
    for meth, want in (('calc_k0', {'k0+=self.k0_conn', 'k0+=k0_conn'}), ('calc_kT', {'kT+=k0_conn', 'kT+=self.k0_conn'}), ('calc_fint', {'fint+=k0_conn*c', 'fint+=self.k0_conn*c', 'fint+=k0_conn.dot(c)'})):
        fn = m.method('PanelAssembly', meth)
        adds = [norm(n) for n in ast.walk(fn) if isinstance(n, ast.AugAssign) and 'k0_conn' in norm(n.value)]
        chk.ob('R13.1', len(adds) == 1 and adds[0] in want, ASSEMBLY, 'PanelAssembly.' + meth, 'connection contribution added once', expected=sorted(want), got=adds,
               sample='PanelAssembly.%s: %s' % (meth, adds))


def fext_layout(chk):
    """idiom (c): StiffPanelBay.calc_fext concatenates per-component vectors"""
    m = module(BAY)
    fn = m.method('StiffPanelBay', 'calc_fext')
    fname = 'StiffPanelBay.calc_fext'
    env = {}       # vector name -> length term
    sizes = {}     # scalar name -> term
    order = []     # (container, [length terms appended per element])
    skin_len = None

    def vec_len(node, elem):
        # np.zeros(size, ...) -> current value of size
        if isinstance(node, ast.Call) and dotted(node.func) in ('np.zeros', 'zeros') and node.args:
            a = node.args[0]
            if isinstance(a, ast.Name):
                return sizes.get(a.id)
            return lval(fn, a, sizes, elem)
        return None

    # idiom (d): one pre-allocated vector filled through views at a running offset
    parts_lists = set()   # names of lists collecting the per-component vectors
    pre = set()      # names bound to np.zeros(self.get_size())
    offs = set()     # running-offset variables (initialised to 0)
    events = []      # ('S', cont, term, inner, line) view taken at the offset / ('I', cont, term, inner, line) offset advanced
    inner = [0]

    def walk(body, cont, elem):
        nonlocal skin_len
        for st in body:
            if isinstance(st, ast.Assign) and isinstance(st.targets[0], ast.Name) and isinstance(st.value, ast.Call) and dotted(st.value.func) in ('np.zeros', 'zeros') \
                    and st.value.args and norm(st.value.args[0]) in ('self.get_size()', 'self.size'):
                pre.add(st.targets[0].id)
                continue
            if isinstance(st, ast.Assign) and isinstance(st.targets[0], ast.Name) and isinstance(st.value, ast.Constant) and st.value.value == 0 and cont is None:
                offs.add(st.targets[0].id)
                continue
            if isinstance(st, ast.Assign) and isinstance(st.targets[0], ast.Name) and isinstance(st.value, ast.Subscript) and norm(st.value.value) in pre \
                    and isinstance(st.value.slice, ast.Slice):
                sl = st.value.slice
                lo = norm(sl.lower) if sl.lower is not None else '0'
                term = None
                if lo in offs and isinstance(sl.upper, ast.BinOp) and isinstance(sl.upper.op, ast.Add):
                    a, b = norm(sl.upper.left), norm(sl.upper.right)
                    other = b if a == lo else a if b == lo else None
                    term = sizes.get(other) if other else None
                events.append(('S', cont, term, inner[0], st.lineno))
                env[st.targets[0].id] = term
                continue
            if isinstance(st, ast.AugAssign) and isinstance(st.target, ast.Name) and st.target.id in offs:
                term = sizes.get(norm(st.value)) if isinstance(st.op, ast.Add) else None
                events.append(('I', cont, term, inner[0], st.lineno))
                continue
            # idiom (e): a list of per-component vectors, concatenated once at the end
            if isinstance(st, ast.Assign) and isinstance(st.targets[0], ast.Name) and isinstance(st.value, ast.List) and cont is None \
                    and all(isinstance(e, ast.Name) and e.id in env for e in st.value.elts) and st.value.elts:
                parts_lists.add(st.targets[0].id)
                skin_len = env[st.value.elts[0].id]
                continue
            if isinstance(st, ast.Assign) and isinstance(st.targets[0], ast.Name) and isinstance(st.value, ast.List) and not st.value.elts and cont is None:
                parts_lists.add(st.targets[0].id)       # parts = [] ; parts.append(skin vector) ; ...
                continue
            if isinstance(st, ast.Expr) and isinstance(st.value, ast.Call) and isinstance(st.value.func, ast.Attribute) and st.value.func.attr == 'append' \
                    and isinstance(st.value.func.value, ast.Name) and st.value.func.value.id in parts_lists and len(st.value.args) == 1 and isinstance(st.value.args[0], ast.Name):
                term = env.get(st.value.args[0].id)
                if cont is None and inner[0] == 0:
                    # appended outside the loops over the stiffeners: the skin block, which has to come first
                    skin_len = term if (skin_len is None and not order) else ('NOT-FIRST',)
                    continue
                if order and len(order[-1]) > 3 and order[-1][0] == cont and order[-1][3] == 'parts' and cont is not None and inner[0] == 0:
                    order[-1][1].append(term)
                else:
                    order.append([cont, [term], st.lineno, 'parts'])
                continue
            if isinstance(st, ast.Assign) and isinstance(st.targets[0], ast.Name):
                nm = st.targets[0].id
                v = lval(fn, st.value, sizes, elem)
                if v is not None:
                    sizes[nm] = v
                    continue
                ln = vec_len(st.value, elem)
                if ln is not None:
                    env[nm] = ln
                    continue
                if isinstance(st.value, ast.Name) and st.value.id in env:
                    env[nm] = env[st.value.id]
                    if cont is None:
                        skin_len = env[nm]
                    continue
                if isinstance(st.value, ast.Call) and dotted(st.value.func) == 'np.concatenate' and st.value.args and isinstance(st.value.args[0], ast.Tuple):
                    parts = [e.id for e in st.value.args[0].elts if isinstance(e, ast.Name)]
                    if parts and parts[0] == nm:
                        order.append((cont, [env.get(p) for p in parts[1:]], st.lineno))
                    else:
                        order.append((cont, None, st.lineno))
            elif isinstance(st, ast.For):
                it = st.iter
                tgt = st.target
                if isinstance(it, ast.Call) and getattr(it.func, 'id', '') == 'enumerate':
                    it = it.args[0]
                    tgt = st.target.elts[1] if isinstance(st.target, ast.Tuple) else st.target
                d = dotted(it)
                if d in ('self.bladestiff2ds', 'self.tstiff2ds', 'self.bladestiff1ds', 'self.panels') and isinstance(tgt, ast.Name):
                    walk(st.body, d[5:], tgt.id)
                else:
                    inner[0] += 1
                    walk(st.body, cont, elem)
                    inner[0] -= 1
            elif isinstance(st, ast.If):
                inner[0] += 1
                walk(st.body, cont, elem)
                walk(st.orelse, cont, elem)
                inner[0] -= 1
    walk(fn.body, None, None)
    want = [('bladestiff2ds', ('EL(flange)',)), ('tstiff2ds', ('EL(base)', 'EL(flange)'))]
    if events:
        # every view [pos: pos+size] is followed, at the same nesting level and before the next view, by exactly one pos += size
        segs = [e for e in events if e[0] == 'S']
        for k, e in enumerate(events):
            if e[0] != 'S':
                continue
            nxt = events[k + 1:k + 2]
            oki = bool(nxt) and nxt[0][0] == 'I' and nxt[0][1:4] == e[1:4] and e[2] is not None and e[3] == 0 and \
                (k + 2 >= len(events) or events[k + 2][0] == 'S')
            chk.ob('R13.2', oki, BAY, fname, 'offset advanced once by the length of block #%d' % (segs.index(e) + 1), line=e[4],
                   expected='view [pos: pos+size] then one `pos += size` at the same level (once per component, whatever its number of forces)',
                   got=[(x[0], x[1], x[2][0] if x[2] else None, 'nested %d' % x[3], 'line %d' % x[4]) for x in events[k:k + 3]],
                   detail='' if oki else 'the offset is advanced a number of times that depends on the forces of the component (or by another length): the blocks of the following components land at the wrong place',
                   sample='calc_fext: block #%d of length %s at the running offset' % (segs.index(e) + 1, e[2]))
        skin_len = segs[0][2] if segs and segs[0][1] is None else None
        order = []
        for c in ('bladestiff2ds', 'tstiff2ds'):
            ts = [e[2] for e in segs if e[1] == c]
            if ts:
                order.append((c, ts, 0))
    chk.ob('R13.2', skin_len == ('SKIN',), BAY, fname, 'skin block first', expected='leading block of length num*m*n', got=skin_len,
           sample='calc_fext: skin block of length num*m*n first')
    got = [(o[0], tuple(t[0] if t else None for t in (o[1] or []))) for o in order]
    chk.ob('R13.2', got == want, BAY, fname, 'concatenation order equals the matrix layout', expected=want, got=got,
           sample='calc_fext appends %s' % (got,))
    # R07.4 kernel class guards are evaluated in c07


def stiffener_internal(chk):
    """the stiffeners place base at (row0,col0) and flange right after it, as the bay's increments assume"""
    for cls, rel in (('TStiff2D', STIFF['TStiff2D']),):
        m = module(rel)
        for meth in ('calc_k0', 'calc_kG0', 'calc_kM'):
            fn = m.method(cls, meth)
            defs = {k: [norm(v) for v in vs if v is not None] for k, vs in local_defs(fn).items()}
            calls = [c for c in pyflow.calls_in(fn) if isinstance(c.func, ast.Attribute) and c.func.attr == meth and dotted(c.func.value) in ('self.base', 'self.flange')]
            got = {}
            for c in calls:
                kw = {k.arg: norm(k.value) for k in c.keywords}
                got[dotted(c.func.value)] = (kw.get('row0'), kw.get('col0'), kw.get('size'), kw.get('finalize'))
            rowf = defs.get('rowf', [])
            colf = defs.get('colf', [])
            ok = got.get('self.base') == ('row0', 'col0', 'size', 'False') and \
                (got.get('self.flange') in (('rowf', 'colf', 'size', 'False'), None)) and \
                (got.get('self.flange') is None or (rowf == ['row0+self.base.get_size()'] and colf == ['col0+self.base.get_size()']))
            if meth == 'calc_kG0' and 'self.base' not in got:
                ok = got.get('self.flange') == ('rowf', 'colf', 'size', 'False') and rowf == ['row0+self.base.get_size()'] and colf == ['col0+self.base.get_size()']
            chk.ob('R13.2', ok, rel, '%s.%s' % (cls, meth), 'base then flange', expected='base at (row0, col0); flange at row0 + base.get_size()',
                   got=got, sample='%s.%s: %s' % (cls, meth, got))
    m = module(STIFF['BladeStiff2D'])
    for meth in ('calc_k0', 'calc_kG0', 'calc_kM'):
        fn = m.method('BladeStiff2D', meth)
        calls = [c for c in pyflow.calls_in(fn) if isinstance(c.func, ast.Attribute) and c.func.attr == meth and dotted(c.func.value) in ('self.base', 'self.flange')]
        got = {}
        for c in calls:
            kw = {k.arg: norm(k.value) for k in c.keywords}
            got[dotted(c.func.value)] = (kw.get('row0'), kw.get('col0'), kw.get('size'), kw.get('finalize'))
        ok = got.get('self.flange') == ('row0', 'col0', 'size', 'False') and got.get('self.base', ('0', '0', 'size', 'False')) == ('0', '0', 'size', 'False')
        chk.ob('R13.2', ok, STIFF['BladeStiff2D'], 'BladeStiff2D.' + meth, 'base on the skin dofs, flange at its own offset',
               expected='base at (0,0) (shares the skin amplitudes); flange at (row0, col0)', got=got,
               sample='BladeStiff2D.%s: %s' % (meth, got))


def uvw_stiffener_layout(chk, rule='R11.6'):
    """R11.6 / R13.2: uvw_stiffener must walk the components in layout order"""
    m = module(BAY)
    fn = m.method('StiffPanelBay', 'uvw_stiffener')
    fname = 'StiffPanelBay.uvw_stiffener'
    loops = [n for n in ast.walk(fn) if isinstance(n, ast.For)]
    conts = []
    for lp in loops:
        it = lp.iter
        if isinstance(it, ast.Call) and getattr(it.func, 'id', '') == 'enumerate':
            it = it.args[0]
        d = dotted(it)
        if d and d.startswith('self.'):
            conts.append((d[5:], lp.lineno))
    ok = [c for c, l in conts] == ['bladestiff2ds', 'tstiff2ds'] or [c for c, l in conts] == []
    chk.ob(rule, ok, BAY, fname, 'walks the components in layout order', line=conts[0][1] if conts else fn.lineno,
           expected='offsets accumulated over self.bladestiff2ds then self.tstiff2ds (the order used by calc_k0/get_size)',
           got=[c for c, l in conts],
           detail='uvw_stiffener accumulates the offset over self.stiffeners (insertion order) while the matrices are laid out kind-major: with mixed kinds added in another order the wrong slice of c is evaluated')
    # the offset of element i is the total size of the elements before it: inside the accumulation loop every
    # size added comes from the previous element (the variable bound to <container>[i-1]), never from the current one
    for lp in loops:
        tv = [e.id for e in ast.walk(lp.target) if isinstance(e, ast.Name)]
        if len(tv) != 2:
            continue
        idx, cur = tv
        prev = [norm(a.targets[0]) for a in ast.walk(lp) if isinstance(a, ast.Assign) and isinstance(a.value, ast.Subscript) and norm(a.value.slice) == idx + '-1']
        adds = [a for a in ast.walk(lp) if isinstance(a, ast.AugAssign) and isinstance(a.op, ast.Add)]
        for ka, a in enumerate(adds):
            roots = []
            for c in ast.walk(a.value):
                if isinstance(c, ast.Call) and isinstance(c.func, ast.Attribute) and c.func.attr == 'get_size':
                    r = c.func.value
                    while isinstance(r, ast.Attribute):
                        r = r.value
                    roots.append(norm(r))
            if not roots:
                continue
            okp = bool(prev) and all(r in prev for r in roots)
            chk.ob(rule, okp, BAY, fname, 'offset accumulates the sizes of the preceding stiffeners (%s #%d)' % (norm(a.target), ka + 1), line=a.lineno,
                   expected='%s += sizes of %s (the element before the current one)' % (norm(a.target), prev or '<container>[i-1]'), got=norm(a)[:120],
                   detail='' if okp else 'a size of the current element %r is added to the start position: the wrong slice of c is evaluated as soon as two stiffeners differ in their number of terms' % cur,
                   sample='uvw_stiffener: %s' % norm(a)[:80])
    # every method called on a stiffener object exists in its class
    classes = {}
    for cls, rel in STIFF.items():
        classes[cls] = set(module(rel).classes.get(cls, {}))
    for c in pyflow.calls_in(fn):
        if isinstance(c.func, ast.Attribute) and c.func.attr == 'get_size':
            recv = dotted(c.func.value)
            if recv in ('s', 's_1', 'stiff'):
                # guarded by isinstance(s, X) of the *current* element; the receiver is another element
                tests = [(norm(t), pol) for t, pol in pyrules.enclosing_tests(fn, c)]
                cands = [k for k in STIFF if any(('isinstance(s,%s)' % k) == t and pol for t, pol in tests)]
                missing = [k for k in (cands or list(STIFF)) if 'get_size' not in classes[k]]
                chk.ob(rule, not missing, BAY, fname, 'method %s.get_size exists' % recv, line=c.lineno,
                       expected='get_size defined by the class of the receiver', got='not defined by %s' % missing,
                       detail='%s.get_size() is called but %s define no get_size (AttributeError)' % (recv, missing))
