"""C03 - geometric stiffness = Hessian of the pre-stress work."""
from . import spec, panelk, pyrules, numk
from .poly import P
from .spec import S, C

LEVEL = 'proof'
R = {'hess': 'R03.1', 'alias': 'R03.1', 'frame': 'R03.1', 'index': 'R03.1', 'swap': 'R03.1'}


def kG0_spec(model, nlead):
    def fn(frame, k):
        g = frame.geo()
        b = spec.Builder()
        pr = k.w.params
        Nxx, Nyy, Nxy = (S(pr[nlead + i]) for i in range(3))
        dof = spec.DOF1 if model == 'plate_w' else spec.DOF3
        jac = g.a * g.b / C(4)
        return b.hessian(spec.slope_rows(g), spec.prestress_matrix(Nxx, Nyy, Nxy), jac, dof,
                         xlim=frame.xlim, ylim=frame.ylim)
    return fn


def run(chk):
    chk.level = LEVEL
    chk.trusted = ['python3 ast', 'E1 lowering', 'Fraction polynomial arithmetic',
                   'C10: integral_* / calc_f* return the exact Bardell integrals / values',
                   'Cython/C translate +,-,*,/ faithfully']
    chk.assumptions = ['a Gauss order that integrates the integrand exactly is the caller\'s choice (not decided)']
    nums = pyrules.modeldb_nums(chk)
    nemit = 0
    for model in ('plate', 'plate_w', 'cpanel', 'kpanel'):
        rel = panelk.MODELS[model]
        res = {}
        for fname in ('fkG0', 'fkG0y1y2'):
            sub = fname.endswith('y1y2')
            k, got, fr, bad = panelk.check_matrix_kernel(chk, R, model, rel, fname, sub, nums[model],
                                                          kG0_spec(model, 2 if sub else 0),
                                                          'Hessian of 1/2 int(Nxx w,x^2 + 2 Nxy w,x w,y + Nyy w,y^2)')
            res[fname] = (k, got)
            nemit += len(got)
            wdof = 0 if model == 'plate_w' else 2
            chk.ob('R03.1', set(got) == {(wdof, wdof)}, rel, fname, 'only the (w,w) entry', got=sorted(got))
            pr = k.w.params
            nl = 2 if sub else 0
            for pq, v in got.items():
                degs = v.degree_in(lambda a: a in pr[nl:nl + 3])
                chk.ob('R03.1', degs == {1}, rel, fname, 'linear in (Nxx,Nyy,Nxy)', expected='homogeneous of degree 1', got=sorted(degs))
        panelk.sibling_check(chk, 'R03.1', model, 'fkG0', 'fkG0y1y2', res['fkG0'][1], res['fkG0y1y2'][1], res['fkG0y1y2'][0])
    chk.floor('R03.1 analytic emits', nemit, 8)
    numk.r03_numeric(chk)
    pyrules.r03_python(chk)
    chk.explanation = ('analytic fkG0/fkG0y1y2 compared with the Hessian of the pre-stress work; fkG_num '
                       'integrand compared with its image under integral-atom -> point-atom homomorphism, '
                       'stress resultants and strain accumulators checked against the strain table')
