"""C10 - Bardell functions, integral tables and quadrature tables are exact.

Everything is decided from the parsed literals of compmech/lib/src/*.c against
exact rational oracles (vcheck.bardell).  DESIGN.md section 3/C10.
"""
import os
import re
import decimal
from fractions import Fraction as Fr
from concurrent.futures import ProcessPoolExecutor

from . import ctab, bardell, pyxast
from .report import repo_path, AnalysisError, REPO

LEVEL = 'proof'
SRC = 'compmech/lib/src/'
RTOL = Fr(1, 10 ** 11)      # per coefficient, relative to the oracle coefficient (measured worst on the pinned tree: 8e-15)
ATOL_REL = Fr(1, 10 ** 15)  # absolute floor, relative to the largest oracle coefficient of the entry

FULL = {'integral_ff': (0, 0), 'integral_ffxi': (0, 1), 'integral_ffxixi': (0, 2),
        'integral_fxifxi': (1, 1), 'integral_fxifxixi': (1, 2), 'integral_fxixifxixi': (2, 2)}
SUB = {k + '_12': v for k, v in FULL.items()}
MAPPED = {'integral_ff_c0c1': (0, 0), 'integral_ffxi_c0c1': (0, 1), 'integral_fxif_c0c1': (1, 0),
          'integral_fxifxi_c0c1': (1, 1), 'integral_fxixifxixi_c0c1': (2, 2)}


def derivs_from_name(name):
    """integral_fxifxixi_12 -> (1, 2): read off the name, cross-checked with the
    tables above (so a new family cannot silently get the wrong oracle)"""
    core = name[len('integral_'):]
    core = re.sub(r'_(12|c0c1)$', '', core)
    parts = re.findall(r'f((?:xi)*)', core)
    if len(parts) != 2 or ''.join('f' + p for p in parts) != core:
        raise AnalysisError('cannot read derivative orders from ' + name)
    return tuple(len(p) // 2 for p in parts)


def coef_close(got, exp, scale):
    return abs(got - exp) <= RTOL * abs(exp) + ATOL_REL * scale


def compare(got_terms, exp_terms):
    """-> (ok, worst_rel, first bad description)"""
    scale = max([abs(v) for v in exp_terms.values()] or [Fr(0)])
    if not scale:
        scale = max([abs(v) for v in got_terms.values()] or [Fr(1)])
    worst = Fr(0)
    for k in set(got_terms) | set(exp_terms):
        g, e = got_terms.get(k, Fr(0)), exp_terms.get(k, Fr(0))
        if not coef_close(g, e, scale):
            return False, None, 'monomial %s: table %.17g exact %.17g' % (k, float(g), float(e))
        if e:
            worst = max(worst, abs(g - e) / abs(e))
    return True, worst, ''


# --------------------------------------------------------------------------
# workers (run in subprocesses; return plain data)


def _flag_exp(nv, pos_i, pos_j):
    m = [0] * nv
    if pos_i is not None:
        m[pos_i] += 1
    if pos_j is not None:
        m[pos_j] += 1
    return m


def check_table(args):
    """one integral table. kind in full/sub/mapped. Returns dict."""
    path, fname, kind, lim = args
    res = {'fname': fname, 'file': path, 'n': 0, 'bad': [], 'present': 0, 'worst': 0.0, 'error': None}
    try:
        funcs = ctab.parse_file(os.path.join(REPO, path))
        if fname not in funcs:
            res['error'] = 'function %s not found in %s' % (fname, path)
            return res
        fn = funcs[fname]
        d1, d2 = derivs_from_name(fname)
        ints = [n for t, n in fn.params if t.strip() == 'int']
        dbl = fn.vars
        nlead = {'full': 0, 'sub': 2, 'mapped': 2}[kind]
        if len(ints) != 2 or len(dbl) != nlead + 8:
            res['error'] = '%s: unexpected signature %r' % (fname, fn.params)
            return res
        # positional roles: leading doubles, then 4 flags of the first factor, 4 of the second
        nv = len(dbl)
        sv = ctab.switch_vars(fn)
        if sorted(sv) != sorted(ints):
            res['error'] = '%s: switch variables %r are not the int parameters %r' % (fname, sv, ints)
            return res
        perm = [sv.index(ints[0]), sv.index(ints[1])]
        entries, defaults = ctab.switch_table(fn, 2)
        for pre, rng, line in defaults:
            if rng is not None:
                v = fn.expand(rng)
                if v.t:
                    res['bad'].append(((-1, -1), line, 'default branch returns a non-zero value'))
        table = {}
        for key, val in entries.items():
            table[(key[perm[0]], key[perm[1]])] = val
        res['present'] = len(table)
        for (i, j) in table:
            if not (0 <= i < bardell.NMAX and 0 <= j < bardell.NMAX):
                res['bad'].append(((i, j), table[(i, j)][1], 'case label outside 0..29'))
        worst = Fr(0)
        for i in range(lim):
            for j in range(lim):
                res['n'] += 1
                fi = nlead + i if i < 4 else None
                fj = nlead + 4 + j if j < 4 else None
                flag = _flag_exp(nv, fi, fj)
                exp = {}
                if kind == 'full':
                    val = bardell.full_integral(i, j, d1, d2)
                    if val:
                        exp[tuple(flag)] = val
                elif kind == 'sub':
                    F = bardell.antiderivative(i, j, d1, d2)
                    for k, c in enumerate(F):
                        if c and k > 0:
                            m = list(flag); m[1] += k      # upper limit: second leading double
                            exp[tuple(m)] = c
                            m = list(flag); m[0] += k      # lower limit: first leading double
                            exp[tuple(m)] = -c
                else:
                    for (e0, e1), c in bardell.mapped_integral(i, j, d1, d2).items():
                        m = list(flag); m[0] += e0; m[1] += e1
                        exp[tuple(m)] = c
                if (i, j) in table:
                    rng, line = table[(i, j)]
                    got = fn.expand(rng).t
                else:
                    got, line = {}, fn.line
                ok, w, why = compare(got, exp)
                if not ok:
                    res['bad'].append(((i, j), line, ('absent case but exact integral is non-zero; ' if (i, j) not in table else '') + why))
                else:
                    worst = max(worst, w)
        res['worst'] = float(worst)
    except (ctab.CParseError, AnalysisError) as e:
        res['error'] = '%s: %s' % (fname, e)
    return res


def check_gauss(path):
    res = {'n': 0, 'bad': [], 'cases': [], 'worst': 0.0, 'error': None}
    try:
        funcs = ctab.parse_file(os.path.join(REPO, path))
        fn = funcs.get('leggauss_quad')
        if fn is None:
            res['error'] = 'leggauss_quad not found'
            return res
        tree = [t for t in fn.tree() if t[0] != 'decl']
        # a single switch, possibly followed by the function's plain `return;`
        if not tree or tree[0][0] != 'switch' or any(t[0] != 'return' or t[1] is not None for t in tree[1:]):
            res['error'] = 'leggauss_quad is not a single switch'
            return res
        trailing_return = len(tree) > 1
        pnames = [n for t, n in fn.params if '*' in t or '*' in n]
        decimal.getcontext().prec = 110
        D = decimal.Decimal
        worst = D(0)
        for label, body, line in tree[0][2]:
            if label is None:
                continue
            n = label
            pts, wts = {}, {}
            ok = True
            for st in body:
                if st[0] == 'store':
                    _, name, idx, rng, sl = st
                    toks = fn.toks[rng[0]:rng[1]]
                    txt = ''.join(t[1] for t in toks)
                    try:
                        val = D(txt)
                    except decimal.InvalidOperation:
                        res['bad'].append((n, sl, 'store is not a decimal literal: ' + txt[:40])); ok = False; continue
                    tgt = pts if name == fn.params[1][1].lstrip('*') else wts if name == fn.params[2][1].lstrip('*') else None
                    if tgt is None:
                        res['bad'].append((n, sl, 'store into unknown array ' + name)); ok = False; continue
                    if idx in tgt:
                        res['bad'].append((n, sl, '%s[%d] assigned twice' % (name, idx))); ok = False
                    tgt[idx] = val
                elif st[0] == 'return' or (st[0] == 'break' and trailing_return):
                    pass
                else:
                    res['bad'].append((n, st[-1], 'unexpected statement')); ok = False
            if not body or not (body[-1][0] == 'return' or (body[-1][0] == 'break' and trailing_return)):
                res['bad'].append((n, line, 'case %d does not end in return (falls through)' % n)); ok = False
            if sorted(pts) != list(range(n)) or sorted(wts) != list(range(n)):
                res['bad'].append((n, line, 'case %d assigns points %s.. weights %s.., need 0..%d each' % (n, len(pts), len(wts), n - 1)))
                continue
            res['cases'].append(n)
            pw = [D(1)] * n
            for k in range(2 * n):
                res['n'] += 1
                s = sum(wts[i] * pw[i] for i in range(n))
                ex = D(2) / D(k + 1) if k % 2 == 0 else D(0)
                r = abs(s - ex)
                if r > D('1e-30'):
                    res['bad'].append((n, line, 'moment k=%d: sum w x^k = %s, exact %s' % (k, str(s)[:25], str(ex)[:25])))
                    break
                worst = max(worst, r)
                pw = [pw[i] * pts[i] for i in range(n)]
        res['worst'] = float(worst)
    except ctab.CParseError as e:
        res['error'] = str(e)
    return res


def check_functions(path):
    """calc_f / calc_fxi / calc_fxixi (switch form) and calc_vec_* (array form)"""
    res = {'n': 0, 'bad': [], 'error': None, 'worst': 0.0}
    try:
        funcs = ctab.parse_file(os.path.join(REPO, path))
        worst = Fr(0)
        for d, suffix in ((0, 'f'), (1, 'fxi'), (2, 'fxixi')):
            for form in ('calc_', 'calc_vec_'):
                name = form + suffix
                fn = funcs.get(name)
                if fn is None:
                    res['error'] = name + ' not found'
                    return res
                dbl = fn.vars        # (xi, 4 flags)
                if len(dbl) != 5:
                    res['error'] = '%s: unexpected signature %r' % (name, fn.params)
                    return res
                got = {}
                if form == 'calc_':
                    entries, defaults = ctab.switch_table(fn, 1)
                    for pre, rng, line in defaults:
                        if rng is not None and fn.expand(rng).t:
                            res['bad'].append((name, -1, line, 'default branch returns non-zero'))
                    for (i,), (rng, line) in entries.items():
                        got[i] = (fn.expand(rng).t, line)
                else:
                    tree_ = [t for t in fn.tree() if t[0] != 'decl']
                    scalar = funcs.get(name.replace('calc_vec_', 'calc_'))
                    if len(tree_) == 1 and tree_[0][0] == 'for' and scalar is not None:
                        # the vector form loops over the scalar function: out[i] = calc_x(i, xi, flags...) for i in 0..NMAX-1
                        _, var, lo, bound, body_, fline = tree_[0]
                        nb = ctab.defines(os.path.join(REPO, path)).get(bound, int(bound) if bound.isdigit() else None)
                        okf = lo == '0' and nb == bardell.NMAX and len(body_) == 1 and body_[0][0] == 'storev' and body_[0][2] == var
                        if okf:
                            toks_ = [t[1] for t in fn.toks[body_[0][3][0]:body_[0][3][1]]]
                            want_ = [scalar.name, '(', var] + [x for v_ in fn.vars for x in (',', v_)] + [')']
                            okf = toks_ == want_ and scalar.vars == fn.vars
                        if not okf:
                            res['bad'].append((name, -1, fline, 'loop form is not out[i] = %s(i, %s) for i in 0..%d' % (scalar.name, ', '.join(fn.vars), bardell.NMAX - 1)))
                        else:
                            ent_, _d = ctab.switch_table(scalar, 1)
                            for (i_,), (rng_, line_) in ent_.items():
                                got[i_] = (scalar.expand(rng_).t, fline)
                        tree_ = []
                    for st in tree_:
                        if st[0] != 'store':
                            res['bad'].append((name, -1, st[-1], 'unexpected statement in array form'))
                            continue
                        _, arr, idx, rng, line = st
                        if idx in got:
                            res['bad'].append((name, idx, line, 'index assigned twice'))
                        got[idx] = (fn.expand(rng).t, line)
                for i in range(bardell.NMAX):
                    res['n'] += 1
                    p = bardell.deriv(i, d)
                    exp = {}
                    for k, c in enumerate(p):
                        if c:
                            m = [k, 0, 0, 0, 0]
                            if i < 4:
                                m[1 + i] = 1
                            exp[tuple(m)] = c
                    g, line = got.get(i, ({}, fn.line))
                    ok, w, why = compare(g, exp)
                    if not ok:
                        res['bad'].append((name, i, line, ('index missing; ' if i not in got else '') + why))
                    else:
                        worst = max(worst, w)
                extra = [i for i in got if not 0 <= i < bardell.NMAX]
                for i in extra:
                    res['bad'].append((name, i, got[i][1], 'index outside 0..29'))
        res['worst'] = float(worst)
    except ctab.CParseError as e:
        res['error'] = str(e)
    return res


# --------------------------------------------------------------------------


def table_jobs(lim=30):
    jobs = [(SRC + 'bardell.c', f, 'full', lim) for f in FULL]
    jobs += [(SRC + 'bardell_%s.c' % f, f, 'sub', lim) for f in SUB]
    jobs += [(SRC + 'bardell_%s.c' % f, f, 'mapped', lim) for f in MAPPED]
    return jobs


def run(chk):
    chk.level = LEVEL
    chk.trusted = ['python3 re/Fraction/decimal', 'E2 C-subset parser (vcheck/ctab.py)',
                   'Bardell defining formula as re-implemented in vcheck/bardell.py',
                   'the C compiler evaluates the parsed arithmetic faithfully']
    chk.assumptions = ['decimal literals carry 15 significant digits: coefficients are compared with '
                       'relative tolerance 1e-11 per coefficient (+1e-15 of the largest coefficient of the entry)']
    for f in [j[0] for j in table_jobs()] + [SRC + 'bardell_functions.c', SRC + 'legendre_gauss_quadrature.c']:
        chk.need(os.path.exists(repo_path(f)), 'anchor file missing: ' + f)
    ncpu = min(16, os.cpu_count() or 1)
    jobs = table_jobs(30)
    with ProcessPoolExecutor(max_workers=ncpu) as ex:
        fut_tables = [ex.submit(check_table, j) for j in jobs]
        fut_gauss = ex.submit(check_gauss, SRC + 'legendre_gauss_quadrature.c')
        fut_funcs = ex.submit(check_functions, SRC + 'bardell_functions.c')
        tables = [f.result() for f in fut_tables]
        gauss = fut_gauss.result()
        funcs = fut_funcs.result()

    # R10.1
    if funcs['error']:
        raise AnalysisError('C10 R10.1: ' + funcs['error'])
    bad = {(b[0], b[1]): b for b in funcs['bad']}
    for d, suffix in ((0, 'f'), (1, 'fxi'), (2, 'fxixi')):
        for form in ('calc_', 'calc_vec_'):
            for i in range(30):
                b = bad.pop((form + suffix, i), None)
                chk.ob('R10.1', b is None, SRC + 'bardell_functions.c', form + suffix, 'i=%d' % i,
                       line=b[2] if b else 0, detail=b[3] if b else '',
                       expected='flag_i * Bardell polynomial %d, derivative %d' % (i, d),
                       sample='%s(i=%d) == flag*U_%d^(%d)(xi)' % (form + suffix, i, i, d) if i == 7 else None)
    for (name, i), b in bad.items():
        chk.ob('R10.1', False, SRC + 'bardell_functions.c', name, 'i=%s' % i, line=b[2], detail=b[3])
    chk.floor('R10.1 function obligations', funcs['n'], 180)

    # R10.2-4
    rule_of = {'full': 'R10.2', 'sub': 'R10.3', 'mapped': 'R10.4'}
    worst_tab = {}
    for job, res in zip(jobs, tables):
        path, fname, kind, lim = job
        if res['error']:
            raise AnalysisError('C10 %s: %s' % (rule_of[kind], res['error']))
        badk = {b[0]: b for b in res['bad']}
        for i in range(lim):
            for j in range(lim):
                b = badk.pop((i, j), None)
                chk.ob(rule_of[kind], b is None, path, fname, 'i=%d,j=%d' % (i, j),
                       line=b[1] if b else 0, detail=b[2] if b else '',
                       expected='exact integral of Bardell polynomials (%s, derivatives %s)' % (kind, derivs_from_name(fname)),
                       sample=('%s(%d,%d) == exact (%s)' % (fname, i, j, kind)) if (i, j) == (5, 7) else None)
        for key, b in badk.items():
            chk.ob(rule_of[kind], False, path, fname, 'i=%s,j=%s' % key, line=b[1], detail=b[2])
        worst_tab[fname] = {'present_cases': res['present'], 'worst_rel_coeff_error': res['worst']}
        chk.floor('%s entries' % fname, res['n'], 900)
    chk.extra['tables'] = worst_tab

    # R10.5 signatures: header / implementation / cdef extern agree
    r105(chk)

    # R10.6 Gauss
    if gauss['error']:
        raise AnalysisError('C10 R10.6: ' + gauss['error'])
    gb = {}
    for b in gauss['bad']:
        gb.setdefault(b[0], b)
    for n in range(2, 65):
        b = gb.pop(n, None)
        present = n in gauss['cases'] or b is not None
        chk.ob('R10.6', b is None and n in gauss['cases'], SRC + 'legendre_gauss_quadrature.c',
               'leggauss_quad', 'n=%d' % n, line=b[1] if b else 0,
               detail=b[2] if b else ('' if present else 'case missing'),
               expected='n points/weights with sum w x^k = int x^k for k <= 2n-1',
               sample='n=%d: %d moments exact to 1e-30' % (n, 2 * n) if n == 5 else None)
    for n, b in gb.items():
        chk.ob('R10.6', False, SRC + 'legendre_gauss_quadrature.c', 'leggauss_quad', 'n=%s' % n, line=b[1], detail=b[2])
    chk.floor('Gauss moment evaluations', gauss['n'], 4150)
    chk.extra['gauss_worst_moment_residual'] = gauss['worst']
    chk.extra['functions_worst_rel_coeff_error'] = funcs['worst']

    # R10.7 trapezoid / Simpson point sets
    r107(chk)

    chk.extra['exhaustive'] = True
    chk.explanation = ('every literal of the function, integral and quadrature tables is parsed and '
                       'compared with exact rational oracles; 30x30 index pairs per table including '
                       'absent (default) cases')


# --------------------------------------------------------------------------
# R10.5


HEADERS = {'compmech/include/bardell.h': list(FULL), 'compmech/include/bardell_12.h': list(SUB),
           'compmech/include/bardell_c0c1.h': list(MAPPED),
           'compmech/include/bardell_functions.h': ['calc_f', 'calc_fxi', 'calc_fxixi', 'calc_vec_f', 'calc_vec_fxi', 'calc_vec_fxixi'],
           'compmech/include/legendre_gauss_quadrature.h': ['leggauss_quad']}


def _norm_type(t):
    return re.sub(r'\s+', '', t.replace('const', ''))


def extern_decls(path):
    """cdef extern blocks of a pyx: {name: [type,...]} with arity and types"""
    src = open(path).read()
    out = {}
    for m in re.finditer(r'^cdef extern from [^\n]*:\n((?:[ \t]+[^\n]*\n|\n)+)', src, re.M):
        block = m.group(1)
        for d in re.finditer(r'(\w[\w\s\*]*?)\b(\w+)\s*\(([^)]*)\)', block):
            name = d.group(2)
            args = [a.strip() for a in d.group(3).replace('\n', ' ').split(',') if a.strip()]
            types = []
            for a in args:
                star = '*' if '*' in a else ''
                ty = re.findall(r'[A-Za-z_]\w*', a)
                types.append((ty[0] if ty else '') + star)
            out[name] = types
    return out


def r105(chk):
    impl = {}
    for f in sorted(os.listdir(repo_path(SRC))):
        if f.endswith('.c'):
            for name, fn in ctab.parse_file(repo_path(SRC + f)).items():
                impl[name] = (SRC + f, fn)
    n = 0
    for hdr, names in HEADERS.items():
        chk.need(os.path.exists(repo_path(hdr)), 'header missing: ' + hdr)
        protos = ctab.parse_header(repo_path(hdr))
        for name in names:
            chk.need(name in impl, 'implementation of %s vanished' % name)
            file, fn = impl[name]
            p = protos.get(name)
            ok = p is not None and [(_norm_type(t) + ('*' if nm.startswith('*') else '')) for t, nm in p] == \
                [(_norm_type(t) + ('*' if nm.startswith('*') else '')) for t, nm in fn.params]
            # argument *names* matter for position of leading doubles: compare the sequence of kinds
            chk.ob('R10.5', ok, hdr, name, 'prototype', expected=fn.params, got=p,
                   detail='header prototype and implementation differ in arity/types/order')
            n += 1
    # cdef extern in every built pyx
    cnt = 0
    for rel in pyxast.built_sources(REPO):
        path = repo_path(rel)
        if not os.path.exists(path):
            continue
        for name, types in extern_decls(path).items():
            if name not in impl:
                continue
            file, fn = impl[name]
            want = [re.sub(r'\s+', '', t.replace('const', '')).rstrip('*') + ('*' if ('*' in t or nm.startswith('*')) else '') for t, nm in fn.params]
            chk.ob('R10.5', types == want, rel, name, 'cdef extern', expected=want, got=types,
                   detail='cdef extern declaration does not match the C implementation')
            cnt += 1
    chk.floor("R10.5 extern declarations", cnt, 90)


# --------------------------------------------------------------------------
# R10.7


def r107(chk):
    import ast
    from .poly import P, from_ast
    rel = 'compmech/integrate/integrate.pyx'
    u = pyxast.parse(repo_path(rel), REPO)
    # ---- trapz_quad
    fn = u.func('trapz_quad')
    chk.need(fn is not None, 'trapz_quad vanished')
    loops = [n for n in ast.walk(fn) if isinstance(n, ast.For)]
    chk.need(len(loops) == 1, 'trapz_quad: expected one loop')
    loop = loops[0]
    nx = fn.args.args[0].arg
    from .poly import Rat
    env = {}
    for st in fn.body:
        if isinstance(st, ast.Assign) and isinstance(st.targets[0], ast.Name):
            env[st.targets[0].id] = from_ast(st.value, env, ring=Rat)
    ok_range = isinstance(loop.iter, ast.Call) and ast.unparse(loop.iter) == 'range(%s)' % nx
    chk.ob('R10.7', ok_range, rel, 'trapz_quad', 'loop range', line=loop.lineno,
           expected='range(nx)', got=ast.unparse(loop.iter))
    iv = loop.target.id
    node_ok = w_end = w_in = None
    for st in loop.body:
        if isinstance(st, ast.Assign) and isinstance(st.targets[0], ast.Subscript):
            # xis[i] = -1 + 2 i/(nx-1)  : compare as Rat
            from .poly import Rat
            got = from_ast(st.value, {k: v for k, v in env.items()}, ring=Rat)
            exp = Rat(P.const(-1)) + Rat(P.const(2) * P.sym(iv), P.sym(nx) - P.const(1))
            node_ok = got.equals(exp) and ast.unparse(st.targets[0].slice) == iv
            chk.ob('R10.7', node_ok, rel, 'trapz_quad', 'nodes', line=st.lineno,
                   expected='-1 + 2i/(nx-1)', got=ast.unparse(st.value))
        if isinstance(st, ast.If):
            from .poly import Rat
            # `i == 0 or i == nx-1` (end branch first) or `i != 0 and i != nx-1` (interior branch first); the compared values are
            # evaluated with the local definitions (last = nx-1)
            ok_test = False
            swap = False
            if isinstance(st.test, ast.BoolOp) and len(st.test.values) == 2 and all(isinstance(v, ast.Compare) and len(v.ops) == 1 for v in st.test.values):
                kinds = {type(v.ops[0]) for v in st.test.values}
                vals = []
                for v in st.test.values:
                    l, r = v.left, v.comparators[0]
                    other = r if isinstance(l, ast.Name) and l.id == iv else l if isinstance(r, ast.Name) and r.id == iv else None
                    if other is not None:
                        try:
                            vals.append(from_ast(other, dict(env), ring=Rat))
                        except Exception:
                            pass
                want_vals = [Rat(P()), Rat(P.sym(nx) - P.const(1))]
                same = len(vals) == 2 and all(any(v.equals(w) for v in vals) for w in want_vals)
                if same and isinstance(st.test.op, ast.Or) and kinds == {ast.Eq}:
                    ok_test = True
                elif same and isinstance(st.test.op, ast.And) and kinds == {ast.NotEq}:
                    ok_test = swap = True
            chk.ob('R10.7', ok_test, rel, 'trapz_quad', 'end-point test', line=st.lineno,
                   expected='i == 0 or i == nx-1', got=ast.unparse(st.test))
            if swap:
                st = ast.copy_location(ast.If(test=st.test, body=st.orelse, orelse=st.body), st)
            hx = Rat(P.const(2), P.sym(nx) - P.const(1))
            renv = {}
            for st0 in fn.body:
                if isinstance(st0, ast.Assign) and isinstance(st0.targets[0], ast.Name):
                    renv[st0.targets[0].id] = from_ast(st0.value, renv, ring=Rat)
            for branch, exp, nm in ((st.body, hx / 2, 'end weight'), (st.orelse, hx, 'interior weight')):
                okb = len(branch) == 1 and isinstance(branch[0], ast.Assign) and \
                    from_ast(branch[0].value, renv, ring=Rat).equals(exp) and \
                    ast.unparse(branch[0].targets[0].slice) == iv
                chk.ob('R10.7', okb, rel, 'trapz_quad', nm, line=st.lineno, expected=repr(exp),
                       got=ast.unparse(branch[0]) if branch else 'missing')
    # ---- trapz2d_points: affine map and Jacobian
    fn = u.func('trapz2d_points')
    chk.need(fn is not None, 'trapz2d_points vanished')
    a = [x.arg for x in fn.args.args]
    chk.need(len(a) == 6, 'trapz2d_points signature changed')
    xmin, xmax, nxp, ymin, ymax, nyp = a
    env = {}
    stores = {}
    calls = []
    for node in ast.walk(fn):
        if isinstance(node, ast.Call) and getattr(node.func, 'id', '') == 'trapz_quad':
            calls.append(ast.unparse(node).replace(' ', ''))

    def walk(body):
        for st in body:
            if isinstance(st, ast.Assign) and len(st.targets) == 1:
                t = st.targets[0]
                if isinstance(t, ast.Name):
                    try:
                        env[t.id] = from_ast(st.value, env)
                    except Exception:
                        env.pop(t.id, None)
                elif isinstance(t, ast.Subscript) and isinstance(t.value, ast.Name):
                    try:
                        stores[t.value.id] = (from_ast(st.value, env), st.lineno)
                    except Exception:
                        stores[t.value.id] = (None, st.lineno)
            for sub in ('body', 'orelse'):
                if hasattr(st, sub) and not isinstance(st, (ast.Assign,)):
                    walk(getattr(st, sub))
    walk(fn.body)
    S = P.sym
    half = P.const(Fr(1, 2))
    exp_calls = {'trapz_quad(%s,ADDR(xis[0]),ADDR(weightsxi[0]))' % nxp, 'trapz_quad(%s,ADDR(etas[0]),ADDR(weightseta[0]))' % nyp}
    chk.ob('R10.7', set(calls) == exp_calls, rel, 'trapz2d_points', 'quadrature calls', expected=sorted(exp_calls), got=calls)
    rets = [n for n in ast.walk(fn) if isinstance(n, ast.Return)]
    chk.need(len(rets) == 1 and isinstance(rets[0].value, ast.Tuple) and len(rets[0].value.elts) == 4, 'trapz2d_points return shape changed')
    rx, ry, ra, rb = [e.id for e in rets[0].value.elts]
    ex_x = (S(xmax) - S(xmin)) * half * (S('xis[i]') + P.const(1)) + S(xmin)
    ex_y = (S(ymax) - S(ymin)) * half * (S('etas[j]') + P.const(1)) + S(ymin)
    ex_a = (S(xmax) - S(xmin)) * half * (S(ymax) - S(ymin)) * half * S('weightsxi[i]') * S('weightseta[j]')
    for nm, arr, ex in (('x map', rx, ex_x), ('y map', ry, ex_y), ('weight', ra, ex_a), ('beta', rb, P.const(1))):
        got = stores.get(arr, (None, 0))
        chk.ob('R10.7', got[0] is not None and got[0] == ex, rel, 'trapz2d_points', nm, line=got[1],
               expected=repr(ex), got=repr(got[0]))
    # ---- simps2d_points: nine loop nests partition the grid into parity classes
    fn = u.func('simps2d_points')
    chk.need(fn is not None, 'simps2d_points vanished')
    a = [x.arg for x in fn.args.args]
    xmin, xmax, nxp, ymin, ymax, nyp = a
    classes = {}

    def klass(it, npar):
        """classify an iterable over a parity class of 0..2n: returns (class, index-kind)"""
        s = ast.unparse(it).replace(' ', '')
        if s == '(0,2*%s)' % npar:
            return 'end'
        if s == 'range(1,%s+1)' % npar:
            return 'odd'       # used as 2*i-1, i=1..n
        if s == 'range(1,%s)' % npar:
            return 'even'      # used as 2*i, i=1..n-1
        return None
    want_idx = {'end': '%s', 'odd': '2*%s-1', 'even': '2*%s'}
    wmap = {'end': 1, 'odd': 4, 'even': 2}
    tops = [st for st in fn.body if isinstance(st, ast.For)]
    seen = []
    for lp in tops:
        # corner loop: for i,j in ((0,0),(2nx,0),(0,2ny),(2nx,2ny))
        if isinstance(lp.target, ast.Tuple):
            s = ast.unparse(lp.iter).replace(' ', '')
            okc = s == '((0,0),(2*%s,0),(0,2*%s),(2*%s,2*%s))' % (nxp, nyp, nxp, nyp)
            body = lp.body
            ci, cj = 'end', 'end'
            iv, jv = lp.target.elts[0].id, lp.target.elts[1].id
            if not okc:
                chk.ob('R10.7', False, rel, 'simps2d_points', 'corner set', line=lp.lineno, got=s,
                       expected='the four corners')
                continue
        else:
            inner = [st for st in lp.body if isinstance(st, ast.For)]
            if len(inner) != 1:
                chk.ob('R10.7', False, rel, 'simps2d_points', 'loop nest shape', line=lp.lineno)
                continue
            ci, cj = klass(lp.iter, nxp), klass(inner[0].iter, nyp)
            iv, jv = lp.target.id, inner[0].target.id
            body = inner[0].body
            if ci is None or cj is None:
                chk.ob('R10.7', False, rel, 'simps2d_points', 'loop range', line=lp.lineno,
                       got=ast.unparse(lp.iter) + ' / ' + ast.unparse(inner[0].iter),
                       expected='(0,2n) | range(1,n+1) | range(1,n)')
                continue
        st_by = {}
        for st in body:
            if isinstance(st, ast.Assign) and isinstance(st.targets[0], ast.Subscript):
                st_by[st.targets[0].value.id] = st
        ok = True
        det = ''
        xs_st, ys_st, al_st = st_by.get('xs2'), st_by.get('ys2'), st_by.get('alphas')
        if not (xs_st and ys_st and al_st):
            ok = False; det = 'missing store'
        else:
            gx = ast.unparse(xs_st.value).replace(' ', '')
            gy = ast.unparse(ys_st.value).replace(' ', '')
            if gx != 'xs[%s]' % (want_idx[ci] % iv):
                ok = False; det = 'x index %s for class %s' % (gx, ci)
            if gy != 'ys[%s]' % (want_idx[cj] % jv):
                ok = False; det = 'y index %s for class %s' % (gy, cj)
            try:
                w = from_ast(al_st.value, {})
                if w != P.const(wmap[ci] * wmap[cj]) * P.sym('c'):
                    ok = False; det = 'weight %r for class (%s,%s)' % (w, ci, cj)
            except Exception as e:
                ok = False; det = str(e)
        if (ci, cj) in seen:
            ok = False; det = 'parity class (%s,%s) visited twice' % (ci, cj)
        seen.append((ci, cj))
        chk.ob('R10.7', ok, rel, 'simps2d_points', 'class (%s,%s)' % (ci, cj), line=lp.lineno, detail=det,
               expected='xs[%s], ys[%s], weight %d*c' % (want_idx[ci] % iv, want_idx[cj] % jv, wmap[ci] * wmap[cj]))
    chk.ob('R10.7', sorted(seen) == sorted((a_, b_) for a_ in wmap for b_ in wmap), rel, 'simps2d_points',
           'partition', expected='all 9 parity classes exactly once', got=seen)
    # c = hx*hy/9, hx=(xmax-xmin)/(2nx)
    from .poly import Rat
    renv = {}
    for st in fn.body:
        if isinstance(st, ast.Assign) and isinstance(st.targets[0], ast.Name) and st.targets[0].id in ('hx', 'hy', 'c'):
            renv[st.targets[0].id] = from_ast(st.value, renv, ring=Rat)
    exp_c = Rat((S(xmax) - S(xmin)) * (S(ymax) - S(ymin)), P.const(36) * S(nxp) * S(nyp))
    chk.ob('R10.7', 'c' in renv and renv['c'].equals(exp_c), rel, 'simps2d_points', 'cell constant',
           expected='hx*hy/9 with hx=(xmax-xmin)/(2nx)', got=repr(renv.get('c')))
    # grid: xs = linspace(xmin,xmax,2nx+1)
    src = ast.unparse(fn).replace(' ', '')
    okg = ('xs=np.linspace(%s,%s,2*%s+1)' % (xmin, xmax, nxp)) in src and ('ys=np.linspace(%s,%s,2*%s+1)' % (ymin, ymax, nyp)) in src
    chk.ob('R10.7', okg, rel, 'simps2d_points', 'grid', expected='linspace(min,max,2n+1) in both directions')
