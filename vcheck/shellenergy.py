"""Energy oracle for the complete-shell (conecyl) classical kernels.

The linear strain operator B is read from the package's own ``cfstrain_*``
function (coefficient of every amplitude in every strain component, with the
state-dependent non-linear terms set to zero and the section radius ``r``
frozen, exactly as the kernels freeze it).  The oracle entry for a pair of
amplitudes is

    int_{xa}^{xb} int_0^{2 pi}  B_row^T F B_col  r  dtheta dx

computed exactly: product-to-sum (Fourier normal form) in theta, full-circle
orthogonality of integer harmonics, product-to-sum in x, closed antiderivatives
of x^p sin/cos(w x), with 1/w kept as canonical reciprocal atoms INV(.).
Kernel entries are evaluated in the same ring and compared after clearing the
reciprocals.  (-1)**n is the sign atom product sg(v) with sg^2 = 1."""
import ast
from fractions import Fraction as Fr

from . import shellk, kernel, c16iso
from .poly import P, nfs, const_fraction, Unsupported, NonMonomialDivision
from .report import AnalysisError

S, C = P.sym, P.const
HALF = Fr(1, 2)


class Undecided(Exception):
    pass


# --------------------------------------------------------------------------
# reciprocal atoms

INVREG = {}


def inv_poly(v):
    """1/v with canonical INV atoms for the non-monomial factors (content
    extracted, monic, difference of squares split)"""
    if not v.t:
        raise ZeroDivisionError('division by the zero polynomial')
    if len(v.t) == 1:
        return v.inv()
    atoms = set.intersection(*[set(s_ for s_, e in m) for m in v.t])
    content = {}
    for a in atoms:
        e = min(dict(m)[a] for m in v.t)
        if e != 0:
            content[a] = e
    if content:
        cm = P({tuple(sorted(content.items())): Fr(1)})
        return cm.inv() * inv_poly(v * cm.inv())
    m0, c0 = sorted(v.t.items())[0]
    if c0 != 1:
        return inv_poly(v * C(1 / c0)) * C(1 / c0)
    if len(v.t) == 2:
        (ma, ca), (mb, cb) = sorted(v.t.items())

        def root(m, c):
            if c < 0 or any(e % 2 for s_, e in m):
                return None
            num, den = c.numerator, c.denominator
            rn, rd = int(round(num ** 0.5)), int(round(den ** 0.5))
            if rn * rn != num or rd * rd != den:
                return None
            return P({tuple((s_, e // 2) for s_, e in m): Fr(rn, rd)})
        if ca > 0 and cb < 0 and (ma or mb):
            ra, rb = root(ma, ca), root(mb, -cb)
            if ra is not None and rb is not None:
                return inv_poly(ra - rb) * inv_poly(ra + rb)
    name = 'INV(%s)' % nfs(v)
    INVREG[name] = v
    return S(name)


def clear_inv(polys):
    """multiply all polynomials by the same product of INV denominators so that no INV atom is left"""
    emax = {}
    for p in polys:
        for m in p.t:
            for s_, e in m:
                if s_.startswith('INV('):
                    if e < 0:
                        raise Unsupported('negative power of ' + s_)
                    emax[s_] = max(emax.get(s_, 0), e)
    if not emax:
        return polys, []
    out = []
    for p in polys:
        acc = P()
        cache = {}
        for m, c in p.t.items():
            d = dict(m)
            term = None
            key = tuple((a, emax[a] - d.get(a, 0)) for a in sorted(emax))
            if key not in cache:
                f = C(1)
                for a, e in key:
                    if e:
                        f = f * INVREG[a] ** e
                cache[key] = f
            rest = tuple((s_, e) for s_, e in m if s_ not in emax)
            acc = acc + P({rest: c}) * cache[key]
        out.append(acc)
    return out, sorted(emax)


# --------------------------------------------------------------------------
# sign atoms

def sign_pow(e):
    """(-1)**e for a polynomial e with integer coefficients in index variables"""
    out = C(1)
    for m, c in e.t.items():
        if c.denominator != 1:
            raise Unsupported('(-1)**(non-integer)')
        if not m:
            if c % 2:
                out = -out
        elif len(m) == 1 and m[0][1] == 1:
            if c % 2:
                out = out * S('sg(%s)' % m[0][0])
        else:
            raise Unsupported('(-1)**(%s)' % nfs(e))
    return out


def reduce_sg(p):
    r = {}
    for m, c in p.t.items():
        mm = tuple((s_, (e % 2 if s_.startswith('sg(') else e)) for s_, e in m)
        mm = tuple(x for x in mm if x[1])
        v = r.get(mm, 0) + c
        if v:
            r[mm] = v
        else:
            r.pop(mm, None)
    return P(r)


# --------------------------------------------------------------------------
# evaluator

class SEval(c16iso.PEval):
    """PEval with pi symbolic, frozen names kept as atoms, (-1)**n as sign atoms,
    amplitude reads classified by (class, dof)"""

    def __init__(self, unit, fn, sub_hook=None, frozen=(), state=None, classify=None):
        c16iso.PEval.__init__(self, unit, fn, sub_hook=sub_hook)
        for k, v in unit_consts(unit).items():
            self.env.setdefault(k, C(Fr(repr(v))))
        self.env['pi'] = S('pi')
        self.frozen = set(frozen)
        for f in self.frozen:
            self.env[f] = S(f)
        self.state = state
        self.classify = classify
        self.pstores = []

    def inv_poly(self, v):
        return inv_poly(v)

    def pev(self, n):
        if isinstance(n, ast.BinOp) and isinstance(n.op, ast.Pow):
            try:
                b = self.pev(n.left)
            except (Unsupported, NonMonomialDivision):
                b = None
            if b is not None and b == C(-1):
                return sign_pow(self.pev(n.right))
        return c16iso.PEval.pev(self, n)

    def leaf(self, n):
        if self.state and isinstance(n, ast.Subscript) and isinstance(n.value, ast.Name) and n.value.id == self.state:
            idx = self.pev(n.slice)
            return S(self.classify(idx))
        return c16iso.PEval.leaf(self, n)

    def assign(self, t, value, st, aug):
        if isinstance(t, ast.Name) and t.id in self.frozen:
            self.env[t.id] = S(t.id)
            return
        if isinstance(t, ast.Subscript) and isinstance(t.value, ast.Name):
            sl = t.slice
            idxs = sl.elts if isinstance(sl, ast.Tuple) else [sl]
            try:
                self.pstores.append((t.value.id, [self.pev(i) for i in idxs], self.pev(value), st.lineno, tuple(self.loops), tuple(self.guards), aug))
            except (Unsupported, NonMonomialDivision, ZeroDivisionError) as e:
                self.pstores.append((t.value.id, None, None, st.lineno, tuple(self.loops), tuple(self.guards), aug))
            return
        c16iso.PEval.assign(self, t, value, st, aug)


# --------------------------------------------------------------------------
# Fourier normal form with registration of the produced atoms

def tnormal(p, trig, select=None):
    """product-to-sum over the registered sin/cos atoms chosen by ``select`` (a predicate on the
    argument polynomial); produced atoms are registered in ``trig``"""
    out = P()
    for mono, c in p.t.items():
        factors, rest = [], []
        for s_, e in mono:
            if s_ in trig and (select is None or select(trig[s_][1])):
                if e < 0:
                    raise NonMonomialDivision('trigonometric factor in a denominator: ' + s_)
                factors += [trig[s_]] * e
            else:
                rest.append((s_, e))
        if not factors:
            out = out + P({mono: c})
            continue
        terms = [(Fr(1), None, None)]
        for kind, arg in factors:
            new = []
            for co, k0, a0 in terms:
                if k0 is None:
                    new.append((co, kind, arg))
                elif k0 == 'sin' and kind == 'sin':
                    new += [(co * HALF, 'cos', a0 - arg), (-co * HALF, 'cos', a0 + arg)]
                elif k0 == 'cos' and kind == 'cos':
                    new += [(co * HALF, 'cos', a0 - arg), (co * HALF, 'cos', a0 + arg)]
                elif k0 == 'sin' and kind == 'cos':
                    new += [(co * HALF, 'sin', a0 + arg), (co * HALF, 'sin', a0 - arg)]
                else:
                    new += [(co * HALF, 'sin', arg + a0), (co * HALF, 'sin', arg - a0)]
            terms = new
        base0 = P({tuple(rest): c})
        for co, k, a in terms:
            out = out + base0 * C(co) * trig_atom(k, a, trig)
    return out


def trig_atom(kind, a, trig):
    """canonical atom for sin/cos of a polynomial argument (sign-normalised); 0 argument folded"""
    if not a.t:
        return C(1) if kind == 'cos' else P()
    sign = 1
    first = sorted(a.t.items())[0][1]
    if first < 0:
        a = -a
        if kind == 'sin':
            sign = -1
    name = '%s(%s)' % (kind, nfs(a))
    trig[name] = (kind, a)
    return S(name) * C(sign)


def trig_subs(p, trig, mapping):
    """substitute index atoms (mapping: atom -> P) also inside the arguments of registered trig atoms"""
    if not mapping:
        return p
    out = P()
    cache = {}
    for mono, c in p.t.items():
        term = P({(): c})
        plain = []
        for s_, e in mono:
            if s_ in trig:
                if s_ not in cache:
                    kind, a = trig[s_]
                    cache[s_] = trig_atom(kind, a.subs(mapping), trig)
                term = term * cache[s_] ** e
            elif s_.startswith('sg(') and s_[3:-1] in mapping:
                term = term * sign_pow(mapping[s_[3:-1]]) ** e
            elif s_.startswith('INV('):
                q = INVREG[s_].subs(mapping)
                term = term * inv_poly(q) ** e
            else:
                plain.append((s_, e))
        out = out + term * P({tuple(plain): Fr(1)}).subs(mapping)
    return out


# --------------------------------------------------------------------------
# strain operator B from cfstrain_*

def unit_consts(unit):
    """module constants of a unit including those of its .pxi includes"""
    import os
    from . import pyxast
    from .report import REPO
    out = {}
    for inc in unit.includes():
        ip = os.path.join(os.path.dirname(unit.path), inc)
        if os.path.exists(ip):
            out.update(pyxast.parse(ip, REPO).module_consts())
    out.update(unit.module_consts())
    return out


ZERO_STATE = {'wxs', 'wts', 'w0xs', 'w0ts', 'vs', 'w0s', 'us', 'ws', 'phixs', 'phits'}


class Basis:
    def __init__(self, unit):
        mc = unit_consts(unit)
        self.i0, self.j0 = int(mc['i0']), int(mc['j0'])
        self.num0, self.num1, self.num2 = int(mc['num0']), int(mc['num1']), int(mc['num2'])

    def base1(self, v):
        return (S(v) - C(self.i0)) * C(self.num1) + C(self.num0)

    def base2(self, v, w):
        return (S(v) - C(self.i0)) * C(self.num2) + (S(w) - C(self.j0)) * C(self.num2) * S('m2') + C(self.num0) + C(self.num1) * S('m1')

    def classify(self, idx, xvars1=('i1', 'k1'), xvars2=('i2', 'k2'), tvars=('j2', 'l2')):
        """index polynomial -> (class, dof, index variables)"""
        at = idx.atoms()
        if not at:
            k = idx.t.get((), Fr(0))
            return 0, int(k), ()
        for v in xvars1:
            if v in at:
                k = idx - self.base1(v)
                if set(k.t) <= {()}:
                    return 1, int(k.t.get((), 0)), (v,)
        for v in xvars2:
            if v in at:
                for w in tvars:
                    if w in at:
                        k = idx - self.base2(v, w)
                        if set(k.t) <= {()}:
                            return 2, int(k.t.get((), 0)), (v, w)
        raise AnalysisError('cannot classify the amplitude index %s' % nfs(idx))


def strain_B(unit, fname):
    """{(class, dof): [P]*e_num}, trig registry.  Canonical index variables: i1 ; i2, j2"""
    fn = unit.func(fname)
    if fn is None:
        raise AnalysisError('anchor vanished: %s in %s' % (fname, unit.rel))
    basis = Basis(unit)

    def hook(name, idx):
        if name == 'xs':
            return S('x')
        if name == 'ts':
            return S('t')
        if name in ZERO_STATE:
            return P()
        return None

    def classify(idx):
        cls, k, vs = basis.classify(idx)
        return 'c{%d;%d}' % (cls, k)
    ev = SEval(unit, fn, sub_hook=hook, frozen=('r',), state='c', classify=classify)
    ev.den_names = set()          # nothing is made opaque: r is frozen, the rest are monomials
    ev.run()
    comps = {}
    for arr, idx, val, line, loops, guards, aug in ev.pstores:
        if arr == 'es' and val is not None and idx:
            # es[e_num*i + q]
            q = idx[0].t.get((), Fr(0))
            if q.denominator != 1:
                raise AnalysisError('%s: strain store index %s' % (fname, nfs(idx[0])))
            comps[int(q)] = val
    if not comps:
        raise AnalysisError('%s: no strain component stores found' % fname)
    ne = max(comps) + 1
    B = {}
    for q in range(ne):
        lin, rem = shellk.linear_in_state(comps.get(q, P()), 'c')
        if rem.t:
            raise AnalysisError('%s: strain component %d is not linear in the amplitudes after dropping the state terms: %s' % (fname, q, nfs(rem)[:120]))
        for key, coeff in lin.items():
            cls, k = key[2:-1].split(';')
            B.setdefault((int(cls), int(k)), [P()] * ne)
            row = list(B[(int(cls), int(k))])
            row[q] = coeff
            B[(int(cls), int(k))] = row
    return B, ev.trig, basis, ne


# --------------------------------------------------------------------------
# integration

def freq_of(a, var):
    """argument polynomial a = w*var + phase -> (w, phase)"""
    w, ph = P(), P()
    for m, c in a.t.items():
        d = dict(m)
        e = d.get(var, 0)
        if e == 0:
            ph = ph + P({m: c})
        elif e == 1:
            d.pop(var)
            w = w + P({tuple(sorted(d.items())): c})
        else:
            raise Undecided('argument not linear in %s: %s' % (var, nfs(a)))
    return w, ph


def harmonic_nonzero(w, ne_pairs):
    """is the integer harmonic number w (polynomial in j2, l2) certainly non-zero?  j2, l2 >= 1"""
    if set(w.t) <= {()}:
        return bool(w.t)
    coef = {}
    for m, c in w.t.items():
        if not m:
            coef['1'] = c
        elif len(m) == 1 and m[0][1] == 1:
            coef[m[0][0]] = c
        else:
            return None
    vs = [k for k in coef if k != '1']
    if '1' not in coef:
        if all(coef[v] > 0 for v in vs) or all(coef[v] < 0 for v in vs):
            return True
        if len(vs) == 2 and coef[vs[0]] == -coef[vs[1]] and (tuple(sorted(vs)) in ne_pairs):
            return True
    return None


def theta_integral(p, trig, ne_pairs=()):
    """int_0^{2 pi} p dt for integer harmonics"""
    q = tnormal(p, trig, select=lambda a: 't' in a.atoms())
    out = P()
    for m, c in q.t.items():
        tat = [s_ for s_, e in m if s_ in trig and 't' in trig[s_][1].atoms()]
        if not tat:
            if any(s_ == 't' for s_, e in m):
                raise Undecided('polynomial dependence on t')
            out = out + P({m: c}) * C(2) * S('pi')
            continue
        if len(tat) > 1 or dict(m)[tat[0]] != 1:
            raise Undecided('normal form left a product of theta harmonics')
        w, ph = freq_of(trig[tat[0]][1], 't')
        nz = harmonic_nonzero(w, ne_pairs)
        if nz is None:
            raise Undecided('harmonic number %s not decidable' % nfs(w))
        if not nz:
            raise Undecided('zero harmonic survived the normal form')
        # non-zero integer harmonic: integrates to zero over the full circle
    return out


def is_pi_integer(a, index_vars):
    """a == pi * n with n an integer-coefficient polynomial in index variables -> n, else None"""
    n = P()
    for m, c in a.t.items():
        d = dict(m)
        if d.pop('pi', 0) != 1:
            return None
        if c.denominator != 1:
            return None
        if any(s_ not in index_vars or e != 1 for s_, e in d.items()) or len(d) > 1:
            return None
        n = n + P({tuple(sorted(d.items())): c})
    return n


def eval_trig_at(kind, w, point, trig, index_vars):
    """sin/cos(w*point) with the closed values at 0 and at multiples of pi"""
    a = w * point
    if not a.t:
        return C(1) if kind == 'cos' else P()
    n = is_pi_integer(a, index_vars)
    if n is not None:
        return sign_pow(n) if kind == 'cos' else P()
    return trig_atom(kind, a, trig)


def x_integral(p, trig, lo, hi, index_vars):
    """int_lo^hi p dx ; p polynomial in x with (after normal form) at most one sin/cos(w x) per monomial"""
    q = tnormal(p, trig, select=lambda a: 'x' in a.atoms())
    out = P()
    for m, c in q.t.items():
        d = dict(m)
        px = d.pop('x', 0)
        if px < 0:
            raise Undecided('negative power of x')
        xat = [s_ for s_ in d if s_ in trig and 'x' in trig[s_][1].atoms()]
        if len(xat) > 1 or (xat and d[xat[0]] != 1):
            raise Undecided('normal form left a product of x harmonics')
        if not xat:
            rest = P({tuple(sorted(d.items())): c})
            out = out + rest * (hi ** (px + 1) - lo ** (px + 1)) * C(Fr(1, px + 1))
            continue
        kind, a = trig[xat[0]]
        d.pop(xat[0])
        rest = P({tuple(sorted(d.items())): c})
        w, ph = freq_of(a, 'x')
        if ph.t:
            raise Undecided('phase in an x harmonic: ' + nfs(a))
        iw = inv_poly(w)

        # antiderivative of x^p kind(w x) as a list of (poly-in-x power, kind, coefficient P)
        def anti(pw, kd):
            # returns list of (power, kind, coeff)
            if kd == 'cos':
                first = [(pw, 'sin', iw)]
                if pw == 0:
                    return first
                return first + [(q_, k_, -c_ * C(pw) * iw) for q_, k_, c_ in anti(pw - 1, 'sin')]
            first = [(pw, 'cos', -iw)]
            if pw == 0:
                return first
            return first + [(q_, k_, c_ * C(pw) * iw) for q_, k_, c_ in anti(pw - 1, 'cos')]
        for q_, k_, c_ in anti(px, kind):
            for point, sgn in ((hi, 1), (lo, -1)):
                out = out + rest * c_ * (point ** q_) * eval_trig_at(k_, w, point, trig, index_vars) * C(sgn)
    return out


# --------------------------------------------------------------------------
# kernel side

def fname_F(p, q):
    """canonical laminate entry under the symmetries established by C01 (A, B, D each symmetric)"""
    if p < 6 and q < 6:
        from .panelk import abd_name
        return abd_name(p, q)
    p, q = (p, q) if p <= q else (q, p)
    return 'F%d%d' % (p, q)


def kernel_emits(unit, fname, cone):
    fn = unit.func(fname)
    if fn is None:
        raise AnalysisError('anchor vanished: %s in %s' % (fname, unit.rel))
    coo = kernel.find_coo(fn)
    if len(coo) != 1:
        raise AnalysisError('%s.%s: coo triple not found' % (unit.rel, fname))
    varr, rarr, carr, _ = coo[0]

    def hook(name, idx):
        if name == 'F' and len(idx) == 2:
            try:
                return S(fname_F(int(idx[0]), int(idx[1])))
            except ValueError:
                return None
        return None
    frozen = ('xa', 'xb', 'r', 'sina', 'cosa') if cone else ()
    ev = SEval(unit, fn, sub_hook=hook, frozen=frozen)
    ev.den_names = set()
    ev.run()
    out, bad = [], []
    r = c = None
    for arr, idx, val, line, loops, guards, aug in ev.pstores:
        if arr == rarr:
            r = val
        elif arr == carr:
            c = val
        elif arr == varr:
            if val is None or r is None or c is None:
                bad.append(line)
                continue
            out.append({'row': r, 'col': c, 'val': val, 'line': line,
                        'guards': tuple(g for g in guards if not g.startswith('skip-if'))})
    return out, ev.trig, bad


# --------------------------------------------------------------------------
# condition cells

class Cell:
    def __init__(self, name, subs=None, ne=(), ne0=()):
        self.name = name
        self.subs = subs or {}
        self.ne = {tuple(sorted(p)) for p in ne}
        self.ne0 = set(ne0)

    def val(self, a):
        a = a.strip()
        if a.lstrip('-').isdigit():
            return C(int(a))
        return S(a).subs(self.subs)

    def atom(self, txt):
        """True (implied) / False (contradicted) / None (undetermined)"""
        for op in ('==', '!='):
            if op in txt:
                a, b = txt.split(op)
                va, vb = self.val(a), self.val(b)
                same = (va == vb)
                diff = False
                ka, kb = nfs(va), nfs(vb)
                if not same:
                    if set(va.t) <= {()} and set(vb.t) <= {()}:
                        diff = True
                    elif tuple(sorted((a.strip(), b.strip()))) in self.ne or tuple(sorted((ka, kb))) in {tuple(sorted((nfs(S(x).subs(self.subs)), nfs(S(y).subs(self.subs))))) for x, y in self.ne}:
                        diff = True
                    elif (not vb.t and va.atoms() <= self.ne0 and len(va.t) == 1) or (not va.t and vb.atoms() <= self.ne0 and len(vb.t) == 1):
                        diff = True
                if op == '==':
                    return True if same else False if diff else None
                return True if diff else False if same else None
        raise AnalysisError('unrecognised guard atom: ' + txt)

    def conj(self, txt):
        vals = [self.atom(a) for a in txt.split('and')]
        if any(v is False for v in vals):
            return False
        if all(v is True for v in vals):
            return True
        return None

    def applies(self, guards):
        for g in guards:
            if g.startswith('if '):
                v = self.conj(g[3:])
            elif g.startswith('else '):
                v = self.conj(g[5:])
                v = None if v is None else (not v)
            else:
                raise AnalysisError('unrecognised guard: ' + g)
            if v is False:
                return False
            if v is None:
                raise AnalysisError('guard %r is not decided by the condition cell %s' % (g, self.name))
        return True

    def nonzero(self, q):
        """is the polynomial q (in index variables) certainly non-zero in this cell? indices are >= 0"""
        coef = {}
        for m, c in q.t.items():
            if not m:
                coef['1'] = c
            elif len(m) == 1 and m[0][1] == 1:
                coef[m[0][0]] = c
            else:
                return False
        vs = [k for k in coef if k != '1']
        if '1' in coef:
            return not vs
        if len(vs) == 1:
            return vs[0] in self.ne0
        if len(vs) == 2:
            a, b = vs
            if coef[a] == -coef[b]:
                return tuple(sorted((a, b))) in self.ne
            if coef[a] * coef[b] > 0:
                return tuple(sorted((a, b))) in self.ne or a in self.ne0 or b in self.ne0
        return False


def cells_for(cr, cc, rv, cv):
    if cr == 0 and cc == 0:
        return [Cell('any')]
    if cr == 0 and cc == 1:
        v, = cv
        return [Cell('%s!=0' % v, ne0=[v]), Cell('%s==0' % v, subs={v: P()})]
    if cr == 1 and cc == 1:
        (a,), (b,) = rv, cv
        return [Cell('%s==%s!=0' % (b, a), subs={b: S(a)}, ne0=[a]), Cell('%s==%s==0' % (b, a), subs={b: P(), a: P()}),
                Cell('%s!=%s' % (b, a), ne=[(a, b)])]
    if cr == 2 and cc == 2:
        (a, j), (b, l) = rv, cv
        return [Cell('%s==%s!=0,%s==%s' % (b, a, l, j), subs={b: S(a), l: S(j)}, ne0=[a]),
                Cell('%s==%s==0,%s==%s' % (b, a, l, j), subs={b: P(), a: P(), l: S(j)}),
                Cell('%s!=%s,%s==%s' % (b, a, l, j), subs={l: S(j)}, ne=[(a, b)]),
                Cell('%s!=%s' % (l, j), ne=[(j, l)], subs={})]
    return [Cell('any')]


# --------------------------------------------------------------------------
# oracle

DEFAULT_VARS = {0: (), 1: ('i1',), 2: ('i2', 'j2')}
DEFAULT_COL_VARS = {0: (), 1: ('k1',), 2: ('k2', 'l2')}
INDEX_VARS = {'i1', 'k1', 'i2', 'k2', 'j2', 'l2'}


class Oracle:
    def __init__(self, B, trig, ne, cone):
        self.B, self.trig, self.ne, self.cone = B, dict(trig), ne, cone
        # the transverse-shear block (rows 6,7 of the first-order-shear laminate matrix) is uncoupled from the
        # membrane/bending block: Laminate.calc_constitutive_matrix fills ABDE[0:6,0:6] and ABDE[6:8,6:8] only (C01)
        self.F = [[S(fname_F(p, q)) if (p < 6) == (q < 6) else P() for q in range(ne)] for p in range(ne)]

    def brow(self, cls, k, vars_):
        row = self.B.get((cls, k))
        if row is None:
            return None
        canon = DEFAULT_VARS[cls]
        mp = {c: S(v) for c, v in zip(canon, vars_) if c != v}
        return [trig_subs(x, self.trig, mp) for x in row]

    def entry(self, rkey, ckey, cell):
        (cr, kr, rv), (cc, kc, cv) = rkey, ckey
        br, bc = self.brow(cr, kr, rv), self.brow(cc, kc, cv)
        if br is None or bc is None:
            return P()
        integrand = P()
        for p in range(self.ne):
            if not br[p].t:
                continue
            for q in range(self.ne):
                if not bc[q].t:
                    continue
                integrand = integrand + br[p] * self.F[p][q] * bc[q]
        integrand = integrand * S('r')
        if not self.cone:
            integrand = integrand.subs({'sina': P(), 'cosa': C(1), 'r': S('r2')})
        integrand = trig_subs(integrand, self.trig, cell.subs)
        ne_pairs = {tuple(sorted(p)) for p in cell.ne}
        it = theta_integral(integrand, self.trig, ne_pairs)
        if not it.t:
            return it
        lo, hi = (S('xa'), S('xb')) if self.cone else (P(), S('L'))
        return reduce_sg(x_integral(it, self.trig, lo, hi, INDEX_VARS))


def compare_kernel(unit, fname, B, trig, basis, ne, cone, skip_dofs=((0, 2),), report=None):
    """yields (block, cell name, dof pair, ok, detail, line) for every live entry"""
    emits, ktrig, bad = kernel_emits(unit, fname, cone)
    if bad:
        raise AnalysisError('%s.%s: %d emits could not be evaluated (lines %s)' % (unit.rel, fname, len(bad), bad[:3]))
    orc = Oracle(B, trig, ne, cone)
    orc.trig.update(ktrig)
    groups = {}
    for e in emits:
        rk = basis.classify(e['row'])
        ck = basis.classify(e['col'])
        groups.setdefault((rk[0], ck[0]), []).append((rk, ck, e))
    dofs = {0: sorted(k for c, k in B if c == 0), 1: sorted(k for c, k in B if c == 1), 2: sorted(k for c, k in B if c == 2)}
    results = []
    for cr in (0, 1, 2):
        for cc in (0, 1, 2):
            if cr > cc:
                # never live (row > col): anything emitted there is dropped by make_symmetric
                continue
            es = groups.get((cr, cc), [])
            rv = es[0][0][2] if es else DEFAULT_VARS[cr]
            cv = es[0][1][2] if es else (DEFAULT_COL_VARS[cc] if cr == cc else DEFAULT_VARS[cc])
            for rk, ck, e in es:
                if rk[2] != rv or ck[2] != cv:
                    raise AnalysisError('%s.%s: block (%d,%d) uses several index-variable sets' % (unit.rel, fname, cr, cc))
            for cell in cells_for(cr, cc, rv, cv):
                same_base = cr == cc and all(nfs(S(b).subs(cell.subs)) == nfs(S(a).subs(cell.subs)) for a, b in zip(rv, cv))
                for kr in dofs[cr]:
                    for kc in dofs[cc]:
                        if (cr, kr) in skip_dofs or (cc, kc) in skip_dofs:
                            continue
                        if same_base and kr > kc:
                            continue
                        kval = P()
                        line = 0
                        nem = 0
                        for rk, ck, e in es:
                            if rk[1] == kr and ck[1] == kc and cell.applies(e['guards']):
                                kval = kval + e['val']
                                line = line or e['line']
                                nem += 1
                        kval = trig_subs(kval, orc.trig, cell.subs)
                        kval = reduce_sg(tnormal(kval, orc.trig))
                        try:
                            oval = orc.entry((cr, kr, rv), (cc, kc, cv), cell)
                            oval = reduce_sg(tnormal(oval, orc.trig))
                            (kc_, oc_), invs = clear_inv([kval, oval])
                            kc_, oc_ = reduce_sg(tnormal(kc_, orc.trig)), reduce_sg(tnormal(oc_, orc.trig))
                            ok = kc_.close(oc_)
                            detail = '' if ok else '; '.join(kc_.diffterms(oc_, 3))
                            unjust = [n for n in invs if not cell.nonzero(INVREG[n])]
                        except Undecided as ex:
                            ok, detail, unjust = None, str(ex), []
                        results.append({'block': (cr, cc), 'cell': cell.name, 'dof': (kr, kc), 'ok': ok, 'detail': detail, 'line': line,
                                        'emits': nem, 'unjustified_div': unjust, 'zero': not oval.t if ok is not None else None})
    return results


# --------------------------------------------------------------------------
# R16.4: cone kernel at zero semi-vertex angle, summed over the sections, vs the cylinder kernel

def generic_emits(unit, fname, frozen=(), fixed=None):
    fn = unit.func(fname)
    if fn is None:
        return None, None, None
    coo = kernel.find_coo(fn)
    if len(coo) != 1:
        raise AnalysisError('%s.%s: coo triple not found' % (unit.rel, fname))
    varr, rarr, carr, _ = coo[0]

    def hook(name, idx):
        if name == 'F' and len(idx) == 2:
            try:
                return S(fname_F(int(idx[0]), int(idx[1])))
            except ValueError:
                return None
        return None
    ev = SEval(unit, fn, sub_hook=hook, frozen=frozen)
    ev.den_names = set()
    fixed = fixed or {}
    ev.fixed = fixed
    for k, v in fixed.items():
        ev.env[k] = v
    orig_assign = ev.assign

    def assign(t, value, st, aug):
        if isinstance(t, ast.Name) and t.id in fixed:
            ev.env[t.id] = fixed[t.id]
            return
        orig_assign(t, value, st, aug)
    ev.assign = assign
    ev.run()
    out, bad = [], []
    r = c = None
    for arr, idx, val, line, loops, guards, aug in ev.pstores:
        if arr == rarr:
            r = val
        elif arr == carr:
            c = val
        elif arr == varr:
            if val is None or r is None or c is None:
                bad.append(line)
                continue
            out.append({'row': r, 'col': c, 'val': val, 'line': line,
                        'guards': tuple(g for g in guards if not g.startswith('skip-if'))})
    return out, ev.trig, bad


def section_defs(unit, fname):
    """definitions of xa, xb in the section loop as polynomials (for the tiling obligation)"""
    fn = unit.func(fname)
    defs = {}
    if fn is None:
        return defs
    ev = SEval(unit, fn)
    ev.env['section'] = S('section')
    for st in ast.walk(fn):
        if isinstance(st, ast.Assign) and len(st.targets) == 1 and isinstance(st.targets[0], ast.Name) and st.targets[0].id in ('xa', 'xb'):
            try:
                defs.setdefault(st.targets[0].id, []).append(ev.pev(st.value))
            except (Unsupported, NonMonomialDivision):
                defs.setdefault(st.targets[0].id, []).append(None)
    return defs


def subst_point(p, trig, var, point, index_vars):
    """p with var := point, including inside trig arguments (closed values at 0 and at multiples of pi)"""
    out = P()
    for m, c in p.t.items():
        term = P({(): c})
        for s_, e in m:
            if s_ == var:
                term = term * point ** e
            elif s_ in trig and var in trig[s_][1].atoms():
                kind, a = trig[s_]
                w, ph = freq_of(a, var)
                if ph.t:
                    raise Undecided('mixed argument ' + nfs(a))
                term = term * eval_trig_at(kind, w, point, trig, index_vars) ** e
            else:
                term = term * P({((s_, e),): Fr(1)})
        out = out + term
    return out


def telescope(E, trig, index_vars):
    """E(xa, xb) = H(xb) - H(xa)  ->  H(L) - H(0); raises Undecided when E is not of that form"""
    E = tnormal(E, trig)
    hb, ha, mixed, const = P(), P(), P(), P()
    for m, c in E.t.items():
        has = {'xa': False, 'xb': False}
        for s_, e in m:
            for v in ('xa', 'xb'):
                if s_ == v or (s_ in trig and v in trig[s_][1].atoms()):
                    has[v] = True
        t = P({m: c})
        if has['xa'] and has['xb']:
            mixed = mixed + t
        elif has['xb']:
            hb = hb + t
        elif has['xa']:
            ha = ha + t
        else:
            const = const + t
    if mixed.t:
        raise Undecided('section expression does not separate into H(xb) - H(xa): ' + '; '.join(mixed.diffterms(P(), 2)))
    if const.t and not const.close(P(), ref=E):
        raise Undecided('section expression has a part independent of the section limits')
    ha_as_b = subst_point(ha, trig, 'xa', S('xb'), index_vars)
    ha_as_b = tnormal(ha_as_b, trig)
    if not (ha_as_b + hb).close(P(), ref=hb if hb.t else None):
        raise Undecided('section expression is not a difference H(xb) - H(xa)')
    return reduce_sg(subst_point(hb, trig, 'xb', S('L'), index_vars) - subst_point(hb, trig, 'xb', P(), index_vars))


def cone0_vs_cyl(unit, fcone, fcyl):
    """compare, per condition cell and amplitude pair, sum over sections of the cone kernel at alpha = 0 with the cylinder kernel"""
    basis = Basis(unit)
    ce, ctrig, cbad = generic_emits(unit, fcone, frozen=('xa', 'xb'), fixed={'sina': P(), 'cosa': C(1)})
    ye, ytrig, ybad = generic_emits(unit, fcyl)
    if ce is None or ye is None:
        return None
    if cbad or ybad:
        raise AnalysisError('%s: emits not evaluated: %s lines %s' % (unit.rel, fcone if cbad else fcyl, (cbad or ybad)[:3]))
    trig = dict(ctrig)
    trig.update(ytrig)

    def group(emits):
        g = {}
        for e in emits:
            rk = basis.classify(e['row'])
            ck = basis.classify(e['col'])
            g.setdefault((rk[0], ck[0]), []).append((rk, ck, e))
        return g
    gc, gy = group(ce), group(ye)
    results = []
    for cr in (0, 1, 2):
        for cc in (0, 1, 2):
            if cr > cc:
                continue
            esc, esy = gc.get((cr, cc), []), gy.get((cr, cc), [])
            if not esc and not esy:
                continue
            # the two kernels may name the index variables of a block differently: rename the cylinder's to the cone's
            rvc = esc[0][0][2] if esc else None
            cvc = esc[0][1][2] if esc else None
            rvy = esy[0][0][2] if esy else rvc
            cvy = esy[0][1][2] if esy else cvc
            rv, cv = rvc or rvy, cvc or cvy
            ren = {}
            for a, b in zip(rvy + cvy, rv + cv):
                if a != b:
                    ren[a] = S(b)
            for rk, ck, e in esc:
                if rk[2] != rv or ck[2] != cv:
                    raise AnalysisError('%s.%s: block (%d,%d) uses several index-variable sets' % (unit.rel, fcone, cr, cc))
            for rk, ck, e in esy:
                if rk[2] != rvy or ck[2] != cvy:
                    raise AnalysisError('%s.%s: block (%d,%d) uses several index-variable sets' % (unit.rel, fcyl, cr, cc))
            dr = sorted({rk[1] for rk, ck, e in esc + esy})
            dc = sorted({ck[1] for rk, ck, e in esc + esy})
            for cell in cells_for(cr, cc, rv, cv):
                celly = cell
                if ren:
                    inv = {str(nfs(v)): k for k, v in ren.items()}
                    celly = cells_for(cr, cc, rvy, cvy)[[c_.name for c_ in cells_for(cr, cc, rv, cv)].index(cell.name)]
                same_base = cr == cc and all(nfs(S(b).subs(cell.subs)) == nfs(S(a).subs(cell.subs)) for a, b in zip(rv, cv))
                for kr in dr:
                    for kc in dc:
                        if same_base and kr > kc:
                            continue
                        E, Y = P(), P()
                        line = 0
                        nE = nY = 0
                        for rk, ck, e in esc:
                            if rk[1] == kr and ck[1] == kc and cell.applies(e['guards']):
                                E = E + e['val']
                                line = line or e['line']
                                nE += 1
                        for rk, ck, e in esy:
                            if rk[1] == kr and ck[1] == kc and celly.applies(e['guards']):
                                Y = Y + e['val']
                                nY += 1
                        if not nE and not nY:
                            continue
                        E = trig_subs(E, trig, cell.subs)
                        Y = trig_subs(trig_subs(Y, trig, ren), trig, cell.subs)
                        try:
                            T = telescope(E, trig, INDEX_VARS)
                            Y = reduce_sg(tnormal(Y, trig))
                            (Tc, Yc), invs = clear_inv([T, Y])
                            Tc, Yc = reduce_sg(tnormal(Tc, trig)), reduce_sg(tnormal(Yc, trig))
                            ok = Tc.close(Yc)
                            detail = '' if ok else '; '.join(Tc.diffterms(Yc, 3))
                        except Undecided as ex:
                            ok, detail = None, str(ex)
                        results.append({'block': (cr, cc), 'cell': cell.name, 'dof': (kr, kc), 'ok': ok, 'detail': detail, 'line': line, 'cone_emits': nE, 'cyl_emits': nY})
    return results
