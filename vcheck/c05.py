"""C05 - buckling solver: necessary structural clauses on the three sibling drivers."""
import ast
import re

from . import eigk, pyflow, pyrules
from .eigk import Driver, transforms_on_paths
from .pyrules import module, norm
from .pyflow import callee_name, dotted

LEVEL = 'other'
SITES = [('compmech/analysis/linear_buckling.py', None, 'lb'),
         ('compmech/panel/_panel.py', 'Panel', 'lb'),
         ('compmech/conecyl/conecyl.py', 'ConeCyl', 'lb')]


def roles_for(fn, cls):
    params = [a.arg for a in fn.args.args]

    def roles(txt):
        if cls is None:
            # analysis.lb(K, KG, ...): roles by parameter position
            if txt == params[0]:
                return 'K'
            if txt == params[1]:
                return 'KG'
            return None
        if re.search(r'self\.kG0', txt) and re.search(r'self\.k0\b', txt):
            return None     # a combination: decided by the operands
        if re.search(r'self\.kG0', txt):
            return 'KG'
        if re.search(r'self\.k0\b', txt):
            return 'K'
        return None
    return roles


def run(chk):
    chk.level = LEVEL
    chk.trusted = ['python3 ast', 'statement CFG of vcheck/pyflow.py', 'documented semantics of scipy eigsh/eigh: A v = w M v']
    chk.assumptions = ['accuracy, ordering and selection of the eigenvalues returned by ARPACK/LAPACK are not decided',
                       'K+kG0_* combinations of ConeCyl.lb (combined load cases) count as the stiffness side']
    pyrules.check_remove_null_cols(chk, 'R05.2')
    pyrules.check_unconditional_recompute(chk, 'R05.5', 'compmech/panel/_panel.py', 'Panel', 'lb', 2)
    nsites = 0
    tables = {}
    for rel, cls, meth in SITES:
        m = module(rel)
        fn = m.method(cls, meth) if cls else m.function(meth)
        fname = '%s.%s' % (cls, meth) if cls else meth
        drv = Driver(rel, fn, fname, roles_for(fn, cls))
        chk.need(drv.sites, '%s: no eigen-solver call found' % fname)
        for k, site in enumerate(sorted(drv.sites, key=lambda s: s['line'])):
            nsites += 1
            ra = drv.role_of(site['A'], site['node'])
            rm = drv.role_of(site['M'], site['node'])
            tag = 'solver call #%d (%s)' % (k + 1, site['solver'])
            # R05.1 pencil / transform table
            stores = None
            seqs = transforms_on_paths(drv, site)
            base = lambda r: 'K' if r and r.replace('-', '') in ('K', 'K+KG') and r != 'KG' else r
            if (ra, base(rm)) == ('KG', 'K'):
                want = {('neginv',)}
                wtxt = 'A=KG, M=K solves KG v = w K v: load factor = -1/w'
            elif (base(ra), rm) == ('K', 'KG'):
                want = {('neg',)}
                wtxt = 'A=K, M=KG solves K v = w KG v: load factor = -w'
            else:
                want = None
                wtxt = 'one operand the stiffness matrix, the other the geometric matrix'
            chk.ob('R05.1', want is not None, rel, fname, tag + ' pencil roles', line=site['line'], expected=wtxt, got='A:%s M:%s' % (ra, rm),
                   sample='%s %s: A=%s, M=%s' % (fname, tag, ra, rm))
            if want is not None:
                chk.ob('R05.1', seqs == want, rel, fname, tag + ' eigenvalue transform', line=site['line'],
                       expected='%s, applied exactly once on every path to the result' % wtxt, got=sorted(seqs),
                       sample='%s %s: transform sequences on all paths %s' % (fname, tag, sorted(seqs)))
            tables[(fname, k)] = (ra, base(rm), tuple(sorted(seqs)))
            # the eigenvalues and vectors come from the same call
            chk.ob('R05.1', site['targets'] in ('(eigvals,eigvecs)', '(eigvals,peigvecs)'), rel, fname, tag + ' result binding', line=site['line'], got=site['targets'])
            r05_2(chk, drv, site, tag)
    chk.floor('R05 solver call sites', nsites, 7)
    # R05.4 siblings agree on roles and transform
    kinds = {(a, m, s) for (a, m, s) in tables.values()}
    chk.ob('R05.4', len(kinds) == 1, 'compmech/analysis/linear_buckling.py', 'lb / Panel.lb / ConeCyl.lb', 'sibling agreement',
           expected='all solver calls of the three drivers use the same pencil and transform', got=sorted(map(str, kinds)),
           sample='siblings: %s' % sorted(map(str, kinds)))
    chk.explanation = ('for every eigsh/eigh call of lb, Panel.lb and ConeCyl.lb the roles of the operands are resolved by '
                       'reaching definitions, the eigenvalue transform applied on every CFG path is compared with the pencil, and '
                       'the null-column reduction is paired with the expansion of the eigenvectors')


def r05_2(chk, drv, site, tag):
    """reduce/expand pairing + column agreement for one solver call"""
    cfg = drv.cfg
    rel, fname = drv.rel, drv.fname
    # is the solver operand a product of remove_null_cols ?
    reds = []
    for opnd in (site['A'], site['M']):
        if isinstance(opnd, ast.Name):
            for d in drv.reaching(opnd.id, site['node']):
                st = cfg.nodes[d]
                # follow X = X.toarray()
                hops = 0
                while isinstance(st, ast.Assign) and isinstance(st.targets[0], ast.Name) and hops < 4 and \
                        isinstance(eigk.strip_view(st.value), ast.Name) and eigk.strip_view(st.value).id == opnd.id and st.value is not eigk.strip_view(st.value):
                    ds = drv.reaching(opnd.id, d)
                    if not ds:
                        break
                    d = ds[0]
                    st = cfg.nodes[d]
                    hops += 1
                if isinstance(st, ast.Assign) and isinstance(st.value, ast.Call) and callee_name(st.value) == 'remove_null_cols':
                    reds.append((d, st))
    vec = site['targets'].strip('()').split(',')[1] if site['targets'] else None
    if not reds:
        # unreduced call: the vectors must be used as returned
        chk.ob('R05.2', vec == 'eigvecs', rel, fname, tag + ' unreduced vectors used directly', line=site['line'], got=vec)
        return
    d, st = reds[0]
    chk.ob('R05.2', len({x[0] for x in reds}) == 1, rel, fname, tag + ' both operands from one reduction', line=site['line'],
           expected='the solver receives the pair reduced by the same remove_null_cols call')
    # remove_null_cols derives the retained columns from its FIRST argument: that must be the stiffness matrix
    # (positive definite on the active amplitudes), never the geometric matrix (null on all in-plane amplitudes)
    first = st.value.args[0] if st.value.args else None
    r1 = drv.role_of(first, d)
    chk.ob('R05.2', r1 is not None and r1.replace('-', '') in ('K', 'K+KG') and r1 != 'KG', rel, fname, tag + ' null-column pattern taken from the stiffness matrix',
           line=st.lineno, expected='remove_null_cols(<stiffness>, <geometric>): the first argument decides which amplitudes are kept', got='first argument has role %s' % r1,
           detail='' if r1 == 'K' else 'the retained amplitudes are those where the %s matrix has entries; amplitudes with stiffness but no geometric stiffness (u, v) are dropped from the eigenproblem' % r1,
           sample='%s %s: remove_null_cols first argument role %s' % (fname, tag, r1))
    used = norm(st.targets[0].elts[-1]) if isinstance(st.targets[0], ast.Tuple) else None
    # expansion: zeros((orig_size, ncols)); eigvecs[used, :] = peigvecs[...]
    after = cfg.reachable(site['node'])
    scat = [cfg.nodes[i] for i in after if isinstance(cfg.nodes[i], ast.Assign) and isinstance(cfg.nodes[i].targets[0], ast.Subscript)
            and norm(cfg.nodes[i].targets[0]).startswith('eigvecs[')]
    alloc = [cfg.nodes[i] for i in after if isinstance(cfg.nodes[i], ast.Assign) and norm(cfg.nodes[i].targets[0]) == 'eigvecs'
             and isinstance(cfg.nodes[i].value, ast.Call) and dotted(cfg.nodes[i].value.func) in ('np.zeros', 'zeros')]
    # nearest ones (same branch): smallest line after the call
    scat = sorted([s for s in scat if s.lineno > site['line']], key=lambda s: s.lineno)[:1]
    alloc = sorted([s for s in alloc if s.lineno > site['line']], key=lambda s: s.lineno)[:1]
    ok = bool(scat and alloc)
    det = ''
    ncols = None
    if ok:
        idx = norm(scat[0].targets[0])
        ok = idx == 'eigvecs[%s,:]' % used
        src = norm(scat[0].value)
        ok = ok and (src == vec or src.startswith(vec + '['))
        shape = alloc[0].value.args[0]
        if isinstance(shape, ast.Tuple) and len(shape.elts) == 2:
            rows = shape.elts[0]
            ncols = norm(shape.elts[1])
            # rows: a size captured from the *unreduced* matrix, i.e. defined before the reduction
            if isinstance(rows, ast.Name):
                rd = drv.reaching(rows.id, cfg.node_of_stmt(alloc[0]))
                okr = bool(rd) and all(cfg.must_pass(d, {x}) and d != x for x in rd) and all(re.search(r'\.shape\[0\]$', norm(cfg.nodes[x].value)) for x in rd)
                ok = ok and okr
                det = 'rows=%s defined at %s' % (rows.id, [cfg.nodes[x].lineno for x in rd])
            else:
                ok = False
        else:
            ok = False
    chk.ob('R05.2', ok, rel, fname, tag + ' expansion of the reduced eigenvectors', line=site['line'], detail=det,
           expected='eigvecs = zeros((size of the unreduced matrix, ncols)); eigvecs[%s, :] = reduced vectors' % used,
           got=[norm(s)[:90] for s in alloc + scat], sample='%s %s: %s' % (fname, tag, [norm(s)[:70] for s in alloc + scat]))
    # R05.3 column agreement
    if ncols is not None and scat:
        kexp = norm(site['k']) if site['k'] is not None else None
        src = norm(scat[0].value)
        kdefs = pyrules.resolve(drv.fn, site['k']) if site['k'] is not None else None
        # accepted: the buffer is sized from the very array that is scattered into it, or (sparse) from the solver's k
        okc = (ncols == src + '.shape[1]') or (site['solver'] in ('eigsh', 'eigs') and kexp is not None and ncols in (kexp, kdefs) and src == vec)
        chk.ob('R05.3', okc, rel, fname, tag + ' column agreement', line=site['line'],
               expected='the eigenvector buffer has as many columns as the array scattered into it, for every matrix size',
               got='buffer %s columns, source %s, solver k=%s' % (ncols, src, kdefs),
               detail='' if okc else 'the buffer always has %s columns but the scattered array %s has a different column count for small matrices (k = %s / min(n_reduced, ...)): ValueError' % (ncols, src, kdefs),
               sample='%s %s: buffer %s columns, source %s' % (fname, tag, ncols, src))
