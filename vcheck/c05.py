"""C05 - buckling solver: necessary structural clauses on the three sibling drivers."""
import ast
import re

from . import eigk, pyflow, pyrules
from .eigk import Driver, transforms_on_paths
from .pyrules import module, norm
from .pyflow import callee_name, dotted

LEVEL = 'other'
SITES = [('compmech/analysis/linear_buckling.py', None, 'lb'),
         ('compmech/panel/_panel.py', 'Panel', 'lb'),
         ('compmech/conecyl/conecyl.py', 'ConeCyl', 'lb')]


def roles_for(fn, cls):
    params = [a.arg for a in fn.args.args]

    def roles(txt):
        if cls is None:
            # analysis.lb(K, KG, ...): roles by parameter position
            if txt == params[0]:
                return 'K'
            if txt == params[1]:
                return 'KG'
            return None
        if re.search(r'self\.kG0', txt) and re.search(r'self\.k0\b', txt):
            return None     # a combination: decided by the operands
        if re.search(r'self\.kG0', txt):
            return 'KG'
        if re.search(r'self\.k0\b', txt):
            return 'K'
        return None
    return roles


def run(chk):
    chk.level = LEVEL
    chk.trusted = ['python3 ast', 'statement CFG of vcheck/pyflow.py', 'documented semantics of scipy eigsh/eigh: A v = w M v']
    chk.assumptions = ['accuracy, ordering and selection of the eigenvalues returned by ARPACK/LAPACK are not decided',
                       'K+kG0_* combinations of ConeCyl.lb (combined load cases) count as the stiffness side']
    pyrules.check_remove_null_cols(chk, 'R05.2')
    pyrules.check_unconditional_recompute(chk, 'R05.5', 'compmech/panel/_panel.py', 'Panel', 'lb', 2)
    nsites = 0
    tables = {}
    for rel, cls, meth in SITES:
        m = module(rel)
        fn = m.method(cls, meth) if cls else m.function(meth)
        fname = '%s.%s' % (cls, meth) if cls else meth
        drv = Driver(rel, fn, fname, roles_for(fn, cls))
        chk.need(drv.sites, '%s: no eigen-solver call found' % fname)
        for k, site in enumerate(sorted(drv.sites, key=lambda s: s['line'])):
            nsites += 1
            ra = drv.role_of(site['A'], site['node'])
            rm = drv.role_of(site['M'], site['node'])
            tag = 'solver call #%d (%s)' % (k + 1, site['solver'])
            # R05.1 pencil / transform table
            stores = None
            seqs = transforms_on_paths(drv, site)
            base = lambda r: 'K' if r and r.replace('-', '') in ('K', 'K+KG') and r != 'KG' else r
            if (ra, base(rm)) == ('KG', 'K'):
                want = {('neginv',)}
                wtxt = 'A=KG, M=K solves KG v = w K v: load factor = -1/w'
            elif (base(ra), rm) == ('K', 'KG'):
                want = {('neg',)}
                wtxt = 'A=K, M=KG solves K v = w KG v: load factor = -w'
            else:
                want = None
                wtxt = 'one operand the stiffness matrix, the other the geometric matrix'
            chk.ob('R05.1', want is not None, rel, fname, tag + ' pencil roles', line=site['line'], expected=wtxt, got='A:%s M:%s' % (ra, rm),
                   sample='%s %s: A=%s, M=%s' % (fname, tag, ra, rm))
            if want is not None:
                chk.ob('R05.1', seqs == want, rel, fname, tag + ' eigenvalue transform', line=site['line'],
                       expected='%s, applied exactly once on every path to the result' % wtxt, got=sorted(seqs),
                       sample='%s %s: transform sequences on all paths %s' % (fname, tag, sorted(seqs)))
            tables[(fname, k)] = (ra, base(rm), tuple(sorted(seqs)))
            # the eigenvalues and vectors come from the same call
            chk.ob('R05.1', site['targets'] in ('(eigvals,eigvecs)', '(eigvals,peigvecs)'), rel, fname, tag + ' result binding', line=site['line'], got=site['targets'])
            r05_2(chk, drv, site, tag)
    chk.floor('R05 solver call sites', nsites, 7)
    # R05.4 siblings agree on roles and transform
    kinds = {(a, m, s) for (a, m, s) in tables.values()}
    chk.ob('R05.4', len(kinds) == 1, 'compmech/analysis/linear_buckling.py', 'lb / Panel.lb / ConeCyl.lb', 'sibling agreement',
           expected='all solver calls of the three drivers use the same pencil and transform', got=sorted(map(str, kinds)),
           sample='siblings: %s' % sorted(map(str, kinds)))
    r05_6(chk)
    r05_7(chk)
    chk.explanation = ('for every eigsh/eigh call of lb, Panel.lb and ConeCyl.lb the roles of the operands are resolved by '
                       'reaching definitions, the eigenvalue transform applied on every CFG path is compared with the pencil, and '
                       'the null-column reduction is paired with the expansion of the eigenvectors')


def r05_2(chk, drv, site, tag):
    """reduce/expand pairing + column agreement for one solver call"""
    cfg = drv.cfg
    rel, fname = drv.rel, drv.fname
    # is the solver operand a product of remove_null_cols ?
    reds = []
    for opnd in (site['A'], site['M']):
        if isinstance(opnd, ast.Name):
            for d in drv.reaching(opnd.id, site['node']):
                st = cfg.nodes[d]
                # follow X = X.toarray()
                hops = 0
                while isinstance(st, ast.Assign) and isinstance(st.targets[0], ast.Name) and hops < 4 and \
                        isinstance(eigk.strip_view(st.value), ast.Name) and eigk.strip_view(st.value).id == opnd.id and st.value is not eigk.strip_view(st.value):
                    ds = drv.reaching(opnd.id, d)
                    if not ds:
                        break
                    d = ds[0]
                    st = cfg.nodes[d]
                    hops += 1
                if isinstance(st, ast.Assign) and isinstance(st.value, ast.Call) and callee_name(st.value) == 'remove_null_cols':
                    reds.append((d, st))
    parts_ = site['targets'].strip('()').split(',') if site['targets'] else []
    vec = parts_[1] if len(parts_) > 1 else None
    if not reds:
        # unreduced call: the vectors must be used as returned
        chk.ob('R05.2', vec == 'eigvecs', rel, fname, tag + ' unreduced vectors used directly', line=site['line'], got=vec)
        return
    d, st = reds[0]
    chk.ob('R05.2', len({x[0] for x in reds}) == 1, rel, fname, tag + ' both operands from one reduction', line=site['line'],
           expected='the solver receives the pair reduced by the same remove_null_cols call')
    # remove_null_cols derives the retained columns from its FIRST argument: that must be the stiffness matrix
    # (positive definite on the active amplitudes), never the geometric matrix (null on all in-plane amplitudes)
    first = st.value.args[0] if st.value.args else None
    r1 = drv.role_of(first, d)
    chk.ob('R05.2', r1 is not None and r1.replace('-', '') in ('K', 'K+KG') and r1 != 'KG', rel, fname, tag + ' null-column pattern taken from the stiffness matrix',
           line=st.lineno, expected='remove_null_cols(<stiffness>, <geometric>): the first argument decides which amplitudes are kept', got='first argument has role %s' % r1,
           detail='' if r1 == 'K' else 'the retained amplitudes are those where the %s matrix has entries; amplitudes with stiffness but no geometric stiffness (u, v) are dropped from the eigenproblem' % r1,
           sample='%s %s: remove_null_cols first argument role %s' % (fname, tag, r1))
    used = norm(st.targets[0].elts[-1]) if isinstance(st.targets[0], ast.Tuple) else None
    # expansion: zeros((orig_size, ncols)); eigvecs[used, :] = peigvecs[...]
    after = cfg.reachable(site['node'])
    scat = [cfg.nodes[i] for i in after if isinstance(cfg.nodes[i], ast.Assign) and isinstance(cfg.nodes[i].targets[0], ast.Subscript)
            and norm(cfg.nodes[i].targets[0]).startswith('eigvecs[')]
    alloc = [cfg.nodes[i] for i in after if isinstance(cfg.nodes[i], ast.Assign) and norm(cfg.nodes[i].targets[0]) == 'eigvecs'
             and isinstance(cfg.nodes[i].value, ast.Call) and dotted(cfg.nodes[i].value.func) in ('np.zeros', 'zeros')]
    # nearest ones (same branch): smallest line after the call
    scat = sorted([s for s in scat if s.lineno > site['line']], key=lambda s: s.lineno)[:1]
    alloc = sorted([s for s in alloc if s.lineno > site['line']], key=lambda s: s.lineno)[:1]
    ok = bool(scat and alloc)
    det = ''
    ncols = None
    if ok:
        idx = norm(scat[0].targets[0])
        ok = idx == 'eigvecs[%s,:]' % used
        src = norm(scat[0].value)
        # the scattered array is the solver's vector output, possibly through aliases / column slices (peigvecs = eigvecs[:, :n])
        sv = scat[0].value
        hops = 0
        while vec is not None and hops < 4 and not (src == vec or src.startswith(vec + '[')):
            base = sv.value if isinstance(sv, ast.Subscript) else sv
            if not isinstance(base, ast.Name):
                break
            rd_ = drv.reaching(base.id, cfg.node_of_stmt(scat[0]) if hops == 0 else rd_[0])
            if len(rd_) != 1 or not isinstance(cfg.nodes[rd_[0]], ast.Assign) or len(cfg.nodes[rd_[0]].targets) != 1 or not isinstance(cfg.nodes[rd_[0]].targets[0], ast.Name):
                break
            sv = cfg.nodes[rd_[0]].value
            src = norm(sv)
            hops += 1
        ok = ok and vec is not None and (src == vec or src.startswith(vec + '['))
        shape = alloc[0].value.args[0]
        if isinstance(shape, ast.Tuple) and len(shape.elts) == 2:
            rows = shape.elts[0]
            ncols = norm(shape.elts[1])
            # rows: a size captured from the *unreduced* matrix, i.e. defined before the reduction
            if isinstance(rows, ast.Name):
                rd = drv.reaching(rows.id, cfg.node_of_stmt(alloc[0]))
                okr = bool(rd) and all(cfg.must_pass(d, {x}) and d != x for x in rd) and all(re.search(r'\.shape\[0\]$', norm(cfg.nodes[x].value)) for x in rd)
                ok = ok and okr
                det = 'rows=%s defined at %s' % (rows.id, [cfg.nodes[x].lineno for x in rd])
            else:
                ok = False
        else:
            ok = False
    chk.ob('R05.2', ok, rel, fname, tag + ' expansion of the reduced eigenvectors', line=site['line'], detail=det,
           expected='eigvecs = zeros((size of the unreduced matrix, ncols)); eigvecs[%s, :] = reduced vectors' % used,
           got=[norm(s)[:90] for s in alloc + scat], sample='%s %s: %s' % (fname, tag, [norm(s)[:70] for s in alloc + scat]))
    # R05.3 column agreement
    if ncols is not None and scat:
        kexp = norm(site['k']) if site['k'] is not None else None
        src = norm(scat[0].value)
        kdefs = pyrules.resolve(drv.fn, site['k']) if site['k'] is not None else None
        # accepted: the buffer is sized from the very array that is scattered into it, or (sparse) from the solver's k
        okc = (ncols == src + '.shape[1]') or (site['solver'] in ('eigsh', 'eigs') and kexp is not None and ncols in (kexp, kdefs) and src == vec)
        chk.ob('R05.3', okc, rel, fname, tag + ' column agreement', line=site['line'],
               expected='the eigenvector buffer has as many columns as the array scattered into it, for every matrix size',
               got='buffer %s columns, source %s, solver k=%s' % (ncols, src, kdefs),
               detail='' if okc else 'the buffer always has %s columns but the scattered array %s has a different column count for small matrices (k = %s / min(n_reduced, ...)): ValueError' % (ncols, src, kdefs),
               sample='%s %s: buffer %s columns, source %s' % (fname, tag, ncols, src))


CONECYL = 'compmech/conecyl/conecyl.py'
LOADWORD = {'axial': 'Fc', 'torsion': 'T', 'pressure': 'P'}


def self_attrs(node):
    return sorted({n.attr for n in ast.walk(node) if isinstance(n, ast.Attribute) and dotted(n.value) == 'self'})


def r05_6(chk):
    """combined load cases of ConeCyl.lb: the documented case table (which load is fixed, which one is critical)
    decides the pencil - k0 plus the geometric matrix of the FIXED load on the stiffness side, the geometric matrix
    of the load whose critical value is sought on the other - and each kG0_<load> is built from that load alone"""
    m = module(CONECYL)
    fn = m.method('ConeCyl', 'lb')
    doc = ast.get_docstring(fn) or ''
    table = {int(a): (LOADWORD.get(b), LOADWORD.get(c)) for a, b, c in re.findall(r'``(\d)``\s*:\s*find the critical (\w+)\s+load for a fixed (\w+)\s+load', doc)}
    chk.need(len(table) >= 3 and all(a and b for a, b in table.values()), 'ConeCyl.lb: combined_load_case table not found in the docstring')
    found = {}
    for node in ast.walk(fn):
        if not isinstance(node, ast.If):
            continue
        t = norm(node.test)
        mt = re.match(r'^combined_load_case==(\d)$', t)
        if mt:
            key = int(mt.group(1))
        elif t in ('notcombined_load_case', 'combined_load_caseisNone'):
            key = None
        else:
            continue
        asg = {norm(st.targets[0]): st for st in node.body if isinstance(st, ast.Assign)}
        if 'M' in asg and 'A' in asg:
            found[key] = (asg['M'], asg['A'])
    n = 0
    for key in [None] + sorted(table):
        if key not in found:
            chk.ob('R05.6', False, CONECYL, 'ConeCyl.lb', 'combined_load_case %s branch' % key, expected='a branch assigning M and A', got='missing')
            continue
        M, A = found[key]
        if key is None:
            wm, wa = ['k0'], ['kG0']
            txt = 'all loads together are the reference load'
        else:
            crit, fixed = table[key]
            wm, wa = sorted(['k0', 'kG0_' + fixed]), ['kG0_' + crit]
            txt = 'documented: critical %s load for a fixed %s load' % (crit, fixed)
        gm, ga = self_attrs(M.value), self_attrs(A.value)
        additive = not any(isinstance(x, (ast.Sub, ast.USub, ast.Mult, ast.Div)) for x in ast.walk(M.value)) and not any(isinstance(x, (ast.Sub, ast.USub, ast.Mult, ast.Div, ast.Add)) for x in ast.walk(A.value))
        n += 1
        chk.ob('R05.6', gm == wm and ga == wa and additive, CONECYL, 'ConeCyl.lb', 'combined_load_case %s pencil' % key, line=M.lineno,
               expected='M = %s, A = %s (%s)' % (' + '.join(wm), wa[0], txt), got='M from %s, A from %s' % (gm, ga),
               detail='' if gm == wm and ga == wa else 'the returned multipliers are not those of (k0 + kG_fixed + lambda*kG_critical) v = 0',
               sample='ConeCyl.lb case %s: M=%s A=%s' % (key, '+'.join(gm), '+'.join(ga)))
    chk.floor('R05.6 load-case branches', n, 4)
    # each kG0_<load> from that load alone
    fn2 = m.method('ConeCyl', '_calc_linear_matrices')
    pos = {'Fc': 0, 'P': 1, 'T': 2}
    k = 0
    for st in ast.walk(fn2):
        if isinstance(st, ast.Assign) and isinstance(st.targets[0], ast.Name) and re.match(r'^kG0(_\w+)?$', st.targets[0].id) and isinstance(st.value, ast.Call) \
                and callee_name(st.value) in ('fkG0', 'fkG0_cyl'):
            name = st.targets[0].id
            args = [norm(a) for a in st.value.args[:3]]
            want = ['Fc', 'P', 'T'] if name == 'kG0' else [w if pos[w] == pos.get(name[4:], -1) else '0' for w in ('Fc', 'P', 'T')]
            k += 1
            chk.ob('R05.6', args == want, CONECYL, 'ConeCyl._calc_linear_matrices', '%s built from its own load (%s)' % (name, callee_name(st.value)), line=st.lineno,
                   expected='%s(%s, ...)' % (callee_name(st.value), ', '.join(want)), got='%s(%s, ...)' % (callee_name(st.value), ', '.join(args)),
                   sample='%s = %s(%s, ...)' % (name, callee_name(st.value), ', '.join(args)))
        if isinstance(st, ast.Assign) and isinstance(st.targets[0], ast.Attribute) and dotted(st.targets[0].value) == 'self' and re.match(r'^kG0(_\w+)?$', st.targets[0].attr):
            src = [x.id for x in ast.walk(st.value) if isinstance(x, ast.Name) and x.id.startswith('kG0')]
            if src:
                k += 1
                chk.ob('R05.6', src == [st.targets[0].attr], CONECYL, 'ConeCyl._calc_linear_matrices', 'self.%s stored from %s' % (st.targets[0].attr, st.targets[0].attr), line=st.lineno,
                       got=src, sample='self.%s = f(%s)' % (st.targets[0].attr, ','.join(src)))
    chk.floor('R05.6 geometric-matrix builders', k, 12)
    # the kernels take (Fc, P, T) in this order
    from . import pyxast
    from .report import repo_path, REPO
    import os
    ns = 0
    for rel in sorted(pyxast.built_sources(REPO)):
        if not re.match(r'compmech/conecyl/(clpt|fsdt)/.*_linear\.pyx$', rel):
            continue
        u = pyxast.parse(repo_path(rel), REPO)
        for fname in ('fkG0', 'fkG0_cyl'):
            f = u.func(fname)
            if f is None:
                continue
            names = [a.arg for a in f.args.args[:3]]
            ns += 1
            chk.ob('R05.6', names == ['Fc', 'P', 'T'], rel, fname, 'load arguments in the order (Fc, P, T)', line=f.lineno, got=names,
                   sample='%s.%s(%s, ...)' % (os.path.basename(rel), fname, ', '.join(names)) if ns % 8 == 1 else None)
    chk.floor('R05.6 kernel signatures', ns, 28)


def r05_7(chk):
    """the reference load is the one the user supplied: where ConeCyl._rebuild lets one load attribute override
    another (`if self.X is not None: self.Y[..] = f(self.X)`), a default `self.X = <constant>` in the buckling driver
    is taken only when neither X nor Y was given - otherwise the supplied load is overwritten by the constant and
    scaling it no longer changes the multipliers"""
    m = module(CONECYL)
    rb = m.method('ConeCyl', '_rebuild')
    over = {}
    for node in ast.walk(rb):
        if isinstance(node, ast.If):
            mt = re.match(r'^self\.(\w+)isnotNone$', norm(node.test))
            if not mt:
                continue
            x = mt.group(1)
            for st in node.body:
                if isinstance(st, ast.Assign) and isinstance(st.targets[0], ast.Subscript) and dotted(st.targets[0].value.value if isinstance(st.targets[0].value, ast.Attribute) else None) == 'self' \
                        and ('self.' + x) in norm(st.value):
                    over.setdefault(x, set()).add(st.targets[0].value.attr)
    chk.need('Fc' in over and 'Nxxtop' in over['Fc'], 'ConeCyl._rebuild: the Fc -> Nxxtop[0] derivation was not found')
    fn = m.method('ConeCyl', 'lb')
    n = 0
    for node in ast.walk(fn):
        if not isinstance(node, ast.Assign) or not isinstance(node.targets[0], ast.Attribute) or dotted(node.targets[0].value) != 'self':
            continue
        x = node.targets[0].attr
        if x not in over or not isinstance(node.value, ast.Constant):
            continue
        tests = [norm(t) for t, pol in pyrules.enclosing_tests(fn, node) if pol]
        conj = set()
        for t, pol in pyrules.enclosing_tests(fn, node):
            if pol:
                parts = t.values if isinstance(t, ast.BoolOp) and isinstance(t.op, ast.And) else [t]
                conj |= {norm(p) for p in parts}
        need = {'self.%sisNone' % x} | {'self.%sisNone' % y for y in over[x]}
        n += 1
        chk.ob('R05.7', need <= conj, CONECYL, 'ConeCyl.lb', 'default self.%s = %s only when no load was supplied' % (x, norm(node.value)), line=node.lineno,
               expected='guarded by ' + ' and '.join(sorted(need)), got=tests,
               detail='' if need <= conj else 'ConeCyl._rebuild overwrites self.%s[0] from self.%s whenever %s is set: a load supplied through %s is replaced by the default, and scaling it leaves the multipliers unchanged' % (sorted(over[x])[0], x, x, sorted(over[x])[0]),
               sample='ConeCyl.lb: self.%s = %s under %s' % (x, norm(node.value), tests))
    chk.floor('R05.7 default reference loads', n, 1)
