def r04_3(chk):
    pass


def r12_5(chk):
    pass


def r13_4(chk):
    pass
