"""Stiffener kernels and their Python call sites (R04.3, R12.5, R13.4)."""
import ast
import re
from fractions import Fraction as Fr

from . import panelk, pyflow, pyrules, pyxast, spec
from .kernel import Factor, MatrixKernel
from .poly import P
from .pyflow import Sig, bind, dotted
from .pyrules import module, norm
from .report import repo_path, REPO, AnalysisError
from .spec import S, C

K1D = 'compmech/stiffener/models/bladestiff1d_clt_donnell_bardell.pyx'
K2D = 'compmech/stiffener/models/bladestiff2d_clt_donnell_bardell.pyx'
KT = 'compmech/stiffener/models/tstiff2d_clt_donnell_bardell.pyx'
PY1D = 'compmech/stiffener/bladestiff1d.py'
PY2D = 'compmech/stiffener/bladestiff2d.py'
PYT = 'compmech/stiffener/tstiff2d.py'


def kernel(chk, rel, fname):
    u = pyxast.parse(repo_path(rel), REPO)
    chk.need(u.func(fname) is not None, 'anchor vanished: %s in %s' % (fname, rel))
    try:
        return MatrixKernel(u, fname)
    except KeyError as e:
        raise AnalysisError(str(e))


def point_of(k, direction, tag):
    ats = set()
    for a, info in k.w.atoms.reg.items():
        if info[0] == 'P' and info[1] == direction and info[2].tag == tag:
            ats.add(info[3])
    return ats


def check_point(chk, rule, k, rel, at, expr, what):
    """at is an opaque local with definition expr (P) or a literal"""
    fr = panelk.kern_frame(k)
    if at in fr:
        try:
            got = panelk.expand_frame(fr, at)
        except (KeyError, ValueError) as e:
            got = None
        ok = got is not None and got.close(expr)
    else:
        from .poly import nfs
        ok = at == nfs(expr)
        got = at
    chk.ob(rule, ok, rel, k.fname, what, expected=repr(expr), got=repr(got), sample='%s: %s = %r' % (k.fname, at, expr))
    return ok


# --------------------------------------------------------------------------
# R04.3 flange mass of the 1-D blade stiffener


def r04_3(chk):
    k = kernel(chk, K1D, 'fkMf')
    panelk.issue_obligations(chk, 'R04.3', k, K1D)
    ats = point_of(k, 'y', '')
    ok = len(ats) == 1
    chk.ob('R04.3', ok, K1D, 'fkMf', 'one evaluation line y = ys', got=sorted(ats))
    if not ok:
        return
    at = ats.pop()
    check_point(chk, 'R04.3', k, K1D, at, C(2) * S('ys') / S('b') - C(1), 'flange line eta = 2 ys/b - 1')
    A = k.w.atoms
    a, b, bf, hf, mu, h, hb, df = (S(x) for x in ('a', 'b', 'bf', 'hf', 'mu', 'h', 'hb', 'df'))
    dx, dy = C(2) / a, C(2) / b
    rows = [[(C(1), 'u', 0, 0)], [(C(1), 'v', 0, 0)], [(C(1), 'w', 0, 0)], [(dx, 'w', 1, 0)], [(dy, 'w', 0, 1)]]
    got = {pq: k.block(pq) for pq in k.blocks}

    def build(sign, dsym, R):
        """Hessian of 1/2 mu hf int_x int_z [(u - z w,x)^2 + (v - z w,y)^2 + w^2], z over the flange height:
        int dz = bf, int z dz = sign*bf*dsym, int z^2 dz = bf*R ; evaluated on the line y = ys"""
        z0, z1, z2 = bf, bf * dsym * C(sign), bf * R
        tab = {(0, 0): z0, (1, 1): z0, (2, 2): z0, (0, 3): -z1, (3, 0): -z1, (1, 4): -z1, (4, 1): -z1, (3, 3): z2, (4, 4): z2}
        out = {}
        for (p, q), m in tab.items():
            for tA in rows[p]:
                for tB in rows[q]:
                    cA, fA, dxA, dyA = tA
                    cB, fB, dxB, dyB = tB
                    v = mu * hf * m * cA * cB * (a / C(2))
                    v = v * S(A.integral('x', 'full', Factor('A', '', fA, dxA), Factor('B', '', fB, dxB)))
                    v = v * S(A.point('y', Factor('A', '', fA, dyA), at)) * S(A.point('y', Factor('B', '', fB, dyB), at))
                    key = (spec.DOF3[fA], spec.DOF3[fB])
                    out[key] = out.get(key, P()) + v
        return out
    # second moment about the skin mid-surface of a flange that starts at the far side of the base: z in [h/2+hb, h/2+hb+bf]
    z0 = h / C(2) + hb
    R_expl = z0 * z0 + z0 * bf + bf * bf / C(3)
    # centroid distance used by the kernel for the coupling terms: df
    match = None
    for sgn in (+1, -1):
        exp = build(sgn, df, R_expl)
        if all(got.get(pq, P()).close(exp.get(pq, P())) for pq in set(got) | set(exp)):
            match = sgn
    exp = build(-1, df, R_expl)       # the kernel's sign convention: u + df*w,x
    for pq in sorted(set(got) | set(exp)):
        g, x = got.get(pq, P()), exp.get(pq, P())
        ok = g.close(x)
        chk.ob('R04.3', ok, K1D, 'fkMf', 'block(%d,%d)' % pq, line=k.blocks[pq][0].line if pq in k.blocks else 0,
               expected='kinetic-energy Hessian of a flange bf x hf whose centroid is df from the skin reference: %r' % x, got=repr(g),
               detail='; '.join(g.diffterms(x, 2)), sample='fkMf block %s == %r' % (pq, x) if pq == (0, 0) else None)
    # consistency of the triple (df, hb, h) at the Python call site: df must be the centroid distance bf/2 + hb + h/2 of the SAME hb, h
    m = module(PY1D)
    fn = m.method('BladeStiff1D', 'calc_kM')
    calls = pyrules.attr_calls(fn, 'fkMf')
    chk.need(len(calls) == 1, 'BladeStiff1D.calc_kM: fkMf call vanished')
    u = pyxast.parse(repo_path(K1D), REPO)
    mp, probs = bind(calls[0], Sig(u.func('fkMf')))
    got_b = {p: norm(v) for p, v in mp.items()}
    chk.ob('R04.3', not probs, PY1D, 'BladeStiff1D.calc_kM', 'fkMf call binds', detail='; '.join(probs))
    reb = m.method('BladeStiff1D', '_rebuild')
    dbf = [norm(n.value) for n in ast.walk(reb) if isinstance(n, ast.Assign) and norm(n.targets[0]) == 'self.dbf']
    hb_attr_writes = [n.lineno for meth in m.classes['BladeStiff1D'].values() for n in ast.walk(meth)
                      if isinstance(n, ast.Assign) and norm(n.targets[0]) == 'self.hb' and meth.name != '__init__']
    ok = got_b.get('df') == 'self.dbf' and dbf == ['self.bf/2.0+hb+h/2.0'] and (got_b.get('hb') != 'self.hb' or bool(hb_attr_writes))
    chk.ob('R04.3', ok, PY1D, 'BladeStiff1D.calc_kM', 'consistent (df, hb, h) triple', line=calls[0].lineno,
           expected='df = bf/2 + hb + h/2 computed from the same hb and h that are passed to the kernel',
           got='df <- %s = %s ; hb <- %s (assigned outside __init__ at lines %s)' % (got_b.get('df'), dbf, got_b.get('hb'), hb_attr_writes),
           detail='' if ok else '_rebuild computes dbf with the real base thickness (local hb) but never stores it: the kernel receives self.hb, which stays at its initial 0, so the rotary inertia ignores the base thickness that the coupling terms include')
    flag_binding(chk, 'R04.3', PY1D, 'BladeStiff1D', 'calc_kM', K1D, 'fkMf', {'': 'bay'}, {'ys': 'self.ys', 'mu': 'self.mu', 'hf': 'self.hf', 'a': 'bay.a', 'b': 'bay.b', 'bf': 'self.bf', 'm': 'bay.m', 'n': 'bay.n', 'size': 'size', 'row0': 'row0', 'col0': 'col0'})


# --------------------------------------------------------------------------
# call binding of the long positional argument lists


def flag_binding(chk, rule, pyrel, cls, meth, krel, kname, tagobj, others, recv=None):
    """flag parameters <f><tag> must receive <object of tag>.<f>; other parameters as listed"""
    m = module(pyrel)
    fn = m.method(cls, meth)
    calls = pyrules.attr_calls(fn, kname)
    chk.need(len(calls) >= 1, '%s.%s: %s call vanished' % (cls, meth, kname))
    u = pyxast.parse(repo_path(krel), REPO)
    kfn = u.func(kname)
    chk.need(kfn is not None, 'kernel %s vanished' % kname)
    defs = pyrules.local_defs(fn)
    for c in calls:
        mp, probs = bind(c, Sig(kfn))
        bad = {}
        for p, a in mp.items():
            t = norm(a)
            mm = re.match(r'^([uvw][12][tr][xy])([a-z]?)$', p)
            if mm:
                obj = tagobj.get(mm.group(2))
                want = '%s.%s' % (obj, mm.group(1))
                if t != want:
                    bad[p] = '%s (expected %s)' % (t, want)
            elif p in others:
                wants = others[p] if isinstance(others[p], (set, tuple, list)) else {others[p]}
                if pyrules.resolve(fn, a, defs) not in wants and t not in wants:
                    bad[p] = '%s (expected %s)' % (t, sorted(wants))
        chk.ob(rule, not probs and not bad, pyrel, '%s.%s' % (cls, meth), '%s argument list' % kname, line=c.lineno,
               expected='every edge flag and size of the kernel receives the attribute of the same name of the right component', got=bad, detail='; '.join(probs),
               sample='%s.%s -> %s: %d arguments bound by name' % (cls, meth, kname, len(mp)))


def r13_bindings(chk, rule='R13.4'):
    sz = {'size': 'size'}
    # BladeStiff2D.calc_k0
    flag_binding(chk, rule, PY2D, 'BladeStiff2D', 'calc_k0', K2D, 'fkCss', {'': 'bay'},
                 dict(sz, kt='ktbf', kr='krbf', ys='self.ys', a={'a', 'bay.a'}, b={'b', 'bay.b'}, m={'m', 'bay.m'}, n={'n', 'bay.n'}, row0='0', col0='0'))
    flag_binding(chk, rule, PY2D, 'BladeStiff2D', 'calc_k0', K2D, 'fkCsf', {'': 'bay', 'f': 'self.flange'},
                 dict(sz, kt='ktbf', kr='krbf', ys='self.ys', a={'a', 'bay.a'}, b={'b', 'bay.b'}, bf={'bf', 'self.flange.b'}, m={'m', 'bay.m'}, n={'n', 'bay.n'},
                      m1='self.flange.m', n1='self.flange.n', row0='0', col0='col0'))
    flag_binding(chk, rule, PY2D, 'BladeStiff2D', 'calc_k0', K2D, 'fkCff', {'f': 'self.flange', '': 'self.flange'},
                 dict(sz, kt='ktbf', kr='krbf', a={'a', 'bay.a'}, bf={'bf', 'self.flange.b'}, m1='self.flange.m', n1='self.flange.n', row0='row0', col0='col0'))
    # TStiff2D.calc_k0
    flag_binding(chk, rule, PYT, 'TStiff2D', 'calc_k0', KT, 'fkCppy1y2', {'': 'bay'},
                 dict(sz, y1={'y1', 'self.ys-self.base.b/2.0'}, y2={'y2', 'self.ys+self.base.b/2.0'}, kt={'ktpb', 'min(10000000.0,ktpb)'}, a='bay.a', b='bay.b', dpb='self.dpb', m='bay.m', n='bay.n', row0='0', col0='0'))
    flag_binding(chk, rule, PYT, 'TStiff2D', 'calc_k0', KT, 'fkCpby1y2', {'': 'bay', 'b': 'self.base'},
                 dict(sz, y1={'y1', 'self.ys-self.base.b/2.0'}, y2={'y2', 'self.ys+self.base.b/2.0'}, kt={'ktpb', 'min(10000000.0,ktpb)'}, a='bay.a', b='bay.b', dpb='self.dpb', m='bay.m', n='bay.n',
                      m1='self.base.m', n1='self.base.n', row0='0', col0='col0'))
    flag_binding(chk, rule, PYT, 'TStiff2D', 'calc_k0', KT, 'fkCbbpby1y2', {'b': 'self.base', '': 'self.base'},
                 dict(sz, y1={'y1', 'self.ys-self.base.b/2.0'}, y2={'y2', 'self.ys+self.base.b/2.0'}, kt={'ktpb', 'min(10000000.0,ktpb)'}, a='bay.a', b='bay.b', m1='self.base.m', n1='self.base.n', row0='row0', col0='col0'))
    # BladeStiff1D
    flag_binding(chk, rule, PY1D, 'BladeStiff1D', 'calc_k0', K1D, 'fk0f', {'': 'bay'},
                 dict(sz, ys='self.ys', a='bay.a', b='bay.b', bf='self.bf', df='self.dbf', E1='self.E1', F1='self.F1', S1='self.S1', Jxx='self.Jxx', m='bay.m', n='bay.n', row0='row0', col0='col0'))
    flag_binding(chk, rule, PY1D, 'BladeStiff1D', 'calc_kG0', K1D, 'fkG0f', {'': 'bay'},
                 dict(sz, ys='self.ys', Fx={'Fx', 'self.Fx|0.0'}, a='bay.a', b='bay.b', bf='self.bf', m='bay.m', n='bay.n', row0='row0', col0='col0'))


# --------------------------------------------------------------------------
# R12.5 connection kernels inside the 2-D stiffeners


def r12_5(chk):
    from . import c12
    # ---- blade stiffener: skin/flange connection == base-flange connection along y = const
    for fname, blk, (pa, pb) in (('fkCss', '11', (1, 1)), ('fkCsf', '12', (1, 2)), ('fkCff', '22', (2, 2))):
        k = kernel(chk, K2D, fname)
        panelk.issue_obligations(chk, 'R12.5', k, K2D)
        tags = {1: '', 2: 'f'} if fname != 'fkCff' else {1: '', 2: sorted({i[2].tag for i in k.w.atoms.reg.values() if i[0] == 'P'} or {''})[0]}
        pts = {}
        okp = True
        for p in {pa, pb}:
            ats = point_of(k, 'y', tags[p])
            if len(ats) != 1:
                okp = False
                chk.ob('R12.5', False, K2D, fname, 'interface line of component %d' % p, got=sorted(ats))
                continue
            at = ats.pop()
            pts[('y', str(p))] = at
            if p == 1:
                check_point(chk, 'R12.5', k, K2D, at, C(2) * S('ys') / S('b') - C(1), 'skin line eta = 2 ys/b - 1')
            else:
                check_point(chk, 'R12.5', k, K2D, at, C(-1), 'flange root eta_f = -1')
        if not okp:
            continue
        names = {'kt': k.w.params[0], 'kr': k.w.params[1]}
        exp = c12.conn_spec('BFycte', pa, pb, k, pts, names, tagmap=tags, geom={'a1': S('a'), 'a2': S('a'), 'b1': S('b'), 'b2': S('bf')})
        got = {pq: k.block(pq) for pq in k.blocks}
        panelk.compare_blocks(chk, 'R12.5', k, K2D, got, exp, 'Hessian of the skin-flange penalty energy (base-flange jump table)')
        guards = panelk.guards_of(k)
        want = ('skip-if row > col',) if blk in ('11', '22') else ()
        chk.ob('R12.5', bool(guards) and all(g == want for g in guards), K2D, fname, 'fill discipline', got=sorted({x for g in guards for x in g}))
    # ---- T stiffener: skin/base connection over the strip y1..y2
    for fname, (pa, pb) in (('fkCppy1y2', (1, 1)), ('fkCpby1y2', (1, 2)), ('fkCbbpby1y2', (2, 2))):
        k = kernel(chk, KT, fname)
        panelk.issue_obligations(chk, 'R12.5', k, KT)
        exp = tstiff_spec(chk, k, pa, pb)
        if exp is None:
            continue
        got = {pq: k.block(pq) for pq in k.blocks}
        panelk.compare_blocks(chk, 'R12.5', k, KT, got, exp, 'Hessian of kt/2 int_strip |u_skin(+dpb w,x) - u_base|^2')
        guards = panelk.guards_of(k)
        want = ('skip-if row > col',) if pa == pb else ()
        chk.ob('R12.5', bool(guards) and all(g == want for g in guards), KT, fname, 'fill discipline', got=sorted({x for g in guards for x in g}))


def tstiff_spec(chk, k, pa, pb):
    A = k.w.atoms
    fr = panelk.kern_frame(k)
    fname = k.fname
    a, b, kt = S('a'), S('b'), S('kt')
    # limits / mapping constants used by the kernel
    lims = {info[4] for info in A.reg.values() if info[0] == 'I' and info[4]}
    y1, y2 = k.w.params[0], k.w.params[1]
    e1 = C(2) * S(y1) / b - C(1)
    e2 = C(2) * S(y2) / b - C(1)
    sub_lim = map_lim = None
    c1sym = None
    for lim in lims:
        try:
            d0, d1 = panelk.expand_frame(fr, lim[0]), panelk.expand_frame(fr, lim[1])
        except (KeyError, ValueError):
            continue
        if d0.close(e1) and d1.close(e2):
            sub_lim = lim
        if d0.close((e1 + e2) * C(Fr(1, 2))) and d1.close((e2 - e1) * C(Fr(1, 2))):
            map_lim = lim
            c1sym = S(lim[1])
    # c1 may be used without a mapped integral (base-base block)
    if c1sym is None:
        for nm in fr:
            try:
                if panelk.expand_frame(fr, nm).close((e2 - e1) * C(Fr(1, 2))):
                    c1sym = S(nm)
            except (KeyError, ValueError):
                pass
    need_sub = (pa, pb) == (1, 1)
    need_map = (pa, pb) == (1, 2)
    ok = (not need_sub or sub_lim) and (not need_map or map_lim) and (pa == 1 and pb == 1 or c1sym is not None)
    chk.ob('R12.5', bool(ok), KT, fname, 'strip limits and mapping constants', expected='eta_i = 2 y_i/b - 1; c0 = (eta1+eta2)/2, c1 = (eta2-eta1)/2',
           got={str(l): None for l in lims}, sample='%s: limits %s' % (fname, sorted(map(str, lims))))
    if not ok:
        return None
    dpb = S('dpb')
    dx, dy = C(2) / a, C(2) / b
    tag = {1: '', 2: 'b'}
    if (pa, pb) == (2, 2):
        # the base-base kernel receives only base flags; its parameters may carry either suffix
        t2 = sorted({f.tag for info in A.reg.values() if info[0] == 'I' for f in info[3]})
        tag = {1: '', 2: t2[0] if t2 else ''}
    jumps = [[(1, C(1), 1, 'u', 0, 0), (1, dpb * dx, 1, 'w', 1, 0), (-1, C(1), 2, 'u', 0, 0)],
             [(1, C(1), 1, 'v', 0, 0), (1, dpb * dy, 1, 'w', 0, 1), (-1, C(1), 2, 'v', 0, 0)],
             [(1, C(1), 1, 'w', 0, 0), (-1, C(1), 2, 'w', 0, 0)]]
    J = a * b / C(4)
    out = {}
    for terms in jumps:
        for (s1, c1_, p1, f1, dx1, dy1) in terms:
            if p1 != pa:
                continue
            for (s2, c2_, p2, f2, dx2, dy2) in terms:
                if p2 != pb:
                    continue
                FA = lambda d: Factor('A', tag[p1], f1, d)
                FB = lambda d: Factor('B', tag[p2], f2, d)
                ix = S(A.integral('x', 'full', FA(dx1), FB(dx2)))
                if p1 == 1 and p2 == 1:
                    iy = S(A.integral('y', 'sub', FA(dy1), FB(dy2), sub_lim))
                elif p1 == 1 and p2 == 2:
                    # int_strip phi_skin(eta) phi_base(eta') d eta = c1 int phi_base(eta') phi_skin(c0 + c1 eta') d eta'
                    iy = c1sym * S(A.integral('y', 'mapped', FB(dy2), FA(dy1), map_lim))
                else:
                    iy = c1sym * S(A.integral('y', 'full', FA(dy1), FB(dy2)))
                key = (spec.DOF3[f1], spec.DOF3[f2])
                out[key] = out.get(key, P()) + kt * J * C(s1 * s2) * c1_ * c2_ * ix * iy
    return {k_: v for k_, v in out.items() if v.t}


# --------------------------------------------------------------------------
# R13.4 remaining stiffener kernels as Gram forms


def r13_4(chk):
    r13_bindings(chk, 'R13.4')
    # fkG0f: Hessian of Fx int w,x^2 on the line y = ys
    k = kernel(chk, K1D, 'fkG0f')
    panelk.issue_obligations(chk, 'R13.4', k, K1D)
    ats = point_of(k, 'y', '')
    if len(ats) == 1:
        at = ats.pop()
        check_point(chk, 'R13.4', k, K1D, at, C(2) * S('ys') / S('b') - C(1), 'flange line eta = 2 ys/b - 1')
        A = k.w.atoms
        a = S('a')
        Fx = S(k.w.params[1])
        v = Fx * (C(2) / a) ** 2 * (a / C(2)) * S(A.integral('x', 'full', Factor('A', '', 'w', 1), Factor('B', '', 'w', 1))) * \
            S(A.point('y', Factor('A', '', 'w', 0), at)) * S(A.point('y', Factor('B', '', 'w', 0), at))
        got = {pq: k.block(pq) for pq in k.blocks}
        panelk.compare_blocks(chk, 'R13.4', k, K1D, got, {(2, 2): v}, 'Hessian of Fx int (w,x)^2 dx on y = ys')
    else:
        chk.ob('R13.4', False, K1D, 'fkG0f', 'one evaluation line', got=sorted(ats))
    # fk0f: role-swap symmetry (needed for the triangular fill)
    k = kernel(chk, K1D, 'fk0f')
    panelk.issue_obligations(chk, 'R13.4', k, K1D)
    got = {pq: k.block(pq) for pq in k.blocks}
    for pq in sorted(got):
        sw = panelk.swap_roles(got.get((pq[1], pq[0]), P()), k.w.atoms)
        chk.ob('R13.4', got[pq].close(sw), K1D, 'fk0f', 'role-swap (%d,%d)' % pq, expected='E_PQ(A,B) == E_QP(B,A)',
               sample='fk0f block %s symmetric under the row/column swap' % (pq,))
    chk.note('fk0f: positive semi-definiteness depends on laminate values (S1 coupling), not decided')
