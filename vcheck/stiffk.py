def r04_3(chk):
    pass
