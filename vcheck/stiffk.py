def r04_3(chk):
    pass


def r12_5(chk):
    pass
