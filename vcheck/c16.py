"""C16 - shell linear matrices: named structural clauses only."""
import ast
import os
import re

from . import pyflow, pyrules, pyxast, shellk, kernel
from .c17 import conecyl_db
from .poly import P, Rat, from_ast, nfs, Unsupported, NonMonomialDivision
from .pyflow import Sig, bind, dotted, callee_name
from .pyrules import module, norm, local_defs
from .report import repo_path, REPO, AnalysisError

LEVEL = 'proof'
CONECYL = 'compmech/conecyl/conecyl.py'
MODELDB = 'compmech/conecyl/modelDB.py'
S, C = P.sym, P.const


def linear_file(name):
    for sub in ('clpt', 'fsdt'):
        p = 'compmech/conecyl/%s/%s.pyx' % (sub, name)
        if os.path.exists(repo_path(p)):
            return p
    return None


def linear_modules(built_only=True):
    db = conecyl_db()
    built = set(pyxast.built_sources(REPO))
    out = {}
    for model, ent in db.items():
        lin = ent.get('linear')
        if lin in (None, 'None'):
            continue
        rel = linear_file(lin)
        if rel is None or (built_only and rel not in built):
            continue
        out[model] = rel
    return out


def r16_1(chk):
    """geometric stiffness is homogeneous of degree 1 in (Fc, P, T)"""
    mods = linear_modules()
    seen = set()
    n = 0
    for model, rel in sorted(mods.items()):
        if rel in seen:
            continue
        seen.add(rel)
        u = pyxast.parse(repo_path(rel), REPO)
        for fname in ('fkG0', 'fkG0_cyl'):
            fn = u.func(fname)
            if fn is None:
                continue
            loads = [a.arg for a in fn.args.args[:3]]
            env = {}
            bad = []
            nemit = 0
            for st in ast.walk(fn):
                if isinstance(st, ast.Assign) and isinstance(st.targets[0], ast.Name):
                    d = shellk.degree(st.value, env, set(loads))
                    env[st.targets[0].id] = d
            coo = kernel.find_coo(fn)
            varr = coo[0][0] if coo else None
            for st in ast.walk(fn):
                if isinstance(st, ast.AugAssign) and isinstance(st.target, ast.Subscript) and norm(st.target.value) == varr:
                    nemit += 1
                    d = shellk.degree(st.value, env, set(loads)) - {None}
                    if d != {1}:
                        bad.append((st.lineno, sorted(map(str, d))))
            chk.ob('R16.1', varr is not None and nemit > 0 and not bad, rel, fname, 'every emit is homogeneous of degree 1 in (%s)' % ', '.join(loads),
                   expected='degree exactly 1 in the three load parameters', got=bad[:4] or '%d emits' % nemit,
                   sample='%s.%s: %d emits, all of degree 1 in %s' % (os.path.basename(rel), fname, nemit, loads))
            n += 1
            chk.ob('R16.1', loads == ['Fc', 'P', 'T'] or len(loads) == 3, rel, fname, 'load parameters first', got=loads)
    chk.floor('R16.1 geometric-stiffness kernels', n, 20)
    # the split: the three separate matrices are the same call with the other two loads set to 0
    m = module(CONECYL)
    fn = m.method('ConeCyl', '_calc_linear_matrices')
    for kname, extra in (('fkG0_cyl', ['r2', 'L', 'm1', 'm2', 'n2']), ('fkG0', ['r2', 'alpharad', 'L', 'm1', 'm2', 'n2', 's'])):
        calls = [c for c in pyflow.calls_in(fn) if getattr(c.func, 'id', '') == kname]
        got = sorted([norm(a) for a in c.args] for c in calls)
        want = sorted([['Fc', 'P', 'T'] + extra, ['Fc', '0', '0'] + extra, ['0', 'P', '0'] + extra, ['0', '0', 'T'] + extra])
        chk.ob('R16.1', got == want, CONECYL, 'ConeCyl._calc_linear_matrices', 'combined-load split of ' + kname,
               expected='kG0(Fc,P,T) and the three calls with the other two loads set to zero, otherwise identical arguments', got=got,
               sample='%s split: %s' % (kname, got))
    defs = {k: [norm(v) for v in vs if v is not None] for k, vs in local_defs(fn).items()}
    chk.ob('R16.1', defs.get('Fc') == ['self.Nxxtop[0]*(2*pi*r2*cosa)'], CONECYL, 'ConeCyl._calc_linear_matrices', 'axial force from the line load', got=defs.get('Fc'))


def r16_3(chk):
    m = module(CONECYL)
    fn = m.method('ConeCyl', '_calc_linear_matrices')
    fname = 'ConeCyl._calc_linear_matrices'
    txt = [norm(n) for n in ast.walk(fn) if isinstance(n, ast.Assign)]
    for w in ('k0=make_symmetric(k0)', 'self.kG0=make_symmetric(kG0)', 'self.kG0_Fc=make_symmetric(kG0_Fc)', 'self.kG0_P=make_symmetric(kG0_P)', 'self.kG0_T=make_symmetric(kG0_T)'):
        chk.ob('R16.3', w in txt, CONECYL, fname, 'symmetric by construction: ' + w.split('=')[0], expected=w, sample=w)
    # k0 stored after symmetrisation, edges added before it
    cfg = pyflow.CFG(fn)
    sym = cfg.ids_where(lambda i, n: isinstance(n, ast.Assign) and norm(n) == 'k0=make_symmetric(k0)')
    store = cfg.ids_where(lambda i, n: isinstance(n, ast.Assign) and norm(n) == 'self.k0=k0')
    edges = cfg.ids_where(lambda i, n: isinstance(n, ast.Assign) and 'k0edges' in norm(n.value) and norm(n.targets[0]) == 'k0')
    ok = bool(sym and store) and cfg.must_pass(store[0], sym) and all(sym[0] in cfg.reachable(e) and not cfg.must_pass(e, sym) for e in edges)
    chk.ob('R16.3', ok, CONECYL, fname, 'order: kernel, edge restraints, symmetrise, store', sample='k0 = kernel (+ k0edges) -> make_symmetric -> self.k0')
    # cylinder / cone dispatch
    for kname, want_pol in (('fk0_cyl', True), ('fkG0_cyl', True), ('fk0', False), ('fkG0', False)):
        for c in [c for c in pyflow.calls_in(fn) if getattr(c.func, 'id', '') == kname]:
            pol = [p for t, p in pyrules.enclosing_tests(fn, c) if norm(t) == 'self.is_cylinder']
            chk.ob('R16.3', pol == [want_pol], CONECYL, fname, '%s used iff is_cylinder is %s' % (kname, want_pol), line=c.lineno, got=pol)
    # argument binding of the kernel calls against every model's kernel signature
    mods = linear_modules()
    nb = 0
    for model, rel in sorted(mods.items()):
        u = pyxast.parse(repo_path(rel), REPO)
        iso = model.startswith('iso_')
        for kname in ('fk0', 'fk0_cyl'):
            kfn = u.func(kname)
            if kfn is None:
                chk.ob('R16.3', False, rel, kname, 'kernel defined for model ' + model, got='missing')
                continue
            for c in [c for c in pyflow.calls_in(fn) if getattr(c.func, 'id', '') == kname]:
                tests = [(norm(t), p) for t, p in pyrules.enclosing_tests(fn, c)]
                if ("'iso_'inmodel", iso) not in tests:
                    continue
                mp, probs = bind(c, Sig(kfn))
                got = {p: norm(a) for p, a in mp.items()}
                bad = {p: a for p, a in got.items() if a != p}
                chk.ob('R16.3', not probs and not bad, CONECYL, fname, '%s call vs %s signature' % (kname, model), line=c.lineno,
                       expected='every argument passed under its own name', got=bad, detail='; '.join(probs),
                       sample='%s(%s) binds for %s' % (kname, ', '.join(got), model))
                nb += 1
        gsrc = mods.get(model[4:]) if iso else rel
        ug = pyxast.parse(repo_path(gsrc), REPO) if gsrc else None
        for kname in ('fkG0', 'fkG0_cyl'):
            kfn = ug.func(kname) if ug else None
            if kfn is None:
                continue
            for c in [c for c in pyflow.calls_in(fn) if getattr(c.func, 'id', '') == kname][:1]:
                mp, probs = bind(c, Sig(kfn))
                got = {p: norm(a) for p, a in mp.items()}
                bad = {p: a for p, a in got.items() if a != p}
                chk.ob('R16.3', not probs and not bad, CONECYL, fname, '%s call vs %s signature' % (kname, model), line=c.lineno, got=bad, detail='; '.join(probs))
                nb += 1
    chk.floor('R16.3 kernel call bindings', nb, 40)
    # get_linear_matrices: edge-restraint argument lists per model
    md = module(MODELDB)
    gl = md.function('get_linear_matrices')
    node = [n for n in gl.body if isinstance(n, ast.If) and norm(n.test).startswith('model==')]
    chk.need(len(node) == 1, 'get_linear_matrices: model chain vanished')
    node = node[0]
    ne = 0
    while isinstance(node, ast.If):
        mname = node.test.comparators[0].value if isinstance(node.test, ast.Compare) and isinstance(node.test.comparators[0], ast.Constant) else None
        calls = [c for s in node.body for c in pyflow.calls_in(s) if getattr(c.func, 'id', '') == 'fk0edges']
        rel = mods.get(mname[4:] if mname and mname.startswith('iso_') else mname)
        if mname and rel and calls:
            kfn = pyxast.parse(repo_path(rel), REPO).func('fk0edges')
            if kfn is None:
                chk.ob('R16.3', False, MODELDB, 'get_linear_matrices', 'fk0edges exists for ' + mname, line=node.lineno)
            else:
                mp, probs = bind(calls[0], Sig(kfn))
                got = {p: norm(a) for p, a in mp.items()}
                bad = {p: a for p, a in got.items() if a not in (p, 'cc.' + p)}
                chk.ob('R16.3', not probs and not bad, MODELDB, 'get_linear_matrices', 'edge restraints of ' + mname, line=calls[0].lineno,
                       expected='fk0edges(%s) with each restraint passed under its own name' % ', '.join(Sig(kfn).names), got=bad, detail='; '.join(probs),
                       sample='%s: fk0edges(%s)' % (mname, ', '.join(got)))
                ne += 1
        node = node.orelse[0] if len(node.orelse) == 1 and isinstance(node.orelse[0], ast.If) else None
    chk.floor('R16.3 edge-restraint bindings', ne, 15)
    gdefs = {k: [norm(v) for v in vs if v is not None] for k, vs in local_defs(gl).items()}
    chk.ob('R16.3', sorted(gdefs.get('fkG0', [])) == sorted(["db[model[4:]]['linear'].fkG0", "db[model]['linear'].fkG0"]), MODELDB, 'get_linear_matrices',
           'iso_ models borrow fkG0 from the general model', got=gdefs.get('fkG0'))


def r16_5(chk):
    """loop-scope rule over every built kernel file"""
    nfiles = nfun = 0
    for rel in pyxast.built_sources(REPO):
        path = repo_path(rel)
        if not os.path.exists(path):
            continue
        u = pyxast.parse(path, REPO)
        nfiles += 1
        for name, fn in sorted(u.funcs.items()):
            nfun += 1
            hits = kernel.loop_scope_hits(fn)
            for var, line in hits:
                chk.ob('R16.5', False, rel, name, 'use of %s outside its loop' % var, line=line,
                       expected='an index variable (or a temporary computed from one) is used only inside the loop that defines it',
                       got='%s read at line %d with no definition in an enclosing loop' % (var, line),
                       detail='%s is defined inside a loop but used at line %d outside it: the value left over from an earlier iteration is read' % (var, line))
            scoped = {v for v, l in hits}
            stale = {}
            for var, line, dline in kernel.stale_iteration_reads(fn):
                if var not in scoped:
                    stale.setdefault(var, (line, dline))
            for var, (line, dline) in sorted(stale.items()):
                chk.ob('R16.5', False, rel, name, 'read of %s before its definition in the same iteration' % var, line=line,
                       expected='a per-iteration local is assigned before it is read in the loop body',
                       got='%s read at line %d, assigned at line %d of the same loop body' % (var, line, dline),
                       detail='the read sees the value of the previous iteration (in the first iteration: whatever an earlier loop left behind)')
            hits = hits or list(stale)
            if not hits and name in ('fk0', 'fk0_cyl', 'fkG0', 'fkG0_cyl'):
                chk.ob('R16.5', True, rel, name, 'loop scope', sample='%s.%s: every index/temporary is used inside its defining loop' % (os.path.basename(rel), name))
    chk.floor('kernel files scanned by the loop-scope rule', nfiles, 60)
    chk.analysed['functions scanned by the loop-scope rule'] = nfun


def r16_8(chk):
    """isotropic input path of the general models: ConeCyl._rebuild builds the laminate matrix from (E11, nu, h);
    it has to be the isotropic plate matrix, the one the iso_ kernels hard-code (R16.2) and the one a single
    isotropic ply gives (C01)"""
    m = module(CONECYL)
    fn = m.method('ConeCyl', '_rebuild')
    blk = [n for n in ast.walk(fn) if isinstance(n, ast.If) and norm(n.test) == 'self.laminapropisNone']
    chk.need(blk, 'ConeCyl._rebuild: branch building F from (E11, nu, h) not found')
    env = {}
    Fnode = None

    def leaf(n):
        return P.sym(norm(n))
    for st in blk[0].body:
        if isinstance(st, ast.Assign) and len(st.targets) == 1 and isinstance(st.targets[0], ast.Name):
            try:
                env[st.targets[0].id] = from_ast(st.value, env, leaf, ring=Rat)
            except (Unsupported, NonMonomialDivision) as e:
                env.pop(st.targets[0].id, None)
        elif isinstance(st, ast.Assign) and norm(st.targets[0]) == 'self.F' and isinstance(st.value, ast.Call) and st.value.args and isinstance(st.value.args[0], ast.List):
            Fnode = st
    chk.need(Fnode is not None, 'ConeCyl._rebuild: self.F = np.array([[...]]) not found in the isotropic branch')
    E, nu, h = Rat(S('self.E11')), Rat(S('self.nu')), Rat(S('self.h'))
    one = Rat(C(1))
    a = E * h / (one - nu * nu)
    A = [[a, nu * a, 0], [nu * a, a, 0], [0, 0, a * (one - nu) / Rat(C(2))]]
    n = 0
    rows = Fnode.value.args[0].elts
    chk.need(len(rows) == 6 and all(isinstance(r, ast.List) and len(r.elts) == 6 for r in rows), 'ConeCyl._rebuild: F is not written as a 6x6 list')
    for i in range(6):
        for j in range(6):
            if (i < 3) != (j < 3):
                want = Rat(P())
            else:
                w = A[i % 3][j % 3]
                want = Rat.lift(w) if not isinstance(w, int) else Rat(P())
                if i >= 3:
                    want = want * h * h / Rat(C(12))
            try:
                got = from_ast(rows[i].elts[j], env, leaf, ring=Rat)
                ok = got.equals(want)
                gtxt = norm(rows[i].elts[j])
            except (Unsupported, NonMonomialDivision) as e:
                ok, gtxt = False, 'not decidable: %s' % e
            n += 1
            chk.ob('R16.8', ok, CONECYL, 'ConeCyl._rebuild', 'isotropic laminate matrix entry F[%d,%d]' % (i, j), line=rows[i].lineno,
                   expected='E h/(1-nu^2) [[1,nu,0],[nu,1,0],[0,0,(1-nu)/2]] for the membrane block, h^2/12 times it for the bending block, no coupling',
                   got='%s with %s' % (gtxt, {k: norm(v) for k, v in ((t.targets[0].id, t.value) for t in blk[0].body if isinstance(t, ast.Assign) and isinstance(t.targets[0], ast.Name)) if k == gtxt}),
                   detail='' if ok else 'a general model driven with (E11, nu, h) no longer equals the iso_ model or the same model fed a one-ply isotropic laminate',
                   sample='ConeCyl._rebuild: F[%d,%d] = %s' % (i, j, gtxt) if (i, j) in ((0, 0), (0, 1), (2, 2), (3, 4), (5, 5)) else None)
    chk.floor('R16.8 entries', n, 36)


def run(chk):
    chk.level = LEVEL
    chk.trusted = ['python3 ast', 'E1 lowering', 'Fraction polynomial arithmetic (poly.P)', 'product-to-sum and closed antiderivatives of x^p sin/cos(w x) (shellenergy)', 'C01 (A, B, D symmetric; transverse-shear block uncoupled)']
    chk.assumptions = ['R16.7 decides the energy identity with the section radius frozen at its mid-section value, exactly as the cone kernels integrate (the documented section quadrature); '
                       'the limit s -> infinity is not part of the statement decided',
                       'positive semi-definiteness is decided only as a consequence of R16.7 (a Gram form of a PSD laminate matrix) for the classical models that pass it; not for the first-order-shear models',
                       'amplitude 2 (load asymmetry) is always prescribed (ConeCyl._rebuild raises otherwise) and is left out of R16.7']
    r16_1(chk)
    r16_3(chk)
    r16_5(chk)
    r16_8(chk)
    # R16.9 the geometry handed to the kernels is the one defined now (derived radius refreshed on every rebuild)
    pyrules.check_geometry_closure(chk, 'R16.9')
    from . import c16iso, c16deep
    c16iso.r16_2(chk)
    c16deep.run(chk)
    chk.explanation = ('degree analysis of the geometric-stiffness emits, symmetrisation/dispatch/binding rules of the orchestration, '
                       'loop-scope and stale-iteration-read rules over all kernels, isotropic short-cut kernels against the general ones under the isotropic substitution, '
                       'cone kernels at zero angle telescoped over the sections against the cylinder kernels (Fourier normal form), '
                       'classical kernels against the exact strain-energy Hessian built from the package\'s own cfstrain functions')
