"""Abstract interpretation of the COO mirror helpers of compmech/sparse.py (make_symmetric / make_skew_symmetric).

Nothing is executed.  The function body is interpreted over an *elementwise segment domain*:

* the stored entries of the argument are one index space N; every entry n has (ROW[n], COL[n], DATA[n]);
* the helpers look at ROW and COL only through comparisons, so an entry is in exactly one of three
  orderings  lt: ROW<COL   eq: ROW=COL   gt: ROW>COL  -- a finite set, enumerated;
* an abstract array is a concatenation of *segments*; a segment is the sub-family of N selected by a set of
  orderings (its filter) together with, per ordering, the value every element of the segment has as a
  normal form  R | C | ('D', sign) | ('k', const)  ;
* index arrays (np.where(mask)[0] (+ length)) are blocks aligned with a segment at a symbolic offset
  (a tuple of filters whose sizes add up); slices at such an offset are views (aliases) of the segments;
* boolean-mask / index loads restrict filters, stores overwrite the values of the selected orderings.

The meaning of the returned coo_matrix((v, (r, c))) is then, per ordering, the multiset of (row, col, value)
contributions an entry of N makes (zero values contribute nothing) -- compared with the specification
  lt: {(R, C, D), (C, R, s*D)}    eq: {(R, R, D)}    gt: {}            (s = +1 symmetric, -1 skew)

Anything outside the modelled subset raises Unsupported and the caller falls back to the syntactic rule.
"""
import ast

ORD = ('lt', 'eq', 'gt')
ALL = frozenset(ORD)


class Unsupported(Exception):
    pass


class Raises(Exception):
    """the function raises for a square COO argument"""


class Seg:
    __slots__ = ('filt', 'val')

    def __init__(self, filt, val):
        self.filt = frozenset(filt)
        self.val = dict(val)          # ordering -> normal form, for orderings in filt

    def copy(self):
        return Seg(self.filt, self.val)


class Arr:
    def __init__(self, segs):
        self.segs = list(segs)

    def seglist(self):
        return self.segs

    def filts(self):
        return tuple(s.filt for s in self.segs)


class View:
    """slice of an Arr on segment boundaries: aliases base.segs[lo:hi]"""
    def __init__(self, base, lo, hi):
        self.base, self.lo, self.hi = base, lo, hi

    def seglist(self):
        return self.base.seglist()[self.lo:self.hi]

    def filts(self):
        return tuple(s.filt for s in self.seglist())


class Len:
    def __init__(self, filts):
        self.filts = tuple(filts)


class Idx:
    """integer index array: blocks (offset filters, segment filter, orderings selected)"""
    def __init__(self, blocks):
        self.blocks = list(blocks)


class Mat:
    pass


class Opaque:
    def __init__(self, what):
        self.what = what


class Result:
    def __init__(self, v, r, c, shape_ok):
        self.v, self.r, self.c, self.shape_ok = v, r, c, shape_ok


def _norm(o, x):
    if o == 'eq' and x == 'C':
        return 'R'
    return x


def _cmp(op, a, b, o):
    def rank(x):
        if x == 'R':
            return {'lt': 0, 'eq': 0, 'gt': 1}[o]
        if x == 'C':
            return {'lt': 1, 'eq': 0, 'gt': 0}[o]
        return None
    if a in ('R', 'C') and b in ('R', 'C'):
        x, y = rank(a), rank(b)
    elif isinstance(a, tuple) and a[0] == 'k' and isinstance(b, tuple) and b[0] == 'k':
        x, y = a[1], b[1]
    else:
        raise Unsupported('comparison of %r and %r' % (a, b))
    return {'Gt': x > y, 'GtE': x >= y, 'Lt': x < y, 'LtE': x <= y, 'Eq': x == y, 'NotEq': x != y}[op]


def _is0(x):
    return isinstance(x, tuple) and x[0] == 'k' and x[1] == 0


def _arith(op, a, b):
    if op == 'Mult':
        if _is0(a) or _is0(b):
            return ('k', 0)
        for x, y in ((a, b), (b, a)):
            if isinstance(y, tuple) and y[0] == 'k' and y[1] in (1, -1):
                if y[1] == 1:
                    return x
                return _neg(x)
        if a[0] == 'k' and b[0] == 'k':
            return ('k', a[1] * b[1])
    if op == 'Add':
        if _is0(a):
            return b
        if _is0(b):
            return a
    if op == 'Sub':
        if _is0(b):
            return a
        if a == b:
            return ('k', 0)
        if _is0(a):
            return _neg(b)
    raise Unsupported('arithmetic %s on %r, %r' % (op, a, b))


def _neg(x):
    if isinstance(x, tuple) and x[0] == 'D':
        return ('D', -x[1])
    if isinstance(x, tuple) and x[0] == 'k':
        return ('k', -x[1])
    raise Unsupported('negation of %r' % (x,))


def _scalar(x):
    if isinstance(x, bool):
        return x
    if isinstance(x, (int, float)):
        return ('k', x)
    return None


def _elementwise(f, a, b=None):
    """apply f(ordering, x[, y]) segmentwise; scalars broadcast"""
    arrs = [x for x in (a, b) if isinstance(x, (Arr, View))]
    if not arrs:
        raise Unsupported('no array operand')
    ref = arrs[0]
    for x in arrs[1:]:
        if x.filts() != ref.filts():
            raise Unsupported('operands with different segmentation')
    out = []
    for k, s in enumerate(ref.seglist()):
        val = {}
        for o in s.filt:
            ops = []
            for x in ((a,) if b is None else (a, b)):
                if isinstance(x, (Arr, View)):
                    ops.append(x.seglist()[k].val[o])
                else:
                    sc = _scalar(x)
                    if sc is None:
                        raise Unsupported('operand %r' % (x,))
                    ops.append(sc)
            val[o] = f(o, *ops)
        out.append(Seg(s.filt, val))
    return Arr(out)


class Interp:
    def __init__(self, mod_functions, depth=0):
        self.fns = mod_functions
        self.depth = depth

    # ---- expressions
    def ev(self, n, env):
        if isinstance(n, ast.Constant):
            return n.value
        if isinstance(n, ast.Name):
            if n.id in env:
                return env[n.id]
            if n.id in getattr(self, 'locals', ()):
                raise Unsupported('local %s read before it is assigned' % n.id)
            return Opaque(n.id)
        if isinstance(n, ast.Tuple) or isinstance(n, ast.List):
            return tuple(self.ev(e, env) for e in n.elts)
        if isinstance(n, ast.Attribute):
            b = self.ev(n.value, env)
            if isinstance(b, Mat):
                if n.attr in ('row', 'col', 'data'):
                    sym = {'row': 'R', 'col': 'C', 'data': ('D', 1)}[n.attr]
                    # the same ndarray object every time: aliasing matters only for stores into it
                    key = '_' + n.attr
                    if not hasattr(b, key):
                        setattr(b, key, Arr([Seg(ALL, {o: _norm(o, sym) for o in ORD})]))
                    return getattr(b, key)
                if n.attr == 'shape':
                    return ('shape', b)
                if n.attr == 'dtype':
                    return ('dtype', b)
                if n.attr == 'nnz':
                    return Opaque(n.attr)
            if isinstance(b, (Arr, View)):
                if n.attr == 'shape':
                    return ('ashape', Len(b.filts()))
                if n.attr == 'size':
                    return Len(b.filts())
                if n.attr == 'dtype':
                    return Opaque('dtype')
            if isinstance(b, Opaque):
                if b.what in self.fns:
                    raise Unsupported('attribute of a function')
                return Opaque(b.what + '.' + n.attr)
            raise Unsupported('attribute %s' % n.attr)
        if isinstance(n, ast.Compare) and len(n.ops) == 1:
            l, r = self.ev(n.left, env), self.ev(n.comparators[0], env)
            op = type(n.ops[0]).__name__
            if isinstance(l, (Arr, View)) or isinstance(r, (Arr, View)):
                return _elementwise(lambda o, x, y: _cmp(op, x, y, o), l, r)
            if isinstance(l, tuple) and isinstance(r, tuple) and len(l) == 2 and len(r) == 2 and l[0] == r[0] == 'dim' and l[1] is r[1]:
                return op in ('Eq', 'GtE', 'LtE', 'Is')
            if not isinstance(l, (Opaque, Mat, tuple, Len)) and not isinstance(r, (Opaque, Mat, tuple, Len)):
                if op in ('Is', 'IsNot'):
                    return (l is r) == (op == 'Is')
                return {'Gt': lambda: l > r, 'GtE': lambda: l >= r, 'Lt': lambda: l < r, 'LtE': lambda: l <= r,
                        'Eq': lambda: l == r, 'NotEq': lambda: l != r}[op]()
            return Opaque('cmp')
        if isinstance(n, ast.UnaryOp):
            x = self.ev(n.operand, env)
            if isinstance(n.op, ast.USub):
                if isinstance(x, (Arr, View)):
                    return _elementwise(lambda o, a: _neg(a), x)
                if isinstance(x, (int, float)):
                    return -x
            if isinstance(n.op, ast.Not):
                if isinstance(x, bool):
                    return not x
                return Opaque('not')
            if isinstance(n.op, ast.Invert) and isinstance(x, (Arr, View)):
                return _elementwise(lambda o, a: self._b(not self._tb(a)), x)
            raise Unsupported('unary')
        if isinstance(n, ast.BoolOp):
            vals = [self.ev(v, env) for v in n.values]
            if all(isinstance(v, bool) for v in vals):
                return all(vals) if isinstance(n.op, ast.And) else any(vals)
            return Opaque('boolop')
        if isinstance(n, ast.BinOp):
            l, r = self.ev(n.left, env), self.ev(n.right, env)
            op = type(n.op).__name__
            if isinstance(l, Idx) or isinstance(r, Idx):
                ix, ln = (l, r) if isinstance(l, Idx) else (r, l)
                if op == 'Add' and isinstance(ln, Len):
                    return Idx([(ln.filts + off, f, sel) for off, f, sel in ix.blocks])
                raise Unsupported('index arithmetic')
            if isinstance(l, (Arr, View)) or isinstance(r, (Arr, View)):
                if op in ('BitAnd', 'BitOr'):
                    return _elementwise(lambda o, a, b: self._b((self._tb(a) and self._tb(b)) if op == 'BitAnd'
                                                                 else (self._tb(a) or self._tb(b))), l, r)
                return _elementwise(lambda o, a, b: _arith(op, a, b), l, r)
            if isinstance(l, (int, float)) and isinstance(r, (int, float)) and not isinstance(l, bool):
                return {'Add': l + r, 'Sub': l - r, 'Mult': l * r}.get(op, Opaque('num'))
            if isinstance(l, Len) and isinstance(r, Len) and op == 'Add':
                return Len(l.filts + r.filts)
            if isinstance(l, Len) and r == 2 and op == 'Mult' or isinstance(r, Len) and l == 2 and op == 'Mult':
                ln = l if isinstance(l, Len) else r
                return Len(ln.filts + ln.filts)
            raise Unsupported('binary op %s' % op)
        if isinstance(n, ast.Subscript):
            b = self.ev(n.value, env)
            return self.load(b, n.slice, env)
        if isinstance(n, ast.Call):
            return self.call(n, env)
        if isinstance(n, ast.IfExp):
            t = self.ev(n.test, env)
            if isinstance(t, bool):
                return self.ev(n.body if t else n.orelse, env)
            raise Unsupported('conditional expression on an unknown test')
        raise Unsupported(type(n).__name__)

    @staticmethod
    def _tb(x):
        if isinstance(x, bool):
            return x
        raise Unsupported('not a boolean element: %r' % (x,))

    @staticmethod
    def _b(x):
        return bool(x)

    def _mask_sets(self, mask):
        out = []
        for s in mask.seglist():
            out.append(frozenset(o for o in s.filt if self._tb(s.val[o])))
        return out

    def _split(self, b, ln):
        """segment index at which the prefix of b has the symbolic length ln"""
        segs = b.seglist()
        f = tuple(s.filt for s in segs)
        for k in range(len(segs) + 1):
            if f[:k] == ln.filts:
                return k
        # lengths are sums: order of the terms does not matter
        for k in range(len(segs) + 1):
            if sorted(map(sorted, f[:k])) == sorted(map(sorted, ln.filts)):
                return k
        raise Unsupported('slice bound is not on a segment boundary')

    def load(self, b, sl, env):
        if isinstance(b, tuple):
            i = self.ev(sl, env)
            if isinstance(i, int) and not isinstance(i, bool):
                if b and b[0] in ('shape', 'ashape'):
                    if b[0] == 'ashape' and i == 0:
                        return b[1]
                    if b[0] == 'shape' and i in (0, 1, -1, -2):
                        return ('dim', b[1])          # square argument: both extents are the same unknown
                    return Opaque('shape[%d]' % i)
                if not -len(b) <= i < len(b):
                    raise Unsupported('tuple index out of range')
                return b[i]
            raise Unsupported('tuple index')
        if isinstance(b, Opaque):
            return Opaque(b.what + '[]')
        if not isinstance(b, (Arr, View)):
            raise Unsupported('subscript of %r' % type(b).__name__)
        if isinstance(sl, ast.Slice):
            if sl.step is not None:
                raise Unsupported('slice step')
            nseg = len(b.seglist())
            lo = 0 if sl.lower is None else self._bound(b, self.ev(sl.lower, env))
            hi = nseg if sl.upper is None else self._bound(b, self.ev(sl.upper, env))
            base, off = (b, 0) if isinstance(b, Arr) else (b.base, b.lo)
            return View(base, off + lo, off + hi)
        sel = self.ev(sl, env)
        picks = self._select(b, sel)
        return Arr([Seg(sset, {o: seg.val[o] for o in sset}) for seg, sset in picks if sset])

    def _bound(self, b, v):
        if isinstance(v, Len):
            return self._split(b, v)
        if v == 0:
            return 0
        raise Unsupported('slice bound %r' % (v,))

    def _select(self, b, sel):
        """-> list of (segment of b, orderings selected in it), in result order"""
        segs = b.seglist()
        if isinstance(sel, (Arr, View)):
            if sel.filts() != b.filts():
                raise Unsupported('mask with a different segmentation')
            return list(zip(segs, self._mask_sets(sel)))
        if isinstance(sel, Idx):
            out = []
            pref = tuple(s.filt for s in segs)
            for off, f, sset in sel.blocks:
                hit = None
                for k, s in enumerate(segs):
                    if s.filt == f and (pref[:k] == off or sorted(map(sorted, pref[:k])) == sorted(map(sorted, off))):
                        hit = s
                        break
                if hit is None:
                    raise Unsupported('index block does not line up with a segment')
                out.append((hit, sset))
            return out
        raise Unsupported('selector %r' % type(sel).__name__)

    def store(self, tgt, val, env):
        b = self.ev(tgt.value, env)
        if not isinstance(b, (Arr, View)):
            raise Unsupported('store into %r' % type(b).__name__)
        if isinstance(tgt.slice, ast.Slice):
            b = self.load(b, tgt.slice, env)
            picks = [(s, s.filt) for s in b.seglist()]
        else:
            picks = [(s, ss) for s, ss in self._select(b, self.ev(tgt.slice, env)) if ss]
        sc = _scalar(val) if not isinstance(val, (Arr, View)) else None
        if isinstance(val, (Arr, View)):
            vs = val.seglist()
            if len(vs) != len(picks) or any(v.filt != ss for v, (_, ss) in zip(vs, picks)):
                raise Unsupported('stored value does not line up with the selected positions')
            new = [dict(v.val) for v in vs]     # read everything before writing (numpy evaluates the rhs first)
        elif sc is not None and not isinstance(sc, bool):
            new = [{o: sc for o in ss} for _, ss in picks]
        else:
            raise Unsupported('stored value')
        for (seg, ss), nv in zip(picks, new):
            for o in ss:
                seg.val[o] = _norm(o, nv[o])

    def call(self, n, env):
        name = _dotted(n.func)
        args = [self.ev(a, env) for a in n.args]
        kw = {k.arg: self.ev(k.value, env) for k in n.keywords if k.arg}
        short = name.split('.')[-1] if name else None
        if name and '.' in name and name.split('.')[0] in ('np', 'numpy') and name.count('.') == 1:
            pass
        elif name in ('len', 'isinstance', 'coo_matrix') or (isinstance(n.func, ast.Name) and n.func.id in self.fns):
            pass
        elif isinstance(n.func, ast.Attribute) and n.func.attr in ('copy', 'astype', 'tocoo'):
            short = None
        else:
            raise Unsupported('call of %s' % name)
        if short in ('concatenate', 'hstack') and args and isinstance(args[0], tuple):
            segs = []
            for a in args[0]:
                if not isinstance(a, (Arr, View)):
                    raise Unsupported('concatenate operand')
                segs += [s.copy() for s in a.seglist()]
            return Arr(segs)
        if short in ('where', 'nonzero') and len(args) == 1 and isinstance(args[0], (Arr, View)):
            return (self._idx(args[0]),)
        if short == 'flatnonzero' and len(args) == 1 and isinstance(args[0], (Arr, View)):
            return self._idx(args[0])
        if short in ('zeros_like',) and args and isinstance(args[0], (Arr, View)):
            return Arr([Seg(s.filt, {o: ('k', 0) for o in s.filt}) for s in args[0].seglist()])
        if short in ('zeros',) and args:
            ln = args[0]
            if isinstance(ln, tuple) and ln and ln[0] == 'ashape':
                ln = ln[1]
            if isinstance(ln, Len):
                return Arr([Seg(f, {o: ('k', 0) for o in f}) for f in ln.filts])
        if short in ('copy', 'array', 'asarray', 'ascontiguousarray') and args and isinstance(args[0], (Arr, View)):
            return Arr([s.copy() for s in args[0].seglist()])
        if isinstance(n.func, ast.Attribute) and n.func.attr == 'copy' and not args:
            b = self.ev(n.func.value, env)
            if isinstance(b, (Arr, View)):
                return Arr([s.copy() for s in b.seglist()])
        if isinstance(n.func, ast.Attribute) and n.func.attr == 'astype':
            b = self.ev(n.func.value, env)
            if isinstance(b, (Arr, View)):
                return Arr([s.copy() for s in b.seglist()])
        if short == 'len' and len(args) == 1 and isinstance(args[0], (Arr, View)):
            return Len(args[0].filts())
        if short == 'logical_and' and len(args) == 2:
            return _elementwise(lambda o, a, b: self._tb(a) and self._tb(b), args[0], args[1])
        if short == 'isinstance':
            if isinstance(args[0], Mat) and len(args) == 2 and isinstance(args[1], Opaque) and args[1].what == 'coo_matrix':
                return True          # the argument is taken in its normalised (coo) form; the other branch is checked in stmt()
            return Opaque('isinstance')
        if short == 'coo_matrix':
            if args and isinstance(args[0], Mat):
                return args[0]
            if args and isinstance(args[0], tuple) and len(args[0]) == 2 and isinstance(args[0][1], tuple):
                v, (r, c) = args[0][0], args[0][1]
                shp = kw.get('shape', args[1] if len(args) > 1 else None)
                ok = isinstance(shp, tuple) and len(shp) == 2 and shp[0] == 'shape' and isinstance(shp[1], Mat)
                # dtype: left to scipy (that of the value array) or the argument's own; anything else changes the values
                dt = kw.get('dtype', args[2] if len(args) > 2 else None)
                ok = ok and (dt is None or (isinstance(dt, tuple) and len(dt) == 2 and dt[0] == 'dtype' and isinstance(dt[1], Mat)))
                ok = ok and not (set(kw) - {'shape', 'dtype'})
                return Result(v, r, c, ok)
            raise Unsupported('coo_matrix form')
        if isinstance(n.func, ast.Attribute) and n.func.attr == 'tocoo':
            b = self.ev(n.func.value, env)
            if isinstance(b, Mat):
                return b
        if isinstance(n.func, ast.Name) and n.func.id in self.fns and self.depth < 3:
            fn = self.fns[n.func.id]
            return Interp(self.fns, self.depth + 1).run(fn, args, kw)
        raise Unsupported('call of %s' % name)

    def _idx(self, mask):
        blocks = []
        f = mask.filts()
        for k, (s, sset) in enumerate(zip(mask.seglist(), self._mask_sets(mask))):
            if sset:
                blocks.append((f[:k], s.filt, sset))
        return Idx(blocks)

    # ---- statements
    def run(self, fn, args, kw):
        env = {}
        self.locals = {x.id for x in ast.walk(fn) if isinstance(x, ast.Name) and isinstance(x.ctx, ast.Store)}
        params = [a.arg for a in fn.args.args]
        defaults = fn.args.defaults
        for p, d in zip(params[len(params) - len(defaults):], defaults):
            env[p] = self.ev(d, {})
        for p, a in zip(params, args):
            env[p] = a
        for k, v in kw.items():
            if k not in params:
                raise Unsupported('keyword %s' % k)
            env[k] = v
        if any(p not in env for p in params) or fn.args.vararg or fn.args.kwarg or fn.args.kwonlyargs:
            raise Unsupported('call binding')
        r = self.block(fn.body, env)
        if r is None:
            raise Unsupported('no return value')
        if r[0] == 'raise':
            raise Raises()
        return r[1]

    def block(self, body, env):
        for st in body:
            r = self.stmt(st, env)
            if r is not None:
                return r
        return None

    def stmt(self, st, env):
        if isinstance(st, ast.Expr):
            if isinstance(st.value, ast.Constant):
                return None
            raise Unsupported('expression statement')
        if isinstance(st, (ast.Assert, ast.Pass)):
            return None
        if isinstance(st, ast.Raise):
            return ('raise', None)
        if isinstance(st, ast.Return):
            return ('return', self.ev(st.value, env))
        if isinstance(st, ast.Assign):
            val = self.ev(st.value, env)
            for t in st.targets:
                self.assign(t, val, env)
            return None
        if isinstance(st, ast.If):
            t = self.ev(st.test, env)
            if isinstance(t, bool):
                if any(isinstance(x, ast.Call) and _dotted(x.func) == 'isinstance' for x in ast.walk(st.test)):
                    # the branch for an argument that is not yet a coo_matrix may only convert it
                    other = st.orelse if t else st.body
                    e2 = dict(env)
                    if self.block(other, e2) is not None or any(e2.get(k) is not env.get(k) for k in set(e2) | set(env)):
                        raise Unsupported('the non-COO branch does more than convert the argument')
                return self.block(st.body if t else st.orelse, env)
            # an undecidable guard is accepted only in front of a block that does nothing but raise
            if all(isinstance(x, ast.Raise) for x in st.body) and not st.orelse:
                return None
            raise Unsupported('branch on an unknown test')
        if isinstance(st, ast.For):
            it = self.ev(st.iter, env)
            if isinstance(it, tuple) and not (it and it[0] in ('shape', 'ashape')):
                for x in it:
                    self.assign(st.target, x, env)
                    r = self.block(st.body, env)
                    if r is not None:
                        return r
                return None
            raise Unsupported('loop')
        raise Unsupported(type(st).__name__)

    def assign(self, t, val, env):
        if isinstance(t, ast.Name):
            env[t.id] = val
        elif isinstance(t, (ast.Tuple, ast.List)):
            if not isinstance(val, tuple) or len(val) != len(t.elts):
                raise Unsupported('unpacking')
            for tt, vv in zip(t.elts, val):
                self.assign(tt, vv, env)
        elif isinstance(t, ast.Subscript):
            self.store(t, val, env)
        else:
            raise Unsupported('assignment target')


def _dotted(n):
    parts = []
    while isinstance(n, ast.Attribute):
        parts.append(n.attr)
        n = n.value
    if isinstance(n, ast.Name):
        parts.append(n.id)
        return '.'.join(reversed(parts))
    return None


def contributions(tree, fname):
    """-> (per-ordering sorted list of (row, col, value) contributions with value != 0, shape_ok)"""
    fns = {n.name: n for n in tree.body if isinstance(n, ast.FunctionDef)}
    fn = fns[fname]
    try:
        res = Interp(fns).run(fn, [Mat()], {})
    except Raises:
        return {o: [('raises',)] for o in ORD}, False
    if not isinstance(res, Result):
        raise Unsupported('the function does not return coo_matrix((v, (r, c)), ...)')
    for x in (res.v, res.r, res.c):
        if not isinstance(x, (Arr, View)):
            raise Unsupported('coo_matrix built from something that is not a tracked array')
    if not (res.v.filts() == res.r.filts() == res.c.filts()):
        raise Unsupported('row / col / data arrays with different segmentation')
    out = {o: [] for o in ORD}
    for sv, sr, sc in zip(res.v.seglist(), res.r.seglist(), res.c.seglist()):
        for o in sv.filt:
            v = sv.val[o]
            if _is0(v):
                continue
            out[o].append((_norm(o, sr.val[o]), _norm(o, sc.val[o]), v))
    for o in ORD:
        out[o].sort(key=repr)
    return out, res.shape_ok


def expected(sign):
    return {'lt': sorted([('R', 'C', ('D', 1)), ('C', 'R', ('D', sign))], key=repr),
            'eq': [('R', 'R', ('D', 1))], 'gt': []}


def show(tr):
    def one(x):
        if x == 'raises':
            return 'raises for a square argument'
        if x == 'R':
            return 'row'
        if x == 'C':
            return 'col'
        if isinstance(x, tuple) and x[0] == 'D':
            return ('' if x[1] > 0 else '-') + 'val'
        if isinstance(x, tuple) and x[0] == 'k':
            return repr(x[1])
        return repr(x)
    return '{' + ', '.join(('(%s, %s, %s)' % tuple(one(y) for y in t)) if len(t) == 3 else one(t[0]) for t in tr) + '}'
