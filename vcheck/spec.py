"""E5 - independent oracles generated from small declarative tables.

Nothing here is copied from the kernels or from theory/*.txt.  A *row* is a
linear differential operator on the displacement field written as a list of
terms ``(coef, field, dx, dy)`` meaning ``coef * d^dx/dxi^dx d^dy/deta^dy field``
(the chain-rule factors (2/a)^dx (2/b)^dy are already inside ``coef``).
"""
from fractions import Fraction as Fr

from .poly import P
from .kernel import Atoms, Factor

S = P.sym
C = P.const
DOF3 = {'u': 0, 'v': 1, 'w': 2}
DOF1 = {'w': 0}


class Geo:
    """geometry symbols of one integration domain"""

    def __init__(self, a=None, b=None, r=None, sina=None, cosa=None, tag=''):
        self.a = a if a is not None else S('a' + tag)
        self.b = b if b is not None else S('b' + tag)
        self.r = r
        self.sina = sina
        self.cosa = cosa
        self.tag = tag

    @property
    def dx(self):
        return C(2) / self.a

    @property
    def dy(self):
        return C(2) / self.b


def strain_rows(model, g):
    """Donnell classical-laminate strain table, six rows
    (exx, eyy, gxy, kxx, kyy, kxy); DESIGN.md section 3/C02."""
    dx, dy = g.dx, g.dy
    exx = [(dx, 'u', 1, 0)]
    eyy = [(dy, 'v', 0, 1)]
    gxy = [(dy, 'u', 0, 1), (dx, 'v', 1, 0)]
    kxx = [(-dx * dx, 'w', 2, 0)]
    kyy = [(-dy * dy, 'w', 0, 2)]
    kxy = [(C(-2) * dx * dy, 'w', 1, 1)]
    if model == 'plate':
        pass
    elif model == 'cpanel':
        eyy = eyy + [(C(1) / g.r, 'w', 0, 0)]
    elif model == 'kpanel':
        sr = g.sina / g.r
        eyy = eyy + [(sr, 'u', 0, 0), (g.cosa / g.r, 'w', 0, 0)]
        gxy = gxy + [(-sr, 'v', 0, 0)]
        kyy = kyy + [(-sr * dx, 'w', 1, 0)]
        # package convention for cones (conecyl cfstrain_donnell): factor 1
        kxy = kxy + [(sr * dy, 'w', 0, 1)]
    else:
        raise ValueError(model)
    return [exx, eyy, gxy, kxx, kyy, kxy]


def only_fields(rows, fields):
    return [[t for t in row if t[1] in fields] for row in rows]


class Builder:
    def __init__(self, atoms=None):
        self.atoms = atoms or Atoms()

    def area_pair(self, tA, tB, xlim=None, ylim=None, tagA='', tagB='', roleA='A', roleB='B'):
        cA, fA, dxA, dyA = tA
        cB, fB, dxB, dyB = tB
        ix = self.atoms.integral('x', 'sub' if xlim else 'full', Factor(roleA, tagA, fA, dxA),
                                 Factor(roleB, tagB, fB, dxB), xlim)
        iy = self.atoms.integral('y', 'sub' if ylim else 'full', Factor(roleA, tagA, fA, dyA),
                                 Factor(roleB, tagB, fB, dyB), ylim)
        return cA * cB * S(ix) * S(iy)

    def point_pair(self, tA, tB, at_xi, at_eta, tagA='', tagB='', roleA='A', roleB='B'):
        """integrand at a point: product of the two operator terms"""
        cA, fA, dxA, dyA = tA
        cB, fB, dxB, dyB = tB
        v = cA * cB
        v = v * S(self.atoms.point('x', Factor(roleA, tagA, fA, dxA), at_xi))
        v = v * S(self.atoms.point('y', Factor(roleA, tagA, fA, dyA), at_eta))
        v = v * S(self.atoms.point('x', Factor(roleB, tagB, fB, dxB), at_xi))
        v = v * S(self.atoms.point('y', Factor(roleB, tagB, fB, dyB), at_eta))
        return v

    def hessian(self, rows, matrix, jac, dof, xlim=None, ylim=None, pair=None):
        """blocks[(P,Q)] = jac * sum_pq matrix(p,q) * <row_p|A,P> <row_q|B,Q>"""
        pair = pair or (lambda tA, tB: self.area_pair(tA, tB, xlim, ylim))
        out = {}
        n = len(rows)
        for p in range(n):
            for q in range(n):
                m = matrix(p, q)
                if not m.t:
                    continue
                for tA in rows[p]:
                    for tB in rows[q]:
                        key = (dof[tA[1]], dof[tB[1]])
                        out[key] = out.get(key, P()) + jac * m * pair(tA, tB)
        return {k: v for k, v in out.items() if v.t}


def F_sym(p, q):
    """symbolic laminate matrix [[A,B],[B,D]], A, B, D symmetric (C01)"""
    bi, bj = sorted((p // 3, q // 3))
    si, sj = sorted((p % 3, q % 3))
    return S('ABD'[bi + bj] + '%d%d' % (si, sj))


def mass_rows(g):
    dx, dy = g.dx, g.dy
    return [[(C(1), 'u', 0, 0)], [(C(1), 'v', 0, 0)], [(C(1), 'w', 0, 0)],
            [(dx, 'w', 1, 0)], [(dy, 'w', 0, 1)]]


def mass_matrix(mu, h, d):
    """kinetic energy density of (u - z w,x, v - z w,y, w), z in [d-h/2, d+h/2]
    rows: u, v, w, w,x, w,y"""
    z0 = h                       # int dz
    z1 = h * d                   # int z dz
    z2 = h * (d * d + h * h * C(Fr(1, 12)))   # int z^2 dz

    def m(p, q):
        tab = {(0, 0): z0, (1, 1): z0, (2, 2): z0,
               (0, 3): -z1, (3, 0): -z1, (1, 4): -z1, (4, 1): -z1,
               (3, 3): z2, (4, 4): z2}
        return mu * tab[(p, q)] if (p, q) in tab else P()
    return m


def slope_rows(g):
    return [[(g.dx, 'w', 1, 0)], [(g.dy, 'w', 0, 1)]]


def prestress_matrix(Nxx, Nyy, Nxy):
    def m(p, q):
        return {(0, 0): Nxx, (1, 1): Nyy, (0, 1): Nxy, (1, 0): Nxy}[(p, q)]
    return m
