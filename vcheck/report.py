"""E7 - obligations, evidence, known findings, exit codes."""
import json
import os
import sys
import time

VERIF = os.path.dirname(os.path.dirname(os.path.abspath(__file__)))
REPO = os.environ.get('VERIF_REPO', '/repo')


class AnalysisError(Exception):
    """an anchor vanished / a floor is not met / a source cannot be parsed:
    the analysis itself is broken -> exit 2, never a pass and never a VIOLATION"""


def repo_path(rel):
    return os.path.join(REPO, rel)


def load_known():
    p = os.path.join(VERIF, 'known_findings.json')
    if not os.path.exists(p):
        return {}, []
    data = json.load(open(p))
    known = {}
    for e in data.get('known', []):
        known[e['key']] = e
    return known, data.get('fixed', [])


class Check:
    def __init__(self, pid, tier='quick', level='other'):
        self.pid = pid
        self.tier = tier
        self.level = level
        self.t0 = time.time()
        self.obligations = 0
        self.discharged = 0
        self.violations = []       # dicts
        self.known_hits = []
        self.rules = {}            # rule -> [n_obl, n_ok]
        self.constructs = set()    # distinct (rule, construct)
        self.samples = []
        self.analysed = {}         # free-form: what was analysed
        self.notes = []
        self.trusted = []
        self.assumptions = []
        self.explanation = ''
        self.extra = {}
        self.known, self.fixed = load_known()
        try:
            self.seed = int(os.environ.get('VERIF_SEED', '0'))
        except ValueError:
            self.seed = 0

    # ------------------------------------------------------------------
    def key(self, rule, file, func, construct):
        return '%s:%s:%s::%s::%s' % (self.pid, rule, file, func, construct)

    def ob(self, rule, ok, file='', func='', construct='', line=0, expected='', got='',
           detail='', sample=None):
        """record one obligation. Returns ok."""
        self.obligations += 1
        r = self.rules.setdefault(rule, [0, 0])
        r[0] += 1
        self.constructs.add((rule, file, func, construct))
        if ok:
            self.discharged += 1
            r[1] += 1
            if sample is not None and len([s for s in self.samples if s.get('rule') == rule]) < 2:
                self.samples.append({'rule': rule, 'file': file, 'function': func,
                                     'construct': construct, 'normal_form': str(sample)[:600]})
            return True
        key = self.key(rule, file, func, construct)
        rec = {'key': key, 'property': self.pid, 'rule': rule, 'file': file, 'line': line,
               'function': func, 'construct': construct, 'expected': str(expected)[:1500],
               'got': str(got)[:1500], 'detail': str(detail)[:1500]}
        if key in self.known:
            self.known_hits.append(rec)
        else:
            self.violations.append(rec)
        return False

    def floor(self, what, count, minimum):
        if count < minimum:
            if self.violations:
                # instances that could not be completed because of an already reported violation explain a lower
                # count; the run fails with that violation (exit 1), not with an analysis error that would hide it
                self.notes.append('%s: %d instances (floor %d) - lower because of the reported violation(s)' % (what, count, minimum))
            else:
                raise AnalysisError('%s: instance count %d below the hand-confirmed floor %d (%s)'
                                    % (self.pid, count, minimum, what))
        self.analysed[what] = count

    def need(self, cond, msg):
        if not cond:
            raise AnalysisError('%s: %s' % (self.pid, msg))

    def note(self, msg):
        self.notes.append(msg)

    # ------------------------------------------------------------------
    def finish(self):
        wall = time.time() - self.t0
        evdir = os.environ.get('VERIF_EVIDENCE_DIR') or os.path.join(VERIF, 'evidence')
        os.makedirs(os.path.join(evdir, 'replay'), exist_ok=True)
        # stale replays of this property are removed
        for f in os.listdir(os.path.join(evdir, 'replay')):
            if f.startswith(self.pid + '-'):
                try:
                    os.remove(os.path.join(evdir, 'replay', f))
                except OSError:
                    pass
        for rec in self.known_hits:
            print('KNOWN-FINDING: property=%s %s [%s]' % (
                self.pid, self.known[rec['key']].get('what', rec['detail']), rec['key']))
        hit = {r['key'] for r in self.known_hits}
        stale = sorted(k for k, e in self.known.items() if e.get('property') == self.pid and k not in hit)
        for k in stale:
            # a listed finding that no rule reports any more: repaired, or the checker lost the rule - never silent
            print('STALE-KNOWN-FINDING: property=%s key=%s is listed in known_findings.json but was not reported on this tree' % (self.pid, k))
        n = 0
        for rec in self.violations:
            n += 1
            rp = os.path.join(evdir, 'replay', '%s-%03d.json' % (self.pid, n))
            with open(rp, 'w') as f:
                json.dump(rec, f, indent=1)
            print('%s:%s: %s rule %s instance %s: %s | expected: %s | got: %s' % (
                rec['file'], rec['line'], rec['function'], rec['rule'], rec['construct'],
                rec['detail'][:300], rec['expected'][:300], rec['got'][:300]))
            print('VIOLATION property=%s replay=%s' % (self.pid, rp))
        changed = {}
        if self.violations:
            # diagnosis aid: for every analysed Python function that differs from its confirmed version and could not be proved
            # equivalent to it, where the two normal forms part (this is usually the edit that matters, stripped of the restructuring)
            try:
                import difflib
                from . import pyflow
                files = {rec['file'] for rec in self.violations}
                for rel, m in list(pyflow._mods.items()):
                    if rel not in files:
                        continue
                    for q, (ta, tb) in getattr(m, 'unproved', {}).items():
                        if not ta or not tb:
                            continue
                        d = [l for l in difflib.unified_diff(tb.split('\n'), ta.split('\n'), 'confirmed', 'current', lineterm='', n=0)
                             if l[:1] in '+-' and not l.startswith(('+++', '---'))]
                        if d:
                            changed['%s::%s' % (rel, q)] = [x[:240] for x in d[:12]]
                            print('NOTE %s %s differs from its confirmed version (normal forms, local names v0, v1, ...; %d differing lines):' % (rel, q, len(d)))
                            for x in d[:8]:
                                print('     ' + x[:200])
            except Exception:
                pass
        cov = {
            # obligations that hit a *listed* known finding are reported apart
            'obligations': self.obligations - len(self.known_hits),
            'discharged': self.discharged,
            'known_finding_obligations': len(self.known_hits),
            'checker_cmd': './check %s --tier %s' % (self.pid, self.tier),
            'trusted_base': self.trusted,
            'explanation': self.explanation,
            'evaluations': self.obligations,
            'distinct_nontrivial': len(self.constructs),
            'rule': 'one evaluation = one rule instance (obligation) discharged on a construct of '
                    'the parsed source; distinct = distinct (rule, file, function, construct)',
            'samples': self.samples[:12] or [{'note': 'no sample recorded'}],
            'per_rule': {k: {'obligations': v[0], 'discharged': v[1]} for k, v in sorted(self.rules.items())},
            'analysed': self.analysed,
            'known_findings_hit': [r['key'] for r in self.known_hits],
            'known_findings_not_reproduced': stale,
            'notes': self.notes,
            'repo': REPO,
        }
        if changed:
            cov['changed_functions_not_proved_equivalent'] = changed
        cov.update(self.extra)
        ev = {
            'property_id': self.pid,
            'tier': self.tier,
            'seed': self.seed,
            'level': self.level,
            'coverage': cov,
            'assumptions': self.assumptions,
            'wall_s': round(wall, 3),
            'violations': len(self.violations),
        }
        with open(os.path.join(evdir, self.pid + '.json'), 'w') as f:
            json.dump(ev, f, indent=1)
        print('%s tier=%s obligations=%d discharged=%d known=%d violations=%d constructs=%d wall=%.2fs' % (
            self.pid, self.tier, self.obligations, self.discharged, len(self.known_hits),
            len(self.violations), len(self.constructs), wall))
        return 1 if self.violations else 0
