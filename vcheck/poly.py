"""E3 - normal forms: sparse Laurent polynomials over exact rationals.

A polynomial is ``{monomial: Fraction}`` where a monomial is a sorted tuple of
``(atom, exponent)`` pairs, atoms being strings and exponents non-zero ints
(negative exponents allowed: division by monomials).  ``Rat`` adds polynomial
denominators with cross-multiplied equality.  Nothing here is specific to
compmech.
"""
from fractions import Fraction
import ast

ZERO = Fraction(0)
ONE = Fraction(1)


class NonMonomialDivision(Exception):
    pass


class P:
    __slots__ = ('t',)

    def __init__(self, t=None):
        self.t = t if t is not None else {}

    # ---- constructors
    @staticmethod
    def const(c):
        c = Fraction(c)
        return P({(): c}) if c else P()

    @staticmethod
    def sym(name, e=1):
        return P({((name, e),): ONE})

    # ---- ring operations
    def __add__(a, b):
        if not isinstance(b, P):
            b = P.const(b)
        t = dict(a.t)
        for m, c in b.t.items():
            v = t.get(m, ZERO) + c
            if v:
                t[m] = v
            else:
                t.pop(m, None)
        return P(t)

    __radd__ = __add__

    def __neg__(a):
        return P({m: -c for m, c in a.t.items()})

    def __sub__(a, b):
        if not isinstance(b, P):
            b = P.const(b)
        return a + (-b)

    def __rsub__(a, b):
        return P.const(b) - a

    def __mul__(a, b):
        if not isinstance(b, P):
            b = P.const(b)
        if len(a.t) > len(b.t):
            a, b = b, a
        t = {}
        for m1, c1 in a.t.items():
            if not m1:
                for m2, c2 in b.t.items():
                    v = t.get(m2, ZERO) + c1 * c2
                    if v:
                        t[m2] = v
                    else:
                        t.pop(m2, None)
                continue
            d1 = dict(m1)
            for m2, c2 in b.t.items():
                if m2:
                    d = dict(d1)
                    for s, e in m2:
                        v = d.get(s, 0) + e
                        if v:
                            d[s] = v
                        else:
                            del d[s]
                    m = tuple(sorted(d.items()))
                else:
                    m = m1
                v = t.get(m, ZERO) + c1 * c2
                if v:
                    t[m] = v
                else:
                    t.pop(m, None)
        return P(t)

    __rmul__ = __mul__

    def is_monomial(a):
        return len(a.t) == 1

    def inv(a):
        if len(a.t) != 1:
            raise NonMonomialDivision(repr(a)[:200])
        (m, c), = a.t.items()
        return P({tuple((s, -e) for s, e in m): 1 / c})

    def __truediv__(a, b):
        if not isinstance(b, P):
            return a * P.const(1 / Fraction(b))
        return a * b.inv()

    def __pow__(a, n):
        n = int(n)
        if n < 0:
            return a.inv() ** (-n)
        r = P.const(1)
        for _ in range(n):
            r = r * a
        return r

    # ---- comparisons
    def __eq__(a, b):
        return isinstance(b, P) and a.t == b.t

    def __hash__(a):
        return hash(frozenset(a.t.items()))

    def __bool__(a):
        return bool(a.t)

    def scale(a):
        return max((abs(v) for v in a.t.values()), default=ZERO)

    def close(a, b, tol=Fraction(1, 10 ** 9), ref=None):
        """coefficient-wise equality relative to the largest coefficient of
        ``ref`` (default: of either side)."""
        if a.t == b.t:
            return True
        sc = ref.scale() if ref is not None and ref.t else max(a.scale(), b.scale())
        if not sc:
            sc = ONE
        for k in set(a.t) | set(b.t):
            if abs(a.t.get(k, ZERO) - b.t.get(k, ZERO)) > tol * sc:
                return False
        return True

    def diffterms(a, b, limit=4, tol=Fraction(1, 10 ** 9)):
        """human readable list of the monomials where a and b differ"""
        sc = max(a.scale(), b.scale()) or ONE
        out = []
        for k in sorted(set(a.t) | set(b.t)):
            x, y = a.t.get(k, ZERO), b.t.get(k, ZERO)
            if abs(x - y) > tol * sc:
                out.append('%s: got %s expected %s' % (fmt_mono(k), fmt_c(x), fmt_c(y)))
                if len(out) >= limit:
                    break
        return out

    # ---- calculus / substitution
    def diff(a, sym):
        t = {}
        for m, c in a.t.items():
            d = dict(m)
            e = d.get(sym)
            if e is None:
                continue
            if e == 1:
                del d[sym]
            else:
                d[sym] = e - 1
            mm = tuple(sorted(d.items()))
            v = t.get(mm, ZERO) + c * e
            if v:
                t[mm] = v
            else:
                t.pop(mm, None)
        return P(t)

    def subs(a, mapping):
        """substitute atoms by polynomials: mapping = {atom: P}"""
        if not mapping:
            return a
        r = {}
        cache = {}
        for m, c in a.t.items():
            rest = []
            factors = []
            for s, e in m:
                if s in mapping:
                    factors.append((s, e))
                else:
                    rest.append((s, e))
            if not factors:
                v = r.get(m, ZERO) + c
                if v:
                    r[m] = v
                else:
                    r.pop(m, None)
                continue
            term = P({tuple(rest): c})
            for s, e in factors:
                key = (s, e)
                if key not in cache:
                    cache[key] = mapping[s] ** e
                term = term * cache[key]
            for mm, cc in term.t.items():
                v = r.get(mm, ZERO) + cc
                if v:
                    r[mm] = v
                else:
                    r.pop(mm, None)
        return P(r)

    def rename(a, fn):
        """apply an atom -> atom function (must be injective on each monomial
        or products are merged correctly anyway)"""
        r = {}
        for m, c in a.t.items():
            d = {}
            for s, e in m:
                s2 = fn(s)
                v = d.get(s2, 0) + e
                if v:
                    d[s2] = v
                else:
                    d.pop(s2, None)
            mm = tuple(sorted(d.items()))
            v = r.get(mm, ZERO) + c
            if v:
                r[mm] = v
            else:
                r.pop(mm, None)
        return P(r)

    def atoms(a):
        return {s for m in a.t for s, _ in m}

    def degree_in(a, pred):
        """set of total degrees (sum of exponents) over atoms selected by pred,
        one entry per monomial"""
        return {sum(e for s, e in m if pred(s)) for m in a.t}

    def part(a, pred_mono):
        return P({m: c for m, c in a.t.items() if pred_mono(m)})

    def coeff_of(a, atom, e=1):
        """polynomial multiplying atom**e exactly"""
        r = {}
        for m, c in a.t.items():
            d = dict(m)
            if d.get(atom, 0) == e:
                d.pop(atom, None)
                r[tuple(sorted(d.items()))] = c
        return P(r)

    def __repr__(a):
        return fmt_poly(a)


def fmt_c(c):
    if c.denominator == 1:
        return str(c.numerator)
    if c.denominator < 10 ** 6:
        return '%d/%d' % (c.numerator, c.denominator)
    return '%.12g' % float(c)


def fmt_mono(m):
    return '*'.join(s if e == 1 else '%s^%d' % (s, e) for s, e in m) or '1'


def fmt_poly(p, limit=12):
    items = sorted(p.t.items())
    s = ' + '.join('%s*%s' % (fmt_c(c), fmt_mono(m)) for m, c in items[:limit])
    if len(items) > limit:
        s += ' + ...(%d terms)' % len(items)
    return s or '0'


def nfs(p):
    """compact canonical string of a normal form (used inside atom names)"""
    if not p.t:
        return '0'
    if len(p.t) == 1:
        (m, c), = p.t.items()
        if not m:
            return fmt_c(c)
        if c == 1 and len(m) == 1 and m[0][1] == 1:
            return m[0][0]
    return fmt_poly(p, limit=60).replace(' ', '')


class Rat:
    """num/den with polynomial denominators; equality by cross multiplication"""
    __slots__ = ('n', 'd')

    def __init__(self, n, d=None):
        self.n = n if isinstance(n, P) else P.const(n)
        self.d = d if d is not None else P.const(1)

    @staticmethod
    def lift(x):
        if isinstance(x, Rat):
            return x
        if isinstance(x, P):
            return Rat(x)
        return Rat(P.const(x))

    def __add__(a, b):
        b = Rat.lift(b)
        if a.d == b.d:
            return Rat(a.n + b.n, a.d)
        return Rat(a.n * b.d + b.n * a.d, a.d * b.d)

    __radd__ = __add__

    def __neg__(a):
        return Rat(-a.n, a.d)

    def __sub__(a, b):
        return a + (-Rat.lift(b))

    def __rsub__(a, b):
        return Rat.lift(b) - a

    def __mul__(a, b):
        b = Rat.lift(b)
        return Rat(a.n * b.n, a.d * b.d)

    __rmul__ = __mul__

    def __truediv__(a, b):
        b = Rat.lift(b)
        return Rat(a.n * b.d, a.d * b.n)

    def __rtruediv__(a, b):
        return Rat.lift(b) / a

    def __pow__(a, n):
        n = int(n)
        if n < 0:
            return Rat(a.d ** (-n), a.n ** (-n))
        return Rat(a.n ** n, a.d ** n)

    def equals(a, b, tol=Fraction(1, 10 ** 9), reduce=None):
        b = Rat.lift(b)
        l = a.n * b.d
        r = b.n * a.d
        if reduce:
            l, r = reduce(l), reduce(r)
        return l.close(r, tol)

    def subs(a, mapping):
        return Rat(a.n.subs(mapping), a.d.subs(mapping))

    def __repr__(a):
        return '(%r)/(%r)' % (a.n, a.d)


# --------------------------------------------------------------------------
# python-ast expression -> polynomial


class Unsupported(Exception):
    pass


def const_fraction(value):
    if isinstance(value, bool):
        return Fraction(int(value))
    if isinstance(value, int):
        return Fraction(value)
    if isinstance(value, float):
        return Fraction(repr(value))
    raise Unsupported('constant %r' % (value,))


def from_ast(node, env=None, leaf=None, ring=P):
    """Expand an arithmetic ast expression.

    env: name -> value (P or Rat) for substitution of reaching definitions;
    leaf: callback(node) for Subscript/Call/Attribute nodes, returning a value
    or None (=> opaque atom named by the unparsed text);
    ring: P (monomial division only) or Rat.
    """
    env = env or {}

    def lift(x):
        if ring is Rat:
            return Rat.lift(x)
        return x

    def rec(n):
        if isinstance(n, ast.Expression):
            return rec(n.body)
        if isinstance(n, ast.Constant):
            return lift(P.const(const_fraction(n.value)))
        if isinstance(n, ast.Name):
            if n.id in env:
                return lift(env[n.id])
            return lift(P.sym(n.id))
        if isinstance(n, ast.BinOp):
            l = rec(n.left)
            if isinstance(n.op, ast.Pow):
                r = rec(n.right)
                rp = r.n if isinstance(r, Rat) else r
                if not rp.t:
                    return lift(P.const(1))
                lp_ = l.n if isinstance(l, Rat) and l.d == P.const(1) else l
                if isinstance(lp_, P) and set(rp.t) - {()} and set(lp_.t) <= {()}:
                    # constant base, symbolic exponent, e.g. (-1)**i1: an opaque atom
                    return lift(P.sym('(%s)**(%s)' % (nfs(lp_), nfs(rp))))
                if set(rp.t) == {()} and rp.t[()] == Fraction(1, 2):
                    base = l.n if isinstance(l, Rat) and l.d == P.const(1) else l
                    if isinstance(base, P):
                        return lift(P.sym('sqrt(%s)' % nfs(base)))
                if set(rp.t) != {()} or rp.t[()].denominator != 1:
                    raise Unsupported('non-integer power: ' + ast.unparse(n))
                return l ** int(rp.t[()])
            r = rec(n.right)
            if isinstance(n.op, ast.Add):
                return l + r
            if isinstance(n.op, ast.Sub):
                return l - r
            if isinstance(n.op, ast.Mult):
                return l * r
            if isinstance(n.op, (ast.Div, ast.FloorDiv)):
                if isinstance(n.op, ast.FloorDiv):
                    raise Unsupported('floor division: ' + ast.unparse(n))
                return l / r
            raise Unsupported('operator in ' + ast.unparse(n))
        if isinstance(n, ast.UnaryOp):
            v = rec(n.operand)
            if isinstance(n.op, ast.USub):
                return -v
            if isinstance(n.op, ast.UAdd):
                return v
            raise Unsupported('unary in ' + ast.unparse(n))
        if isinstance(n, (ast.Subscript, ast.Call, ast.Attribute)):
            if leaf is not None:
                v = leaf(n)
                if v is not None:
                    return lift(v)
            return lift(P.sym(ast.unparse(n).replace(' ', '')))
        raise Unsupported(type(n).__name__ + ': ' + ast.unparse(n)[:80])

    return rec(node)
