"""C04 - mass matrix = Hessian of the kinetic energy; offset convention."""
import ast

from . import spec, panelk, pyrules, pyflow
from .poly import P
from .spec import S, C
from .report import AnalysisError

LEVEL = 'proof'
R = {'hess': 'R04.1', 'alias': 'R04.1', 'frame': 'R04.1', 'index': 'R04.1', 'swap': 'R04.1'}


def kM_spec(model, nlead, sign):
    def fn(frame, k):
        g = frame.geo()
        b = spec.Builder()
        d = S(k.w.params[nlead]) * C(sign)
        mu, h = S('mu'), S('sum(plyts)')
        if model == 'plate_w':
            rows = spec.only_fields(spec.mass_rows(g), {'w'})
            dof = spec.DOF1
        else:
            rows = spec.mass_rows(g)
            dof = spec.DOF3
        jac = g.a * g.b / C(4)
        return b.hessian(rows, spec.mass_matrix(mu, h, d), jac, dof, xlim=frame.xlim, ylim=frame.ylim)
    return fn


def kernel_convention(chk, model, rel, fname, sub, num):
    """-> +1 / -1 / 0 (no coupling): the sign s for which the kernel is the
    kinetic-energy Hessian of a plate occupying z in [s*d - h/2, s*d + h/2]"""
    nlead = 2 if sub else 0
    k = panelk.load_kernel(chk, rel, fname)
    got = {pq: panelk.canon_F(k.block(pq)) for pq in k.blocks}
    fr = panelk.Frame(model, k, sub)
    match = []
    for s in (+1, -1):
        exp = kM_spec(model, nlead, s)(fr, k)
        if all(got.get(pq, P()).close(exp.get(pq, P())) for pq in set(got) | set(exp)):
            match.append(s)
    if len(match) == 2:
        return 0
    if len(match) == 1:
        return match[0]
    return None


def run(chk):
    chk.level = LEVEL
    chk.trusted = ['python3 ast', 'E1 lowering', 'Fraction polynomial arithmetic',
                   'C10: integral_* return the exact Bardell integrals', 'C01: offset places the laminate at z in [d-h/2, d+h/2]']
    nums = pyrules.modeldb_nums(chk)
    conv = {}
    nemit = 0
    for model in ('plate', 'plate_w', 'cpanel', 'kpanel'):
        rel = panelk.MODELS[model]
        res = {}
        for fname in ('fkM', 'fkMy1y2'):
            sub = fname.endswith('y1y2')
            s = kernel_convention(chk, model, rel, fname, sub, nums[model])
            conv[(model, fname)] = s
            # R04.1 against the kernel's own convention (or +1 when neither fits, so the diff is shown)
            k, got, fr, bad = panelk.check_matrix_kernel(chk, R, model, rel, fname, sub, nums[model],
                                                          kM_spec(model, 2 if sub else 0, s if s in (1, -1) else -1 if s is None else 1),
                                                          'Hessian of the kinetic energy of (u - z w,x, v - z w,y, w)')
            res[fname] = (k, got)
            nemit += len(got)
            hdef = [a for v in got.values() for a in v.atoms() if a.startswith('sum(')]
            chk.ob('R04.1', set(hdef) <= {'sum(plyts)'}, rel, fname, 'thickness', expected='h = sum(panel.plyts)', got=sorted(set(hdef)))
        panelk.sibling_check(chk, 'R04.1', model, 'fkM', 'fkMy1y2', res['fkM'][1], res['fkMy1y2'][1], res['fkMy1y2'][0])
    chk.floor('R04.1 emitted blocks', nemit, 44)
    chk.extra['kernel_offset_convention'] = {'%s.%s' % k: v for k, v in conv.items()}
    pyrules.r04_python(chk, conv)
    from . import stiffk
    stiffk.r04_3(chk)
    chk.explanation = ('fkM/fkMy1y2 compared with the Hessian of the kinetic energy density integrated '
                       'through the thickness; the offset sign convention of each kernel is derived and '
                       'compared at the Python call sites with the laminate convention fixed by C01')
