def r03_numeric(chk):
    pass
