"""Numerically integrated panel kernels (fkL_num, fkG_num, calc_fint):
extraction, quadrature frame, accumulators, and the oracles shared by C03
(R03.2), C08 and C14 (R14.4)."""
import ast
import re
from fractions import Fraction as Fr

from . import pyxast, spec, panelk
from .kernel import MatrixKernel, VectorKernel, Factor, Issue
from .poly import P, nfs
from .spec import S, C
from .report import repo_path, REPO, AnalysisError

STRAINS = ('E0', 'E1', 'E2', 'E3', 'E4', 'E5')


class NumModel:
    """the three numeric kernels of one model, with canonical accumulator names"""

    def __init__(self, chk, model):
        self.model = model
        self.rel = panelk.NUM_MODELS[model]
        u = pyxast.parse(repo_path(self.rel), REPO)
        self.unit = u
        for f in ('fkL_num', 'fkG_num', 'calc_fint'):
            chk.need(u.func(f) is not None, 'anchor vanished: %s in %s' % (f, self.rel))
        try:
            self.kL = self._load_matrix(u, 'fkL_num')
            self.kG = self._load_matrix(u, 'fkG_num')
            fn = u.func('calc_fint')
            rets = [n for n in ast.walk(fn) if isinstance(n, ast.Return) and isinstance(n.value, ast.Name)]
            chk.need(len(rets) == 1, 'calc_fint: expected `return <vector>`')
            self.fint = VectorKernel(u, 'calc_fint', rets[0].value.id, state_arrays=(fn.args.args[0].arg,))
        except KeyError as e:
            raise AnalysisError(str(e))
        self.geo = spec.Geo(r=S('r')) if model == 'cpanel' else spec.Geo()

    @staticmethod
    def _load_matrix(u, fname):
        fn = u.func(fname)
        return MatrixKernel(u, fname, state_arrays=(fn.args.args[0].arg,))

    def kernels(self):
        return (('fkL_num', self.kL), ('fkG_num', self.kG), ('calc_fint', self.fint))


# --------------------------------------------------------------------------
# quadrature frame


def quad_frame(chk, rule, nm, fname, k):
    """points and weights come from leggauss_quad(n, &pts[0], &wts[0]); the point
    loops run over range(n); weight = wts_x[ptx]*wts_y[pty].  -> (at_xi, at_eta, W)"""
    rel = nm.rel
    w = k.w
    quads = [(c, loops) for name, c, loops in w.calls if name == 'leggauss_quad']
    ok = len(quads) == 2 and all(len(c.args) == 3 for c, l in quads)
    chk.ob(rule, ok, rel, fname, 'two leggauss_quad calls', got=[ast.unparse(c) for c, l in quads])
    if not ok:
        return None
    arrs = []
    for c, loops in quads:
        n = ast.unparse(c.args[0])
        m1 = re.match(r'^ADDR\((\w+)\[0\]\)$', ast.unparse(c.args[1]).replace(' ', ''))
        m2 = re.match(r'^ADDR\((\w+)\[0\]\)$', ast.unparse(c.args[2]).replace(' ', ''))
        if not (m1 and m2) or loops:
            chk.ob(rule, False, rel, fname, 'leggauss_quad arguments', line=c.lineno, got=ast.unparse(c),
                   expected='leggauss_quad(n, &points[0], &weights[0]) outside the loops')
            return None
        arrs.append((n, m1.group(1), m2.group(1)))
    # the at-strings of the point atoms
    ats = {'x': set(), 'y': set()}
    for a, info in w.atoms.reg.items():
        if info[0] == 'P':
            ats[info[1]].add(info[3])
    if len(ats['x']) != 1 or len(ats['y']) != 1:
        chk.ob(rule, False, rel, fname, 'one evaluation point per direction', got={k_: sorted(v) for k_, v in ats.items()})
        return None
    at_x, at_y = ats['x'].pop(), ats['y'].pop()
    res = {}
    for d, at in (('x', at_x), ('y', at_y)):
        m = re.match(r'^(\w+)\[(L\d+)\]$', at)
        hit = [a for a in arrs if m and a[1] == m.group(1)]
        ok = bool(m) and len(hit) == 1
        lp = next((l for l in w.all_loops if m and l.tok == m.group(2)), None)
        ok = ok and lp is not None and lp.kind == 'range' and lp.bound is not None and nfs(lp.bound) == hit[0][0]
        chk.ob(rule, ok, rel, fname, 'Gauss points %s' % d, expected='functions evaluated at points[pt], pt in range(n), points from leggauss_quad(n, ...)',
               got='%s, loop bound %s' % (at, nfs(lp.bound) if lp is not None and lp.bound is not None else None),
               sample='%s: %s-functions at %s, n=%s' % (fname, d, at, hit[0][0] if hit else '?'))
        if not ok:
            return None
        res[d] = (hit[0][2], m.group(2))
    W = S('%s[%s]' % res['x']) * S('%s[%s]' % res['y'])
    return at_x, at_y, W


# --------------------------------------------------------------------------
# accumulators


def lin_spec(nm, at_x, at_y, atoms, role='S'):
    """linear forms of the six strain rows and the two slopes: name -> {dof: P}"""
    g = nm.geo
    rows = spec.strain_rows(nm.model, g)
    out = {}

    def phi(f, dx, dy, r=role):
        return S(atoms.point('x', Factor(r, '', f, dx), at_x)) * S(atoms.point('y', Factor(r, '', f, dy), at_y))
    for p, row in enumerate(rows):
        d = {}
        for (c, f, dx, dy) in row:
            d[spec.DOF3[f]] = d.get(spec.DOF3[f], P()) + c * phi(f, dx, dy)
        out['E%d' % p] = d
    out['WX'] = {2: phi('w', 1, 0)}
    out['WE'] = {2: phi('w', 0, 1)}
    return out


def canon_accumulators(chk, rule, nm, fname, k, at_x, at_y, expect):
    """match the extracted linear forms against the strain table; returns the
    rename map '@local' -> '@E0'... ; every expected accumulator must be found"""
    w = k.w
    sp = lin_spec(nm, at_x, at_y, w.atoms)
    mp = {}
    found = {}
    for name, lin in w.lin.items():
        hit = None
        for cname, d in sp.items():
            if set(d) == set(lin) and all(lin[q].close(d[q]) for q in d):
                hit = cname
        line = w.lin_lines.get(name, 0)
        if hit is None:
            chk.ob(rule, False, nm.rel, fname, 'accumulator ' + name, line=line,
                   expected='one of the strain-table linear forms over the amplitude vector',
                   got={q: repr(v) for q, v in lin.items()},
                   detail='accumulated quantity %s is not a row of the Donnell strain table (nor a slope of w)' % name)
            continue
        found[hit] = name
        mp['@' + name] = '@' + hit
        chk.ob(rule, True, nm.rel, fname, 'accumulator %s' % hit, line=line,
               sample='%s: %s = sum_S c_S * %s' % (fname, name, {q: repr(v) for q, v in lin.items()}))
        # the amplitude index map: col0 + num*(j*m + i)
        for fdef, mapping, ln in w.lin_maps.get(name, []):
            toks = sorted(w.loop_tokens(fdef))
            xs = [t for t in toks if panelk._bound_atom(w, t) == 'm']
            ys = [t for t in toks if panelk._bound_atom(w, t) == 'n']
            okm = len(xs) == 1 and len(ys) == 1 and fdef.d == P.const(1) and \
                fdef.n == S('col0') + C(3) * (S(ys[0]) * S('m') + S(xs[0]))
            if not okm:
                chk.ob(rule, False, nm.rel, fname, 'amplitude index map of ' + name, line=ln,
                       expected='col0 + num*(j*m + i)', got=repr(fdef))
    for cname in expect:
        if cname not in found:
            chk.ob(rule, False, nm.rel, fname, 'accumulator %s' % cname, expected='present', got='missing',
                   detail='no accumulated quantity equals strain-table row %s' % cname)
    return mp, sp


def canon(p, mp):
    return panelk.canon_F(p).rename(lambda a: mp.get(a, a))


# --------------------------------------------------------------------------
# oracles


def strain_totals(nm):
    g = nm.geo
    E = [S('@E%d' % p) for p in range(6)]
    half = C(Fr(1, 2))
    E[0] = E[0] + half * g.dx * g.dx * S('@WX') * S('@WX')
    E[1] = E[1] + half * g.dy * g.dy * S('@WE') * S('@WE')
    E[2] = E[2] + g.dx * g.dy * S('@WX') * S('@WE')
    return E


def deps(nm, sp_role, role_lin, P_):
    """d eps_p / d c_{R,P} for p = 0..5 (list of P), given lin_spec for role R"""
    g = nm.geo
    out = []
    for p in range(6):
        v = role_lin['E%d' % p].get(P_, P())
        if P_ == 2:
            phix = role_lin['WX'][2]
            phiy = role_lin['WE'][2]
            if p == 0:
                v = v + g.dx * g.dx * S('@WX') * phix
            elif p == 1:
                v = v + g.dy * g.dy * S('@WE') * phiy
            elif p == 2:
                v = v + g.dx * g.dy * (S('@WX') * phiy + S('@WE') * phix)
        out.append(v)
    return out


def d2eps(nm, linA, linB):
    g = nm.geo
    ax, ay = linA['WX'][2], linA['WE'][2]
    bx, by = linB['WX'][2], linB['WE'][2]
    return [g.dx * g.dx * ax * bx, g.dy * g.dy * ay * by, g.dx * g.dy * (ax * by + ay * bx)]


def oracles(nm, at_x, at_y, W, atoms):
    """-> dict with fint[P], kL[(P,Q)], kG[(P,Q)] built from the strain table"""
    g = nm.geo
    J = g.a * g.b / C(4)
    eps = strain_totals(nm)
    sig = [sum((spec.F_sym(p, q) * eps[q] for q in range(6)), P()) for p in range(6)]
    linA = lin_spec(nm, at_x, at_y, atoms, 'A')
    linB = lin_spec(nm, at_x, at_y, atoms, 'B')
    fint, kL, kG = {}, {}, {}
    dA = {P_: deps(nm, None, linA, P_) for P_ in range(3)}
    dB = {P_: deps(nm, None, linB, P_) for P_ in range(3)}
    for P_ in range(3):
        v = P()
        for p in range(6):
            v = v + sig[p] * dA[P_][p]
        fint[P_] = W * J * v
        for Q in range(3):
            v = P()
            for p in range(6):
                if not dA[P_][p].t:
                    continue
                for q in range(6):
                    if dB[Q][q].t:
                        v = v + spec.F_sym(p, q) * dA[P_][p] * dB[Q][q]
            if v.t:
                kL[(P_, Q)] = W * J * v
    d2 = d2eps(nm, linA, linB)
    kG[(2, 2)] = W * J * (sig[0] * d2[0] + sig[1] * d2[1] + sig[2] * d2[2])
    return {'fint': fint, 'kL': kL, 'kG': kG, 'sig': sig, 'eps': eps, 'J': J}


def point_image(p, atoms_from, atoms_to, at_x, at_y, roles=None):
    """homomorphism integral atom -> product of point atoms at (xi, eta)"""
    mp = {}
    for a in p.atoms():
        info = atoms_from.reg.get(a)
        if info and info[0] == 'I':
            at = at_x if info[1] == 'x' else at_y
            f1, f2 = info[3]
            if roles:
                f1 = f1.with_tok(roles.get(f1.tok, f1.tok))
                f2 = f2.with_tok(roles.get(f2.tok, f2.tok))
            mp[a] = S(atoms_to.point(info[1], f1, at)) * S(atoms_to.point(info[1], f2, at))
    return p.subs(mp)


# --------------------------------------------------------------------------
# rule drivers


_cache = {}


def analysed(chk, model):
    """load + frame + accumulators once per run and model"""
    key = (id(chk), model)
    if key in _cache:
        return _cache[key]
    nm = NumModel(chk, model)
    info = {'nm': nm}
    for fname, k in nm.kernels():
        qf = quad_frame(chk, 'R08.1', nm, fname, k)
        info[fname] = None
        if qf is None:
            continue
        at_x, at_y, W = qf
        expect = ('WX', 'WE') if fname == 'fkL_num' else STRAINS + ('WX', 'WE')
        mp, sp = canon_accumulators(chk, 'R08.1', nm, fname, k, at_x, at_y, expect)
        info[fname] = (at_x, at_y, W, mp, sp)
        for iss in k.issues:
            chk.ob('R08.1', False, nm.rel, fname, '%s@%s' % (iss.kind, iss.line), line=iss.line, detail=iss.msg)
    _cache[key] = info
    return info


def _blocks(k, mp):
    return {pq: canon(k.block(pq), mp) for pq in k.blocks}


def r03_numeric(chk):
    """R03.2: fkG_num"""
    n = 0
    for model in panelk.NUM_MODELS:
        info = analysed(chk, model)
        nm = info['nm']
        fr = info['fkG_num']
        if fr is None:
            continue
        at_x, at_y, W, mp, sp = fr
        k = nm.kG
        orc = oracles(nm, at_x, at_y, W, k.w.atoms)
        got = _blocks(k, mp)
        n += panelk.compare_blocks(chk, 'R03.2', k, nm.rel, got, orc['kG'],
                                   'weight*(ab/4)*(Nxx w,x w,x + Nxy(...) + Nyy w,y w,y) with N = A eps + B kappa of the state')
        # image of the analytic kernel under integral -> point atoms with N -> resultants of the state
        ka = panelk.load_kernel(chk, panelk.MODELS[model], 'fkG0')
        pr = ka.w.params
        for pq in ka.blocks:
            img = point_image(ka.block(pq), ka.w.atoms, k.w.atoms, at_x, at_y)
            img = img.subs({pr[0]: orc['sig'][0], pr[1]: orc['sig'][1], pr[2]: orc['sig'][2]}) * W
            chk.ob('R03.2', got.get(pq, P()).close(img), nm.rel, 'fkG_num', 'image of analytic fkG0 (%d,%d)' % pq,
                   expected='fkG0 integrand with (Nxx,Nyy,Nxy) -> A eps + B kappa', detail='; '.join(got.get(pq, P()).diffterms(img, 3)),
                   sample='fkG_num == weight * pointwise(fkG0)[N -> F.(eps,kappa)]')
        copy_loop(chk, 'R03.2', nm, 'fkG_num', k)
        guards_num(chk, 'R03.2', nm, 'fkG_num', k)
        slope_guard(chk, 'R03.2', nm, 'fkG_num', k)
    chk.floor('R03.2 numeric emits', n, 2)


def copy_loop(chk, rule, nm, fname, k):
    """per-point laminate: F[i*6+j] = Fnxny[ptx,pty,i,j] over 6x6 (and the same
    code path serves the uniform table: F[i*6+j] = Finput[i,j])"""
    w = k.w
    copies = [e for e in w.emits if e.array == 'F' or (e.array not in (getattr(k, 'varr', None), getattr(k, 'rarr', None), getattr(k, 'carr', None), getattr(k, 'array', None)) and e.kind == 'set')]
    seen = []
    for e in copies:
        loops = e.loops[-2:]
        ok = len(loops) == 2 and all(l.bound is not None and nfs(l.bound) == '6' for l in loops)
        if ok:
            i, j = loops
            ok = e.index[0] == nfs(C(6) * S(i.tok) + S(j.tok))
            src = ast.unparse(e.node.value).replace(' ', '')
            m = re.match(r'^(\w+)\[(.*)\]$', src)
            ok = ok and bool(m) and m.group(2).split(',')[-2:] == [i.var, j.var]
            seen.append(src)
        chk.ob(rule, ok, nm.rel, fname, 'laminate copy ' + ast.unparse(e.node.value)[:30], line=e.line,
               expected='F[i*6+j] = table[..., i, j] for i, j in range(6)', got=ast.unparse(e.node),
               sample='%s: %s' % (fname, ast.unparse(e.node)))
    per_point = [s for s in seen if s.count(',') == 3]
    uniform = [s for s in seen if s.count(',') == 1]
    chk.ob(rule, len(per_point) == 1 and len(uniform) == 1, nm.rel, fname, 'uniform and per-point laminate share the code path',
           expected='one uniform copy and one per-point copy into the same local F', got=seen)
    if per_point:
        m = re.match(r'^(\w+)\[(.*)\]$', per_point[0])
        idx = m.group(2).split(',')
        pts = [l.var for l in w.all_loops if l.kind == 'range' and l.bound is not None and nfs(l.bound) in ('nx', 'ny')]
        chk.ob(rule, idx[:2] == pts[:2], nm.rel, fname, 'per-point laminate indexed by the Gauss point',
               expected='table[ptx, pty, i, j]', got=per_point[0])


def guards_num(chk, rule, nm, fname, k):
    guards = panelk.guards_of(k)
    ok = bool(guards) and all(gs == ('skip-if row > col',) for gs in guards)
    chk.ob(rule, ok, nm.rel, fname, 'upper-triangle guard', got=sorted({g for gs in guards for g in gs}))
    probs = panelk.index_map_problems(k, 3)
    for line, base, e, g_ in probs:
        chk.ob(rule, False, nm.rel, fname, 'index map ' + base, line=line, expected=e, got=g_)
    # row/column index stores happen at the first Gauss point only, values at all points
    for pq, es in k.blocks.items():
        for e in es:
            r = e.pending.get(k.rarr)
            okg = r is not None and all(g.replace(' ', '') in ('ifptx==0andpty==0',) for g in r.guards if g.startswith('if '))
            chk.ob(rule, okg, nm.rel, fname, 'index store guard (%d,%d)' % pq, line=e.line,
                   expected='row/col stored once (first point) or at every point', got=list(r.guards) if r is not None else None)


def slope_guard(chk, rule, nm, fname, k):
    """NLgeom == 0 => wxi = weta = 0 : the slope accumulation is the only thing
    under `if NLgeom == 1` and the slopes start from zero"""
    w = k.w
    for name in ('WX', 'WE'):
        pass
    for name, recs in w.accum.items():
        if name not in w.lin:
            continue
        for kind, v, loops, line, frame, guards in recs:
            if any(a in w.state_reg for a in v.atoms()):
                g = [x for x in guards if 'NLgeom' in x]
                is_slope = set(w.lin[name]) == {2} and len(w.lin[name][2].t) == 1 and \
                    not any(a in ('a', 'b', 'r') for a in w.lin[name][2].atoms())
                if is_slope:
                    chk.ob(rule, g == ['if NLgeom == 1'], nm.rel, fname, 'slope %s only when NLgeom' % name, line=line,
                           expected='accumulated under `if NLgeom == 1` (zero otherwise)', got=list(guards),
                           sample='%s: %s accumulated under if NLgeom == 1' % (fname, name))
                else:
                    chk.ob(rule, not g, nm.rel, fname, 'strain %s unconditional' % name, line=line, got=list(guards))


def run_c08(chk):
    nblocks = 0
    for model in panelk.NUM_MODELS:
        info = analysed(chk, model)
        nm = info['nm']
        if not all(info.get(f) for f in ('fkL_num', 'fkG_num', 'calc_fint')):
            continue
        at_x, at_y, W, mpL, _ = info['fkL_num']
        _, _, WG, mpG, _ = info['fkG_num']
        fx, fy, WF, mpF, spF = info['calc_fint']
        chk.ob('R08.1', (at_x, at_y, W) == (fx, fy, WF) == info['fkG_num'][:3], nm.rel, 'fkL_num/fkG_num/calc_fint', 'same quadrature frame',
               got=[str(info[f][:3]) for f in ('fkL_num', 'fkG_num', 'calc_fint')])
        orc = oracles(nm, at_x, at_y, W, nm.kL.w.atoms)
        gotL = _blocks(nm.kL, mpL)
        gotG = _blocks(nm.kG, mpG)
        gotF = {d: canon(nm.fint.entry(d), mpF) for d in nm.fint.entries}
        # R08.3 fint = weight*J*sum sigma_i d eps_i/dc
        for d in sorted(set(gotF) | set(orc['fint'])):
            g, x = gotF.get(d, P()), orc['fint'].get(d, P())
            chk.ob('R08.3', g.close(x), nm.rel, 'calc_fint', 'entry %d' % d, line=nm.fint.entries[d][0].line if d in nm.fint.entries else 0,
                   expected='weight*(ab/4)*sum_i sigma_i d eps_i/dc', got=repr(g), detail='; '.join(g.diffterms(x, 3)),
                   sample='calc_fint[%d] == %r' % (d, x) if d == 0 else None)
            nblocks += 1
        chk.ob('R08.3', nm.fint.other_arrays <= {'F'}, nm.rel, 'calc_fint', 'no other array written', got=sorted(nm.fint.other_arrays))
        for d, es in nm.fint.entries.items():
            chk.ob('R08.3', len(es) == 1 and es[0].kind == 'aug', nm.rel, 'calc_fint', 'single accumulation %d' % d, line=es[0].line)
        # R08.2 / kL oracle
        nblocks += panelk.compare_blocks(chk, 'R08.2', nm.kL, nm.rel, gotL, orc['kL'], 'weight*(ab/4)*sum F_pq d eps_p/dc_A d eps_q/dc_B')
        # R08.4 tangent is the exact Jacobian (artefact vs artefact)
        linB = {}
        for cname, d in spF.items():
            linB[cname] = {q: v.rename(lambda a: nm.fint.w.atoms.retok(a, {'S': 'B'})) for q, v in d.items()}
        # use the *extracted* linear forms of calc_fint, renamed S -> B
        ext = {}
        for name, lin in nm.fint.w.lin.items():
            cn = mpF.get('@' + name)
            if cn:
                ext[cn] = {q: v.rename(lambda a: nm.fint.w.atoms.retok(a, {'S': 'B'})) for q, v in lin.items()}
        for P_ in range(3):
            for Q in range(3):
                jac = P()
                f = gotF.get(P_, P())
                for cn, lin in ext.items():
                    if Q in lin:
                        jac = jac + f.diff(cn) * lin[Q]
                code = gotL.get((P_, Q), P()) + gotG.get((P_, Q), P())
                # the kernels name their point atoms through their own registries: same strings
                chk.ob('R08.4', code.close(jac), nm.rel, 'fkL_num+fkG_num', 'Jacobian block (%d,%d)' % (P_, Q),
                       expected='d calc_fint[P] / d c_{B,Q}', detail='; '.join(code.diffterms(jac, 3)),
                       sample='kL+kG (%d,%d) == d fint/dc, %d monomials' % (P_, Q, len(jac.t)))
                nblocks += 1
        # R08.5 fint vanishes at c = 0 and its linear part is k0.c
        for d, f in gotF.items():
            degs = f.degree_in(lambda a: a.startswith('@'))
            chk.ob('R08.5', min(degs) >= 1 if degs else True, nm.rel, 'calc_fint', 'no constant term %d' % d,
                   expected='every monomial contains an amplitude-dependent factor', got=sorted(degs))
        k0a = panelk.load_kernel(chk, panelk.MODELS[model], 'fk0')
        for (P_, Q) in sorted(k0a.blocks):
            img = W * point_image(panelk.canon_F(k0a.block((P_, Q))), k0a.w.atoms, nm.fint.w.atoms, at_x, at_y)
            f1 = gotF.get(P_, P()).part(lambda mono: sum(e for s, e in mono if s.startswith('@')) == 1)
            lin = P()
            for cn, l in ext.items():
                if Q in l:
                    lin = lin + f1.diff(cn) * l[Q]
            chk.ob('R08.5', lin.close(img), nm.rel, 'calc_fint', 'linear part = k0 (%d,%d)' % (P_, Q),
                   expected='pointwise image of the analytic fk0 block', detail='; '.join(lin.diffterms(img, 3)))
        # R08.6 role-swap symmetry of kL and the NLgeom switch
        for pq in sorted(gotL):
            sw = panelk.swap_roles(gotL.get((pq[1], pq[0]), P()), nm.kL.w.atoms)
            chk.ob('R08.6', gotL[pq].close(sw), nm.rel, 'fkL_num', 'role-swap (%d,%d)' % pq, expected='kL_PQ(A,B) == kL_QP(B,A)')
        slope_guard(chk, 'R08.6', nm, 'fkL_num', nm.kL)
        guards_num(chk, 'R08.6', nm, 'fkL_num', nm.kL)
        copy_loop(chk, 'R08.2', nm, 'fkL_num', nm.kL)
        copy_loop(chk, 'R08.2', nm, 'calc_fint', nm.fint)
    chk.floor('R08 blocks (fint + kL + Jacobian)', nblocks, 2 * (3 + 9 + 9))


def r14_4(chk, rule='R14.4'):
    """numeric kernels at zero state == pointwise integrand of the analytic kernels"""
    for model in panelk.NUM_MODELS:
        info = analysed(chk, model)
        nm = info['nm']
        if not info.get('fkL_num'):
            continue
        at_x, at_y, W, mpL, _ = info['fkL_num']
        gotL = _blocks(nm.kL, mpL)
        k0a = panelk.load_kernel(chk, panelk.MODELS[model], 'fk0')
        for pq in sorted(set(k0a.blocks) | set(gotL)):
            img = W * point_image(panelk.canon_F(k0a.block(pq)), k0a.w.atoms, nm.kL.w.atoms, at_x, at_y)
            z = gotL.get(pq, P()).subs({'@WX': P(), '@WE': P()})
            chk.ob(rule, z.close(img), nm.rel, 'fkL_num', 'zero-state block (%d,%d) vs analytic fk0' % pq,
                   detail='; '.join(z.diffterms(img, 3)), sample='fkL_num|c=0 == weight*pointwise(fk0)')
