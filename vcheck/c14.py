"""C14 - equivalent descriptions give identical matrices (sibling polynomial relations)."""
import ast
import re

from . import panelk, numk, pyrules
from .kernel import Factor
from .poly import P
from .spec import S, C
from .pyrules import module, norm, PANEL

LEVEL = 'proof'
FAMILIES = ('fk0', 'fk0y1y2', 'fkG0', 'fkG0y1y2', 'fkM', 'fkMy1y2')
AERO = ('fkAx', 'fkAy', 'fcA')


def blocks_of(chk, cache, model, fname):
    key = (model, fname)
    if key not in cache:
        k = panelk.load_kernel(chk, panelk.MODELS[model], fname)
        cache[key] = (k, {pq: panelk.canon_F(k.block(pq)) for pq in k.blocks})
    return cache[key]


def strip_limits(p, atoms, direction):
    def fn(a):
        info = atoms.reg.get(a)
        if info and info[0] == 'I' and info[1] == direction and info[4]:
            return atoms.integral(direction, 'full', info[3][0], info[3][1], None)
        return a
    return p.rename(fn)


def drop_inverse_r(p):
    """1/r -> 0"""
    return p.part(lambda mono: not any(s == 'r' and e < 0 for s, e in mono))


def exchange_xy(p, atoms):
    fmap = {'u': 'v', 'v': 'u', 'w': 'w'}
    idx = {'0': '1', '1': '0', '2': '2'}

    def fn(a):
        info = atoms.reg.get(a)
        if info and info[0] == 'I':
            f1, f2 = info[3]
            g1 = Factor(f1.tok, f1.tag, fmap[f1.field], f1.d)
            g2 = Factor(f2.tok, f2.tag, fmap[f2.field], f2.d)
            return atoms.integral('y' if info[1] == 'x' else 'x', info[2], g1, g2, info[4])
        m = re.match(r'^([ABD])(\d)(\d)$', a)
        if m:
            i, j = sorted((idx[m.group(2)], idx[m.group(3)]))
            return m.group(1) + i + j
        return {'a': 'b', 'b': 'a', 'Nxx': 'Nyy', 'Nyy': 'Nxx'}.get(a, a)
    return p.rename(fn)


def weight(atom, kern):
    """similarity weights (e, s, n, q) of an atom"""
    if kern.w.atoms.reg.get(atom):
        return (0, 0, 0, 0)
    m = re.match(r'^([ABD])\d\d$', atom)
    if m:
        return (1, {'A': 1, 'B': 2, 'D': 3}[m.group(1)], 0, 0)
    if atom in ('a', 'b', 'r', 'sum(plyts)') or atom.startswith('$r') or atom in kern.w.params[:1] and kern.fname.startswith('fkM'):
        return (0, 1, 0, 0)
    if atom == 'mu':
        return (0, 0, 0, 1)
    if atom in ('Nxx', 'Nyy', 'Nxy'):
        return (0, 0, 1, 0)
    if atom.startswith('sin(') or atom.startswith('cos('):
        return (0, 0, 0, 0)
    return None


def run(chk):
    chk.level = LEVEL
    chk.trusted = ['python3 ast', 'E1 lowering', 'Fraction polynomial arithmetic', 'C10']
    cache = {}
    n = 0
    # R14.1 cone at zero angle == cylinder (section atoms -> full atoms)
    for fam in FAMILIES:
        kk, bk = blocks_of(chk, cache, 'kpanel', fam)
        kc, bc = blocks_of(chk, cache, 'cpanel', fam)
        fr = panelk.Frame('kpanel', kk, fam.endswith('y1y2'))
        rloc = getattr(fr, 'rloc', None)
        chk.ob('R14.1', rloc is not None and not fr.problems, panelk.MODELS['kpanel'], fam, 'section frame',
               got=[p[0] for p in fr.problems], expected='consecutive sections, r = rbot - sin(alpha) x_mid')
        if rloc is None:
            continue
        for pq in sorted(set(bk) | set(bc)):
            v = bk.get(pq, P()).subs({'sin(alpharad)': P(), 'cos(alpharad)': C(1), rloc: S('r')})
            v = strip_limits(v, kk.w.atoms, 'x')
            w_ = bc.get(pq, P())
            # the cylinder kernel's own atoms carry the same names (same registry conventions)
            chk.ob('R14.1', v.close(w_), panelk.MODELS['kpanel'], fam, 'alpha=0 block (%d,%d) == cpanel' % pq,
                   detail='; '.join(v.diffterms(w_, 3)), sample='kpanel.%s[sin=0,cos=1,r_sec=r] == cpanel.%s' % (fam, fam))
            n += 1
    # R14.2 cylinder with 1/r -> 0 == plate
    for fam in FAMILIES + AERO:
        kc, bc = blocks_of(chk, cache, 'cpanel', fam)
        kp, bp = blocks_of(chk, cache, 'plate', fam)
        for pq in sorted(set(bc) | set(bp)):
            v = drop_inverse_r(bc.get(pq, P()))
            if fam == 'fkAx':
                v = v.subs({kc.w.params[1]: P()})      # gamma = beta/(2 r S) -> 0
            w_ = bp.get(pq, P())
            chk.ob('R14.2', v.close(w_), panelk.MODELS['cpanel'], fam, '1/r=0 block (%d,%d) == plate' % pq,
                   detail='; '.join(v.diffterms(w_, 3)), sample='cpanel.%s[1/r=0] == plate.%s' % (fam, fam))
            n += 1
    # R14.3 w-only model == (w,w) entries of the plate model
    for fam in FAMILIES + AERO:
        kp, bp = blocks_of(chk, cache, 'plate', fam)
        kw, bw = blocks_of(chk, cache, 'plate_w', fam)
        v = bp.get((2, 2), P())
        w_ = bw.get((0, 0), P())
        chk.ob('R14.3', v.close(w_) and set(bw) <= {(0, 0)}, panelk.MODELS['plate_w'], fam, '(w,w) block of plate',
               detail='; '.join(w_.diffterms(v, 3)), got=sorted(bw), sample='plate_w.%s == plate.%s[(w,w)]' % (fam, fam))
        n += 1
    # R14.4 numeric kernels at zero state
    numk.r14_4(chk)
    # R14.5 x<->y exchange automorphism of the plate kernels
    pi = {0: 1, 1: 0, 2: 2}
    for fam in ('fk0', 'fkG0', 'fkM'):
        kp, bp = blocks_of(chk, cache, 'plate', fam)
        if fam == 'fkG0':
            pr = kp.w.params
            ren = {pr[0]: 'Nxx', pr[1]: 'Nyy', pr[2]: 'Nxy'}
            bp = {pq: v.rename(lambda a: ren.get(a, a)) for pq, v in bp.items()}
        for pq in sorted(bp):
            img = exchange_xy(bp[pq], kp.w.atoms)
            tgt = bp.get((pi[pq[0]], pi[pq[1]]), P())
            chk.ob('R14.5', img.close(tgt), panelk.MODELS['plate'], fam, 'axis exchange of block (%d,%d)' % pq,
                   expected='equals block (%d,%d)' % (pi[pq[0]], pi[pq[1]]), detail='; '.join(img.diffterms(tgt, 3)),
                   sample='%s: (a<->b, x<->y, u<->v, 1<->2) maps block %s onto block %s' % (fam, pq, (pi[pq[0]], pi[pq[1]])))
            n += 1
    # R14.6 similarity weights
    want = {'fk0': (1, 1, 0, 0), 'fk0y1y2': (1, 1, 0, 0), 'fkG0': (0, 0, 1, 0), 'fkG0y1y2': (0, 0, 1, 0),
            'fkM': (0, 3, 0, 1), 'fkMy1y2': (0, 3, 0, 1)}
    for model in ('plate', 'plate_w', 'cpanel', 'kpanel'):
        for fam in FAMILIES:
            k, b = blocks_of(chk, cache, model, fam)
            sub = fam.endswith('y1y2')
            pr = k.w.params
            nl = 2 if sub else 0
            ren = {}
            if fam.startswith('fkG0'):
                ren = {pr[nl]: 'Nxx', pr[nl + 1]: 'Nyy', pr[nl + 2]: 'Nxy'}
            lens = set()
            if fam.startswith('fkM'):
                lens.add(pr[nl])
            bad = []
            for pq, v in b.items():
                for mono in v.t:
                    tot = [0, 0, 0, 0]
                    for s_, e in mono:
                        s2 = ren.get(s_, s_)
                        wv = (0, 1, 0, 0) if s_ in lens else weight(s2, k)
                        if wv is None:
                            bad.append((pq, s_))
                            wv = (0, 0, 0, 0)
                        for i in range(4):
                            tot[i] += wv[i] * e
                    if tuple(tot) != want[fam]:
                        bad.append((pq, mono[:3], tuple(tot)))
            chk.ob('R14.6', not bad, panelk.MODELS[model], fam, 'similarity weights',
                   expected='every monomial has weight (e,s,n,q) = %s' % (want[fam],), got=bad[:3],
                   sample='%s.%s: all monomials of weight %s' % (model, fam, want[fam]))
            n += 1
    chk.floor('R14 relations', n, 115)
    # R14.7 model selection
    m = module(PANEL)
    fn = m.method('Panel', '_rebuild')
    sel = {}
    for node in ast.walk(fn):
        if isinstance(node, ast.If) and isinstance(node.test, ast.BoolOp) and 'self.r' in norm(node.test) and 'self.alphadeg' in norm(node.test):
            for st in node.body:
                if isinstance(st, ast.Assign) and norm(st.targets[0]) == 'self.model' and isinstance(st.value, ast.Constant):
                    sel[norm(node.test)] = st.value.value
    want_sel = {'self.risNoneandself.alphadegisNone': 'plate_clt_donnell_bardell',
                'self.risnotNoneandself.alphadegisNone': 'cpanel_clt_donnell_bardell',
                'self.risnotNoneandself.alphadegisnotNone': 'kpanel_clt_donnell_bardell'}
    chk.ob('R14.7', sel == want_sel, PANEL, 'Panel._rebuild', 'model selection from (r, alphadeg)', expected=want_sel, got=sel,
           sample='model selection table %s' % sel)
    db = pyrules.modeldb()
    for model, short in pyrules.SHORT.items():
        ent = db.get(model, {})
        okm = ent.get('matrices') == model and (short not in panelk.NUM_MODELS or ent.get('matrices_num') == model + '_num')
        chk.ob('R14.7', okm, pyrules.MODELDB, 'db', 'kernel table of ' + model, expected='matrices = %s' % model, got=ent)
    r14_8(chk)
    chk.explanation = 'relations between extracted kernel polynomials (substitutions, atom maps, permutations, weight vectors)'


def r14_8(chk):
    """R14.5 exchanges the kernel parameters Nxx <-> Nyy; at panel level the exchanged description
    exchanges the attributes Nxx <-> Nyy (and Nxx_cte <-> Nyy_cte). The two agree only when every
    call site hands each load attribute to the kernel parameter of the same component."""
    from .pyflow import bind
    m = module(PANEL)
    n = 0
    for meth in ('calc_k0', 'calc_kG0'):
        fn = m.method('Panel', meth)
        defs = pyrules.local_defs(fn)
        for kname in ('fkG0', 'fkG0y1y2'):
            for call in pyrules.attr_calls(fn, kname):
                for model, rel in panelk.MODELS.items():
                    sig = pyrules.kernel_sig(rel, kname)
                    mp, probs = bind(call, sig)
                    got = {}
                    ok = not probs
                    for comp in ('Nxx', 'Nyy', 'Nxy'):
                        a = mp.get(comp)
                        txt = pyrules.resolve(fn, a, defs) if a is not None else ''
                        got[comp] = txt
                        others = [c for c in ('Nxx', 'Nyy', 'Nxy') if c != comp]
                        if comp not in (txt or '') or any(o in (txt or '') for o in others):
                            ok = False
                    n += 1
                    chk.ob('R14.8', ok, PANEL, 'Panel.' + meth, '%s load components vs %s signature' % (kname, model), line=call.lineno,
                           expected='parameter Nxx/Nyy/Nxy receives the attribute of the same component', got=got,
                           detail='; '.join(probs) or ('' if ok else 'a load component reaches the kernel parameter of another component: the x<->y exchanged description is not equivalent'),
                           sample='Panel.%s -> %s(%s)' % (meth, kname, got))
    chk.floor('R14.8 load bindings', n, 8)
