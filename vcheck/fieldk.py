"""Field-recovery kernels (clt_bardell_field*.pyx): linear forms of the series
loops, shape-function row matrix, chunking / prange structure.
Shared by C07 (R07.1), C11 (R11.1-3, R11.5) and C20 (R20.4)."""
import ast
import re

from . import pyxast, spec, panelk
from .kernel import Walker, Factor
from .poly import P, nfs
from .spec import S, C
from .report import repo_path, REPO, AnalysisError
from .pyflow import Sig, bind

FIELD = {'3dof': 'compmech/panel/models/clt_bardell_field.pyx',
         '1dof': 'compmech/panel/models/clt_bardell_field_w.pyx'}


class Series:
    """one cdef point-loop kernel: outputs[array] = (constant part P, lin {guards: {dof: P}})"""

    def __init__(self, unit, fname, state='c'):
        self.unit = unit
        self.fname = fname
        fn = unit.func(fname)
        if fn is None:
            raise AnalysisError('anchor vanished: %s in %s' % (fname, unit.rel))
        self.fn = fn
        self.w = Walker(unit, fn, state_arrays=(state,)).run()
        self.params = self.w.params
        self.outputs = {}
        self.out_lines = {}
        w = self.w
        for e in w.emits:
            if e.kind == 'set' and len(e.index) == 1:
                self.outputs[e.array] = e.value
                self.out_lines[e.array] = e.line
                self.out_loops = e.loops

    def at_canon(self):
        """canonical names of the evaluation points: {at-string: ('xi'|'eta', coordinate atom)}
        requires at = 2*X/a - 1 (x) or 2*Y/b - 1 (y)"""
        w = self.w
        out = {}
        probs = []
        for a, info in w.atoms.reg.items():
            if info[0] != 'P':
                continue
            at = info[3]
            if at in out or at.startswith('@'):
                continue
            d = info[1]
            L = S('a') if d == 'x' else S('b')
            try:
                df = panelk.expand_frame(w.frame, at) if at in w.frame else None
            except (KeyError, ValueError):
                df = None
            coord = None
            if df is not None:
                rest = (df + C(1)) * L / C(2)
                if len(rest.t) == 1:
                    (mono, c), = rest.t.items()
                    if c == 1 and len(mono) == 1 and mono[0][1] == 1:
                        coord = mono[0][0]
            if coord is None:
                probs.append((at, d, repr(df)))
            out[at] = ('@xi' if d == 'x' else '@eta', coord)
        return out, probs

    def canon(self, p):
        """rename at-strings to @xi/@eta"""
        ats, _ = self.at_canon()
        w = self.w
        cache = {}

        def fn(a):
            if a in cache:
                return cache[a]
            info = w.atoms.reg.get(a)
            r = a
            if info and info[0] == 'P' and info[3] in ats:
                r = w.atoms.point(info[1], info[2], ats[info[3]][0])
            cache[a] = r
            return r
        return p.rename(fn)

    def lin_of_output(self, arr):
        """linear form {guards: {dof: P}} and the post-loop factor of an output array:
        out = factor * @acc ; returns (acc name, factor, constant remainder)"""
        v = self.outputs[arr]
        accs = [a for a in v.atoms() if a.startswith('@')]
        # the accumulator that enters linearly on its own (out = factor*@acc + terms in other accumulators)
        lin = [a for a in accs if v.coeff_of(a).t and not (v.coeff_of(a).atoms() & set(accs))
               and all(dict(m).get(a, 0) in (0, 1) for m in v.t)]
        if len(lin) != 1:
            return None, None, v
        acc = lin[0]
        factor = v.coeff_of(acc)
        rem = v - factor * S(acc)
        return acc[1:], factor, rem


def load(chk, which):
    rel = FIELD[which]
    chk.need(True, '')
    return pyxast.parse(repo_path(rel), REPO), rel


def series_lin(ser, name, guards=None):
    """{dof: P} with at-strings canonicalised"""
    w = ser.w
    lg = w.lin_g.get(name, {})
    out = {}
    for g, lin in lg.items():
        if guards is not None and not set(g) <= set(guards):
            continue
        for d, v in lin.items():
            out[d] = out.get(d, P()) + v
    return {d: ser.canon(v) for d, v in out.items()}


def phi(atoms, role, f, dx, dy):
    return S(atoms.point('x', Factor(role, '', f, dx), '@xi')) * S(atoms.point('y', Factor(role, '', f, dy), '@eta'))


# --------------------------------------------------------------------------
# chunking / prange structure (R11.5, R20.4)


def prange_structure(chk, rule, unit, rel, fname, helpers):
    """the def wrapper: pad / split / prange / trim"""
    fn = unit.func(fname)
    chk.need(fn is not None, 'anchor vanished: %s in %s' % (fname, rel))
    src_norm = lambda n: ast.unparse(n).replace(' ', '')
    pr = [n for n in ast.walk(fn) if isinstance(n, ast.For) and isinstance(n.iter, ast.Call) and getattr(n.iter.func, 'id', '') == 'prange']
    chk.ob(rule, len(pr) == 1, rel, fname, 'one prange loop', got=len(pr))
    if len(pr) != 1:
        return
    loop = pr[0]
    iv = loop.target.id
    ncores = src_norm(loop.iter.args[0])
    params = [a.arg for a in fn.args.args]
    # every pointer argument in the body is either the shared read-only amplitude vector or a row of the induction variable
    outs, ins = [], []
    for st in loop.body:
        if not (isinstance(st, ast.Expr) and isinstance(st.value, ast.Call) and getattr(st.value.func, 'id', '') in helpers):
            chk.ob(rule, False, rel, fname, 'prange body statement', line=st.lineno, expected='only calls of the chunk helpers %s' % sorted(helpers), got=src_norm(st)[:80])
            continue
        call = st.value
        hfn = unit.func(call.func.id)
        sig = Sig(hfn)
        mp, probs = bind(call, sig)
        chk.ob(rule, not probs, rel, fname, 'call %s binds' % call.func.id, line=call.lineno, detail='; '.join(probs))
        writes = helper_writes(hfn)
        for pname, a in mp.items():
            t = src_norm(a)
            m = re.match(r'^ADDR\((\w+)\[(.*)\]\)$', t)
            if m:
                arr, idx = m.group(1), m.group(2)
                if idx == '%s,0' % iv:
                    (outs if pname in writes else ins).append((arr, pname, call.func.id))
                elif idx == '0' and pname not in writes:
                    ins.append((arr, pname, call.func.id))
                else:
                    chk.ob(rule, False, rel, fname, 'pointer argument %s of %s' % (pname, call.func.id), line=call.lineno,
                           expected='&shared_input[0] (never written) or &array[%s,0]' % iv, got=t)
            else:
                # scalars: must not depend on the induction variable except as passed rows
                if pname in writes:
                    chk.ob(rule, False, rel, fname, 'output argument %s of %s' % (pname, call.func.id), line=call.lineno, got=t)
                # flags/geometry are forwarded under their own names
                if re.match(r'^[uvw][12][tr][xy]$', pname) or pname in ('a', 'b', 'm', 'n', 'r', 'alpharad'):
                    chk.ob(rule, t == pname, rel, fname, '%s forwards %s' % (call.func.id, pname), line=call.lineno, expected=pname, got=t)
    chk.ob(rule, bool(outs), rel, fname, 'thread-private output rows', expected='each thread writes only row %s of every output' % iv,
           got=sorted({o[0] for o in outs}), sample='%s: outputs %s rows [%s,:], inputs %s' % (fname, sorted({o[0] for o in outs}), iv, sorted({i[0] for i in ins})))
    # outputs allocated as zeros((ncores, size_core)); inputs split as (ncores, -1); returns ravel(out)[:size]
    defs = {}
    for n in ast.walk(fn):
        if isinstance(n, ast.Assign) and isinstance(n.targets[0], ast.Name):
            defs.setdefault(n.targets[0].id, []).append(n.value)
    for arr in sorted({o[0] for o in outs}):
        vs = [src_norm(v) for v in defs.get(arr, [])]
        ok = len(vs) == 1 and re.match(r'^np\.zeros\(\(%s,size_core\),dtype=DOUBLE\)$' % re.escape(ncores), vs[0]) is not None
        chk.ob(rule, ok, rel, fname, 'allocation of ' + arr, expected='np.zeros((%s, size_core))' % ncores, got=vs)
    chk.ob(rule, [src_norm(v) for v in defs.get('size_core', [])] == ['xs_core.shape[1]'], rel, fname, 'chunk length', got=[src_norm(v) for v in defs.get('size_core', [])])
    for arr, src in (('xs_core', 'xs'), ('ys_core', 'ys')):
        vs = sorted(src_norm(v) for v in defs.get(arr, []))
        want = sorted(['np.ascontiguousarray(np.hstack((%s,np.zeros(add_size))).reshape(%s,-1),dtype=DOUBLE)' % (src, ncores),
                       'np.ascontiguousarray(np.reshape(%s,(%s,-1)),dtype=DOUBLE)' % (src, ncores)])
        chk.ob(rule, vs == want, rel, fname, 'pad and row-major split of ' + src, expected=want, got=vs)
    want_add = ['%s-size%%%s' % (ncores, ncores), '0']
    got_add = [src_norm(v).replace('(', '').replace(')', '') for v in defs.get('add_size', [])]
    chk.ob(rule, got_add == want_add, rel, fname, 'padding length', expected='add_size = ncores - size % ncores, 0 if that equals ncores', got=got_add)
    chk.ob(rule, [src_norm(v) for v in defs.get('size', [])] == ['xs.shape[0]'], rel, fname, 'size', got=[src_norm(v) for v in defs.get('size', [])])
    rets = [n for n in ast.walk(fn) if isinstance(n, ast.Return)]
    ok = len(rets) == 1 and isinstance(rets[0].value, ast.Tuple)
    if ok:
        got = [src_norm(e) for e in rets[0].value.elts]
        arrs = []
        for g in got:
            m = re.match(r'^np\.ravel\((\w+)\)\[:size\]$', g)
            if not m:
                ok = False
            else:
                arrs.append(m.group(1))
        ok = ok and {o[0] for o in outs} <= set(arrs) and \
            all(len(defs.get(a_, [])) == 1 and re.match(r'^np\.zeros\(\(%s,size_core\),dtype=DOUBLE\)$' % re.escape(ncores), src_norm(defs[a_][0])) for a_ in arrs)
    chk.ob(rule, ok, rel, fname, 'trim', expected='return np.ravel(out)[:size] for every output', got=[src_norm(e) for e in rets[0].value.elts] if rets else None)
    return outs, ins


def helper_writes(hfn):
    """pointer parameters a chunk helper stores through"""
    params = [a.arg for a in hfn.args.args]
    w = set()
    for n in ast.walk(hfn):
        tg = []
        if isinstance(n, ast.Assign):
            tg = n.targets
        elif isinstance(n, ast.AugAssign):
            tg = [n.target]
        for t in tg:
            if isinstance(t, ast.Subscript) and isinstance(t.value, ast.Name) and t.value.id in params:
                w.add(t.value.id)
    return w


def helper_bounds(chk, rule, unit, rel, hname):
    """a chunk helper writes only out[pti] with pti in range(size) and never writes its inputs"""
    hfn = unit.func(hname)
    chk.need(hfn is not None, 'anchor vanished: ' + hname)
    params = [a.arg for a in hfn.args.args]
    ok = True
    det = []
    top = [n for n in hfn.body if isinstance(n, ast.For)]
    if len(top) != 1 or ast.unparse(top[0].iter).replace(' ', '') != 'range(size)':
        ok = False
        det.append('no single point loop over range(size)')
    else:
        iv = top[0].target.id
        for n in ast.walk(hfn):
            tg = n.targets if isinstance(n, ast.Assign) else [n.target] if isinstance(n, ast.AugAssign) else []
            for t in tg:
                if isinstance(t, ast.Subscript) and isinstance(t.value, ast.Name) and t.value.id in params:
                    if ast.unparse(t.slice) != iv:
                        ok = False
                        det.append('%s[%s] written' % (t.value.id, ast.unparse(t.slice)))
                    if t.value.id in ('c', 'xs', 'ys'):
                        ok = False
                        det.append('input %s written' % t.value.id)
    chk.ob(rule, ok, rel, hname, 'writes only out[pti], pti < size', detail='; '.join(det),
           sample='%s writes %s at index pti in range(size)' % (hname, sorted(helper_writes(hfn))))
