"""Translation validation for the Python orchestration code.

The rules of this checker were written for, and confirmed on, the functions as they stand in the reference copy
(vcheck/reference/, taken from /repo at confirmation time).  When /repo's current version of such a function differs
from the reference, this module tries to PROVE the two equivalent: both are brought to a normal form by
semantics-preserving rewrites (helper inlining, guard lowering, branch polarity, test normal form, forward substitution
of single-assignment pure temporaries, dead-store removal, keyword normal form of calls, arithmetic normal form of
scalar expressions, comprehension/loop idioms, ...) and compared up to the names of local variables.

  proved equivalent  -> the rules analyse the reference version (their verdicts carry over: same behaviour)
  not proved         -> the rules analyse the current version as written (nothing is suppressed)

Nothing here executes compmech; everything is syntax-directed.  A rewrite that is not semantics-preserving could hide
a real change, so each one states its side conditions; when a side condition cannot be established the rewrite is
not applied (and the proof fails, which costs at most a false alarm).
"""
import ast
import os
import copy
import os

from . import inline
from .poly import P, Rat, from_ast, nfs, Unsupported, NonMonomialDivision

PURE_FUNCS = {'float', 'int', 'len', 'abs', 'min', 'max', 'bool', 'str', 'tuple', 'list', 'range', 'sorted', 'sum', 'zip', 'enumerate', 'isinstance',
              'sin', 'cos', 'tan', 'sqrt', 'deg2rad', 'rad2deg', 'np.sin', 'np.cos', 'np.tan', 'np.sqrt', 'np.deg2rad', 'getattr', 'hasattr', 'type', 'dict', 'set', 'record__'}
PURE_METHODS = {'lower', 'upper', 'strip', 'startswith', 'endswith', 'get', 'keys', 'values', 'items', 'format', 'count', 'index',
                'toarray', 'tocsr', 'tocoo', 'tocsc', 'copy', 'ravel', 'flatten', 'nonzero', 'sum', 'dot', 'reshape', 'transpose', 'conj', 'todense'}
SCALAR_FUNCS = {'float', 'int', 'len', 'abs', 'sin', 'cos', 'tan', 'sqrt', 'deg2rad', 'rad2deg', 'np.sin', 'np.cos', 'np.tan', 'np.sqrt', 'np.deg2rad', 'min', 'max'}
# attributes that hold matrices / vectors / containers: never treated as commuting scalars
NONSCALAR_ATTR_PREFIX = ('k0', 'kG', 'kM', 'kA', 'cA', 'kT', 'kL', 'kuk', 'fext', 'fint', 'eigv', 'lam', 'plies', 'stack', 'forces', 'panels', 'conn',
                         'cs', 'increments', 'excluded', 'Nxxtop', 'bladestiff', 'tstiff', 'stiffeners', 'plyts', 'laminaprop', 'matobj', 'ABD', 'QL', 'stiff')
NONSCALAR_ATTRS = {'F', 'A', 'B', 'D', 'E', 'c', 'u', 'v', 'w', 'phix', 'phiy', 'model', 'flow', 'c0', 'F_reuse', 'analysis', 'base', 'flange', 'panel1', 'panel2',
                   'A_general', 'B_general', 'D_general', 'T', 'Tinv', 'L', 'R', 'q', 'matrices'} - {'T', 'L'}


def dotted(n):
    if isinstance(n, ast.Name):
        return n.id
    if isinstance(n, ast.Attribute):
        b = dotted(n.value)
        return b + '.' + n.attr if b else None
    return None


def dump(n):
    return ast.dump(n, annotate_fields=False) if isinstance(n, ast.AST) else repr(n)


def own_walk(node):
    """walk without descending into nested function / lambda / class definitions"""
    todo = [node]
    while todo:
        n = todo.pop()
        yield n
        for c in ast.iter_child_nodes(n):
            if isinstance(c, (ast.FunctionDef, ast.Lambda, ast.ClassDef)):
                continue
            todo.append(c)


def free_names(node, skip_root_defs=True):
    """Name nodes of `node` that refer to the function's own scope: nested function bodies are skipped and names bound by a
    comprehension are skipped inside that comprehension"""
    out = []

    def rec(n, bound):
        if isinstance(n, ast.Name):
            if n.id not in bound:
                out.append(n)
            return
        if isinstance(n, (ast.ListComp, ast.SetComp, ast.DictComp, ast.GeneratorExp)):
            b2 = set(bound)
            for g in n.generators:
                # the first iterable is evaluated in the enclosing scope
                rec(g.iter, b2 if g is not n.generators[0] else bound)
                b2 |= {x.id for x in ast.walk(g.target) if isinstance(x, ast.Name)}
                for c in g.ifs:
                    rec(c, b2)
            for part in ([n.elt] if hasattr(n, 'elt') else [n.key, n.value]):
                rec(part, b2)
            return
        if isinstance(n, (ast.FunctionDef, ast.Lambda, ast.ClassDef)) and n is not node:
            return
        for c in ast.iter_child_nodes(n):
            rec(c, bound)
    rec(node, set())
    return out


# --------------------------------------------------------------------------
# purity


_kernel_names = None


def kernel_names():
    """names of the compiled kernels (def / cpdef functions of the .pyx sources whose name starts with f): they read the
    object they are given and never store to one of its attributes (checked over all .pyx/.pxi sources on every run)"""
    global _kernel_names
    if _kernel_names is None:
        import re
        import subprocess
        from .report import REPO
        names, stores = set(), False
        for root, _, files in os.walk(os.path.join(REPO, 'compmech')):
            for f in files:
                if f.endswith(('.pyx', '.pxi')):
                    try:
                        src = open(os.path.join(root, f), encoding='utf-8', errors='replace').read()
                    except OSError:
                        continue
                    names |= {m.group(1) for m in re.finditer(r'^\s*(?:def|cpdef)\s+(f\w+)\s*\(', src, re.M)}
                    if re.search(r'^\s*(?:panel|p|cc|self|s|stiff|bay|assy|p1|p2|obj)\.\w+(\[[^\]]*\])?\s*(=[^=]|\+=|-=|\*=)', src, re.M):
                        stores = True
        _kernel_names = set() if stores else names
    return _kernel_names


_KERNEL_ALIASES = set()     # local names of the function being normalised that are bound, once, to a compiled kernel (fg = model.fg)


def find_kernel_aliases(fn):
    """local names every binding of which is `<something other than self>.<compiled kernel name>` (possibly chosen by a conditional)"""
    params = {a.arg for a in fn.args.posonlyargs + fn.args.args + fn.args.kwonlyargs}
    stores = {}
    for n in ast.walk(fn):
        if isinstance(n, ast.Name) and isinstance(n.ctx, (ast.Store, ast.Del)):
            stores[n.id] = stores.get(n.id, 0) + 1

    def kernel_value(v):
        if isinstance(v, ast.IfExp):
            return kernel_value(v.body) and kernel_value(v.orelse)
        return isinstance(v, ast.Attribute) and v.attr in kernel_names() and dotted(v.value) != 'self'
    good = {}
    for n in ast.walk(fn):
        if isinstance(n, ast.Assign) and len(n.targets) == 1 and isinstance(n.targets[0], ast.Name):
            nm = n.targets[0].id
            good.setdefault(nm, [0, True])
            good[nm][0] += 1
            if not kernel_value(n.value):
                good[nm][1] = False
    return {nm for nm, (cnt, ok) in good.items() if ok and nm not in params and stores.get(nm) == cnt}


def state_preserving_call(c):
    """a call that cannot change the attributes of the objects of the orchestration layer: pure functions and compiled kernels"""
    if is_pure(c):
        return True
    if (isinstance(c.func, ast.Attribute) and c.func.attr in kernel_names() and dotted(c.func.value) != 'self') or \
            (isinstance(c.func, ast.Name) and c.func.id in _KERNEL_ALIASES):
        return all(is_pure(a) or state_preserving_call(a) if isinstance(a, ast.Call) else is_pure(a) for a in list(c.args) + [k.value for k in c.keywords])
    d0 = dotted(c.func) or ''
    if d0.startswith('np.') or d0.startswith('numpy.') or d0.startswith('math.') or (isinstance(c.func, ast.Attribute) and c.func.attr in PURE_METHODS and dotted(c.func.value) not in (None, 'self')):
        return True
    if dotted(c.func) in ('msg', 'log', 'warn', 'error', 'csc_matrix', 'get_model', 'gc.collect', 'np.zeros', 'np.array', 'np.ascontiguousarray', 'np.asarray', 'np.deg2rad', 'deg2rad', 'csr_matrix', 'coo_matrix',
                          'finalize_symmetric_matrix', 'make_symmetric', 'make_skew_symmetric', 'check_c', 'linspace', 'np.linspace', 'np.meshgrid', 'np.atleast_1d', 'np.zeros_like'):
        return True
    return False


def _walk_outside_lambdas(e):
    """creating a lambda evaluates nothing but its default values: its body runs where it is called and sees the variables as they
    are then (late binding), so the creation may be moved freely inside the scope"""
    todo = [e]
    while todo:
        n = todo.pop()
        yield n
        if isinstance(n, ast.Lambda):
            todo.extend(n.args.defaults)
            todo.extend(d for d in n.args.kw_defaults if d is not None)
        else:
            todo.extend(ast.iter_child_nodes(n))


def is_pure(e):
    """no side effect and no dependence on mutable state other than through the names / attributes it reads"""
    for n in _walk_outside_lambdas(e):
        if isinstance(n, (ast.Yield, ast.YieldFrom, ast.Await, ast.NamedExpr)):
            return False
        if isinstance(n, ast.Call):
            d = dotted(n.func)
            if d in PURE_FUNCS:
                continue
            if isinstance(n.func, ast.Attribute) and n.func.attr in PURE_METHODS:
                continue
            return False
    return True


def reads(e):
    """(names, attribute chains) read by an expression (comprehension variables are not reads of the enclosing scope)"""
    names, attrs = set(), set()
    for n in free_names(e):
        if isinstance(n.ctx, ast.Load):
            names.add(n.id)
    for n in ast.walk(e):
        if isinstance(n, ast.Attribute):
            d = dotted(n)
            if d:
                attrs.add(d)
    return names, attrs


# --------------------------------------------------------------------------
# tests: negation normal form, canonical polarity


NEG_OP = {ast.Eq: ast.NotEq, ast.NotEq: ast.Eq, ast.Lt: ast.GtE, ast.GtE: ast.Lt, ast.Gt: ast.LtE, ast.LtE: ast.Gt,
          ast.Is: ast.IsNot, ast.IsNot: ast.Is, ast.In: ast.NotIn, ast.NotIn: ast.In}
NEGATIVE_OPS = (ast.NotEq, ast.IsNot, ast.NotIn)


def intlike(x):
    if isinstance(x, ast.Constant):
        return isinstance(x.value, int) and not isinstance(x.value, bool)
    if isinstance(x, ast.Attribute):
        return x.attr.endswith(('_start', '_end')) or x.attr in ('size', 'm', 'n', 'num_eigvalues', 'maxNumIter')
    if isinstance(x, ast.Name):
        return x.id in ('row', 'col', 'row0', 'col0', 'size', 'i', 'j', 'k', 'l', 'iteration', 'step_num', 'n', 'm')
    if isinstance(x, ast.Call):
        return dotted(x.func) == 'len'
    if isinstance(x, ast.BinOp) and isinstance(x.op, (ast.Add, ast.Sub, ast.Mult)):
        return intlike(x.left) and intlike(x.right)
    return False


def negate(t):
    if isinstance(t, ast.UnaryOp) and isinstance(t.op, ast.Not):
        return nnf(t.operand)
    if isinstance(t, ast.BoolOp):
        op = ast.Or() if isinstance(t.op, ast.And) else ast.And()
        return ast.BoolOp(op=op, values=[negate(v) for v in t.values])
    if isinstance(t, ast.Compare) and len(t.ops) == 1 and type(t.ops[0]) in NEG_OP:
        # order comparisons are not negated (nan) unless both sides are integer-like (offsets, sizes, counters, integer literals)
        if isinstance(t.ops[0], (ast.Lt, ast.GtE, ast.Gt, ast.LtE)) and not (intlike(t.left) and intlike(t.comparators[0])):
            return ast.UnaryOp(op=ast.Not(), operand=t)
        return ast.Compare(left=t.left, ops=[NEG_OP[type(t.ops[0])]()], comparators=t.comparators)
    if isinstance(t, ast.Constant) and isinstance(t.value, bool):
        return ast.Constant(value=not t.value)
    return ast.UnaryOp(op=ast.Not(), operand=t)


def nnf(t):
    if isinstance(t, ast.UnaryOp) and isinstance(t.op, ast.Not):
        return negate(t.operand)
    if isinstance(t, ast.BoolOp):
        vals = []
        for v in t.values:
            v = nnf(v)
            if isinstance(v, ast.BoolOp) and type(v.op) is type(t.op):
                vals += v.values
            else:
                vals.append(v)
        return ast.BoolOp(op=t.op, values=vals)
    return t


def _const_item(x):
    """d['key'] / obj.attr['key']: may raise, so canonical_decision only accepts it when every test of the decision reads this same item"""
    return isinstance(x, ast.Subscript) and isinstance(x.slice, ast.Constant) and (isinstance(x.value, ast.Name) or dotted(x.value) is not None)


def simple_operand(v):
    """an operand of and/or whose evaluation cannot raise or have effects, so that it may be reordered"""
    if isinstance(v, ast.Name):
        return True
    if isinstance(v, ast.UnaryOp) and isinstance(v.op, ast.Not):
        return simple_operand(v.operand)
    if isinstance(v, ast.Compare) and len(v.ops) == 1 and isinstance(v.ops[0], (ast.Is, ast.IsNot, ast.Eq, ast.NotEq)):
        return all(isinstance(x, (ast.Name, ast.Constant)) or dotted(x) or _const_item(x) for x in [v.left] + v.comparators)
    if isinstance(v, ast.Attribute):
        return dotted(v) is not None
    return False


def canon_test(t):
    t = nnf(t)
    if isinstance(t, ast.BoolOp):
        vals = [canon_test(v) for v in t.values]
        if all(simple_operand(v) for v in vals):
            vals = sorted(vals, key=dump)
            # idempotence
            out = []
            for v in vals:
                if not out or dump(out[-1]) != dump(v):
                    out.append(v)
            vals = out
        if len(vals) == 1:
            return vals[0]
        return ast.BoolOp(op=t.op, values=vals)
    return t


def negativity(t):
    n = 0
    for x in ast.walk(t):
        if isinstance(x, ast.UnaryOp) and isinstance(x.op, ast.Not):
            n += 1
        if isinstance(x, ast.Compare) and any(isinstance(o, NEGATIVE_OPS) for o in x.ops):
            n += 1
    return n


def prefer_negated(t):
    """should `if t: A else: B` be written `if not t: B else: A` ?  (canonical polarity: fewer negations, then text)"""
    nt = canon_test(negate(t))
    a, b = negativity(t), negativity(nt)
    if a != b:
        return b < a, nt
    return dump(nt) < dump(t), nt


# --------------------------------------------------------------------------
# block helpers


def always_exits(stmts):
    for st in stmts:
        if isinstance(st, (ast.Return, ast.Raise, ast.Continue, ast.Break)):
            return True
        if isinstance(st, ast.If) and st.orelse and always_exits(st.body) and always_exits(st.orelse):
            return True
    return False


def decision_paths(st):
    """an if statement whose branches are either leaves or consist of exactly one nested if -> [(list of (atom, polarity)), leaf statements)]
    for every path; None when a test is not a combination of simple operands"""
    def atoms_of(t):
        t = canon_test(t)
        if isinstance(t, ast.BoolOp):
            parts = []
            for v in t.values:
                a = atoms_of(v)
                if a is None:
                    return None
                parts.append(a)
            return ('and' if isinstance(t.op, ast.And) else 'or', parts)
        if simple_operand(t):
            # positive literal form
            nt = canon_test(negate(t))
            if negativity(nt) < negativity(t) or (negativity(nt) == negativity(t) and dump(nt) < dump(t)):
                return ('lit', nt, False)
            return ('lit', t, True)
        return None
    return atoms_of


def eval_formula(f, assign):
    """three-valued evaluation of a formula under a partial assignment {atom dump: bool}"""
    if f[0] == 'lit':
        v = assign.get(dump(f[1]))
        if v is None:
            return None
        return v if f[2] else not v
    vals = [eval_formula(x, assign) for x in f[1]]
    if f[0] == 'and':
        if any(v is False for v in vals):
            return False
        return True if all(v is True for v in vals) else None
    if any(v is True for v in vals):
        return True
    return False if all(v is False for v in vals) else None


def formula_atoms(f, out):
    if f[0] == 'lit':
        out.setdefault(dump(f[1]), f[1])
    else:
        for x in f[1]:
            formula_atoms(x, out)


def eq_const_static(node):
    return isinstance(node, ast.Compare) and len(node.ops) == 1 and isinstance(node.ops[0], ast.Eq) and isinstance(node.comparators[0], ast.Constant)


def canonical_decision(st, block_fn):
    """rebuild an if / elif / nested-if decision structure over simple side-effect-free tests as a Shannon expansion on the
    sorted atoms, merging equal leaves: nested and chained spellings of the same decision table get the same tree"""
    atoms_of = decision_paths(st)

    # collect the decision structure: internal node = (formula, then, else); leaf = list of statements
    def build(node_stmts):
        if len(node_stmts) == 1 and isinstance(node_stmts[0], ast.If):
            s = node_stmts[0]
            f = atoms_of(s.test)
            if f is None:
                return ('leaf', node_stmts)
            return ('node', f, build(s.body), build(s.orelse))
        return ('leaf', node_stmts)
    tree = build([st])
    if tree[0] == 'leaf':
        return None
    atoms = {}

    def collect(t):
        if t[0] == 'node':
            formula_atoms(t[1], atoms)
            collect(t[2])
            collect(t[3])
    collect(tree)
    if len(atoms) > 6 and not all(eq_const_static(v) for v in atoms.values()):
        return None
    if any(isinstance(x, ast.Subscript) for v in atoms.values() for x in ast.walk(v)):
        # a subscript may raise: the first test evaluated must be the same whatever the order, i.e. one subject for all tests
        if not all(eq_const_static(v) for v in atoms.values()) or len({dump(v.left) for v in atoms.values()}) != 1:
            return None
    if len(atoms) > 26:
        return None
    order = sorted(atoms)

    def leaf_for(t, assign):
        while t[0] == 'node':
            v = eval_formula(t[1], assign)
            if v is None:
                return None
            t = t[2] if v else t[3]
        return t[1]

    def eq_const(node):
        if isinstance(node, ast.Compare) and len(node.ops) == 1 and isinstance(node.ops[0], ast.Eq) and isinstance(node.comparators[0], ast.Constant):
            return dump(node.left), repr(node.comparators[0].value)
        return None
    eqs = {k: eq_const(v) for k, v in atoms.items()}

    def expand(assign, remaining):
        # E == k1 true makes E == k2 false for every other constant k2
        for a, val in list(assign.items()):
            if val and eqs.get(a):
                for b, eb in eqs.items():
                    if b != a and eb and eb[0] == eqs[a][0] and eb[1] != eqs[a][1] and b not in assign:
                        assign[b] = False
        remaining = [r for r in remaining if r not in assign]
        lf = leaf_for(tree, assign)
        if lf is not None:
            return copy.deepcopy(lf)
        if not remaining:
            return None
        a = remaining[0]
        hi = expand(dict(assign, **{a: True}), remaining[1:])
        lo = expand(dict(assign, **{a: False}), remaining[1:])
        if hi is None or lo is None:
            return None
        if [dump(x) for x in hi] == [dump(x) for x in lo]:
            return hi
        node = ast.If(test=copy.deepcopy(atoms[a]), body=hi or [ast.Pass()], orelse=lo)
        node._decision = True
        return [node]
    res = expand({}, order)
    return res


class ProverTimeout(Exception):
    pass


class Normalizer:
    def __init__(self, fn, sigdb=None):
        import time as _time
        # the prover is an optimisation of the rules' robustness, never a verdict: a function it cannot normalise within its budget is
        # simply "not proved" (the rules then read the current version)
        self.deadline = _time.process_time() + float(os.environ.get('VERIF_EQUIV_BUDGET', '20'))     # CPU seconds: independent of the load of the machine
        self.fn = fn
        self.sigdb = sigdb or {}
        self.params = [a.arg for a in fn.args.posonlyargs + fn.args.args + fn.args.kwonlyargs] + \
            ([fn.args.vararg.arg] if fn.args.vararg else []) + ([fn.args.kwarg.arg] if fn.args.kwarg else [])

    # ------------------------------------------------------------------
    def run(self):
        global _KERNEL_ALIASES
        saved = _KERNEL_ALIASES
        try:
            return self._run()
        finally:
            _KERNEL_ALIASES = saved

    def _run(self):
        global _KERNEL_ALIASES
        fn = self.fn
        fn.decorator_list = []
        fn.returns = None
        _KERNEL_ALIASES = find_kernel_aliases(fn)
        self.split_rebound_params(fn)
        self.list_truthiness(fn)
        for _ in range(6):
            before = dump(fn)
            fn.body = self.block(fn.body)
            try:
                self.split_webs(fn)
            except Exception:
                pass
            _KERNEL_ALIASES = find_kernel_aliases(fn)
            self.forward_substitute(fn)
            self.drop_rederivations(fn)
            for _m in range(30):
                if not self.moves(fn):
                    break
            for _m in range(30):
                if not self.moves_back(fn):
                    break
            self.merge_adjacent(fn)
            for _m in range(10):
                if not self.cse(fn):
                    break
            self.order_independent(fn)
            for _m in range(10):
                if not self.split_literal_sequences(fn):
                    break
            self.dead_stores(fn)
            fn = ExprCanon(self, arith=False).visit(fn)
            ast.fix_missing_locations(fn)
            if dump(fn) == before:
                break
        fn.body = self.under_facts(fn.body, {})
        fn.body = self.decide(fn.body)
        fn.body = self.under_facts(fn.body, {})
        self.late = True
        for _ in range(6):
            before = dump(fn)
            fn.body = self.block(fn.body)
            fn.body = self.hoist_pass(fn.body)
            fn.body = self.strip_tail(fn.body, ast.Return) or [ast.Pass()]
            try:
                self.split_webs(fn)
            except Exception:
                pass
            _KERNEL_ALIASES = find_kernel_aliases(fn)
            self.forward_substitute(fn)
            self.merge_adjacent(fn)
            self.dead_stores(fn)
            fn = ExprCanon(self, arith=False).visit(fn)
            ast.fix_missing_locations(fn)
            if dump(fn) == before:
                break
        self.fn = fn
        return fn

    def list_truthiness(self, fn):
        """in a test position, len(X) > 0 / len(X) != 0 / len(X) >= 1 -> X and len(X) == 0 -> not X, for an X that the function itself
        treats as a list (it calls X.append / X.extend: ndarrays, whose truth value is not their length, have neither)"""
        listish = {dotted(c.func.value) for c in ast.walk(fn) if isinstance(c, ast.Call) and isinstance(c.func, ast.Attribute)
                   and c.func.attr in ('append', 'extend') and dotted(c.func.value)}
        if not listish:
            return

        def conv(t):
            if isinstance(t, ast.BoolOp):
                t.values = [conv(v) for v in t.values]
                return t
            if isinstance(t, ast.UnaryOp) and isinstance(t.op, ast.Not):
                t.operand = conv(t.operand)
                return t
            if isinstance(t, ast.Compare) and len(t.ops) == 1 and isinstance(t.left, ast.Call) and dotted(t.left.func) == 'len' and len(t.left.args) == 1 \
                    and dotted(t.left.args[0]) in listish and isinstance(t.comparators[0], ast.Constant) and type(t.comparators[0].value) is int:
                k, op = t.comparators[0].value, type(t.ops[0])
                if (op, k) in ((ast.Gt, 0), (ast.NotEq, 0), (ast.GtE, 1)):
                    return t.left.args[0]
                if (op, k) in ((ast.Eq, 0), (ast.LtE, 0), (ast.Lt, 1)):
                    return ast.UnaryOp(op=ast.Not(), operand=t.left.args[0])
            return t
        for n in ast.walk(fn):
            if isinstance(n, (ast.If, ast.While, ast.IfExp)):
                n.test = conv(n.test)

    def drop_rederivations(self, fn):
        """a top-level statement that re-executes, unchanged, a statement of self._rebuild() after self._rebuild() (or
        self.get_size(), which calls it) has run in this function, with nothing in between that writes what it reads or writes:
        it re-derives the value _rebuild has just derived"""
        rb = None
        for k, v in self.sigdb.items():
            if k[0] == 'rebuild':
                rb = v
        if rb is None or fn.name == '_rebuild' or getattr(self, '_is_rebuild', False):
            return
        if not hasattr(self, '_rb_dumps'):
            f2 = copy.deepcopy(rb)
            nz = Normalizer(f2, {k: v for k, v in self.sigdb.items() if k[0] != 'rebuild'})
            nz._is_rebuild = True
            try:
                f2 = nz.run()
            except RecursionError:
                self._rb_dumps = {}
                return
            self._rb_dumps = {}
            main = []

            def main_path(stmts):
                for st in stmts:
                    if isinstance(st, ast.If) and always_exits(st.body) and st.orelse and not always_exits(st.orelse):
                        main_path(st.orelse)
                    elif isinstance(st, ast.If) and st.orelse and always_exits(st.orelse) and not always_exits(st.body):
                        main_path(st.body)
                    else:
                        main.append(st)
            main_path(f2.body)
            for st in main:
                if isinstance(st, (ast.Assign, ast.If)) and all(isinstance(x, ast.Attribute) and dotted(x) and dotted(x).startswith('self.') for x in ast.walk(st)
                                                                 if isinstance(getattr(x, 'ctx', None), ast.Store)) \
                        and not any(isinstance(c, ast.Call) and not is_pure(c) for c in ast.walk(st)):
                    self._rb_dumps[dump(st)] = st
        if not self._rb_dumps:
            return
        rebuilt = False
        keep = []
        dirty = set()
        for st in fn.body:
            is_rb = isinstance(st, ast.Expr) and isinstance(st.value, ast.Call) and dotted(st.value.func) in ('self._rebuild',)
            calls_rb = any(isinstance(c, ast.Call) and dotted(c.func) in ('self._rebuild', 'self.get_size') for c in ast.walk(st))
            if rebuilt and dump(st) in self._rb_dumps:
                touched = {dotted(x) for x in ast.walk(st) if isinstance(x, ast.Attribute) and dotted(x)}
                if not (touched & dirty) and 'CALL' not in dirty:
                    continue
            keep.append(st)
            if is_rb or (calls_rb and isinstance(st, (ast.Assign, ast.If)) and not any(isinstance(c, ast.Call) and dotted(c.func) not in ('self._rebuild', 'self.get_size') and not state_preserving_call(c) for c in ast.walk(st))):
                rebuilt = True
                dirty = set()
                continue
            for x in ast.walk(st):
                if isinstance(x, ast.Attribute) and isinstance(x.ctx, (ast.Store, ast.Del)) and dotted(x):
                    dirty.add(dotted(x))
                if isinstance(x, ast.Call) and not state_preserving_call(x) and dotted(x.func) not in ('self._rebuild', 'self.get_size', 'self._get_lam_F'):
                    dirty.add('CALL')
        fn.body = keep

    def under_facts(self, stmts, facts, aliases=None):
        """inside `if E == k:` (E pure, not re-bound in the branch) a test `E == k2` is decided"""
        out = []
        aliases = dict(aliases or {})        # local name -> attribute chain it was bound to (once) with nothing in between that could change the chain
        for st in stmts:
            if isinstance(st, ast.Assign) and len(st.targets) == 1 and isinstance(st.targets[0], ast.Name) and isinstance(st.value, ast.Attribute) and dotted(st.value) \
                    and sum(1 for n in ast.walk(self.fn) if isinstance(n, ast.Name) and n.id == st.targets[0].id and isinstance(n.ctx, (ast.Store, ast.Del))) == 1:
                aliases[st.targets[0].id] = st.value
            elif aliases and not isinstance(st, ast.If):
                if any((isinstance(x, ast.Call) and not (is_pure(x) or state_preserving_call(x))) or
                       (isinstance(x, (ast.Attribute, ast.Subscript)) and isinstance(x.ctx, (ast.Store, ast.Del))) for x in ast.walk(st)):
                    aliases = {}
            if isinstance(st, ast.If):
                t = self.decide_test(st.test, facts)
                ok, val = inline._Fold._const(t)
                if ok:
                    out += self.under_facts(st.body if val else st.orelse, facts)
                    continue
                st.test = t
                f2 = dict(facts)
                f3 = dict(facts)
                # generic literal facts: the (negation-normalised) test itself is known inside its branches
                if simple_operand(t) and is_pure(t):
                    nt = canon_test(negate(t))
                    f2['L:' + dump(t)] = ('lit', True, t)
                    f2['L:' + dump(nt)] = ('lit', False, t)
                    f3['L:' + dump(t)] = ('lit', False, t)
                    f3['L:' + dump(nt)] = ('lit', True, t)
                if eq_const_static(t) and isinstance(t.left, ast.Name) and t.left.id in aliases:
                    # v == k with v = obj.attr still current: obj.attr == k as well
                    f2[dump(aliases[t.left.id])] = ('eq', repr(t.comparators[0].value), aliases[t.left.id])
                if eq_const_static(t) and is_pure(t.left):
                    f2[dump(t.left)] = ('eq', repr(t.comparators[0].value), t.left)
                    prev = f3.get(dump(t.left))
                    ne = set(prev[1]) if prev and prev[0] == 'ne' else set()
                    if not prev or prev[0] == 'ne':
                        f3[dump(t.left)] = ('ne', frozenset(ne | {repr(t.comparators[0].value)}), t.left)
                # (facts are killed statement by statement inside the branch; nested loops start without facts)
                st.body = self.under_facts(st.body, f2, aliases) or [ast.Pass()]
                st.orelse = self.under_facts(st.orelse, f3, aliases)
                out.append(st)
                if aliases and any((isinstance(x, ast.Call) and not (is_pure(x) or state_preserving_call(x))) or
                                   (isinstance(x, (ast.Attribute, ast.Subscript)) and isinstance(x.ctx, (ast.Store, ast.Del))) for x in ast.walk(st)):
                    aliases = {}
            else:
                compound = False
                for f in ('body', 'orelse', 'finalbody'):
                    b = getattr(st, f, None)
                    if isinstance(b, list) and b and isinstance(b[0], ast.stmt) and not isinstance(st, (ast.FunctionDef, ast.ClassDef)):
                        setattr(st, f, self.under_facts(b, {}))
                        compound = True
                if not compound and facts and any(isinstance(x, ast.Subscript) and isinstance(x.value, ast.Dict) for x in ast.walk(st)):
                    # {k1: v1, ...}[E] where E == k1 is known here
                    class TX(ast.NodeTransformer):
                        def visit_Subscript(self, n):
                            self.generic_visit(n)
                            if isinstance(n.ctx, ast.Load) and isinstance(n.value, ast.Dict) and all(isinstance(k, ast.Constant) for k in n.value.keys):
                                f = facts.get(dump(n.slice))
                                if f and f[0] == 'eq':
                                    hit = [v for k, v in zip(n.value.keys, n.value.values) if repr(k.value) == f[1]]
                                    if len(hit) == 1 and all(is_pure(v) for v in n.value.values):
                                        return hit[0]
                            return n
                    st = TX().visit(st)
                if not compound and facts and any(isinstance(x, ast.IfExp) for x in ast.walk(st)):
                    nz = self

                    class FX(ast.NodeTransformer):
                        def visit_IfExp(self, n):
                            self.generic_visit(n)
                            t2 = nz.decide_test(n.test, facts)
                            ok2, val2 = inline._Fold._const(t2)
                            if ok2:
                                return n.body if val2 else n.orelse
                            return n
                    st = FX().visit(st)
                out.append(st)
            # a statement that re-binds what a fact talks about ends the fact
            facts = self.kill_facts([st], facts)
        return out

    def kill_facts(self, stmts, facts):
        if not facts:
            return facts
        stored = set()
        impure = False
        for s2 in stmts:
            for x in ast.walk(s2):
                if isinstance(getattr(x, 'ctx', None), (ast.Store, ast.Del)):
                    d = dotted(x) if isinstance(x, (ast.Name, ast.Attribute)) else dotted(x.value) if isinstance(x, ast.Subscript) else None
                    stored.add(d or '?')
                if isinstance(x, ast.Call) and not (is_pure(x) or state_preserving_call(x)):
                    impure = True
        out = {}
        for k, v in facts.items():
            nm, at = reads(v[2])
            if '?' in stored or (nm | at) & stored:
                continue
            if at and impure:
                continue
            out[k] = v
        return out

    def decide_test(self, t, facts):
        if isinstance(t, ast.BoolOp):
            vals = [self.decide_test(v, facts) for v in t.values]
            keep = []
            for v in vals:
                ok, val = inline._Fold._const(v)
                if ok:
                    if isinstance(t.op, ast.And) and not val:
                        return ast.Constant(value=False)
                    if isinstance(t.op, ast.Or) and val:
                        return ast.Constant(value=True)
                    continue
                keep.append(v)
            if not keep:
                return ast.Constant(value=isinstance(t.op, ast.And))
            return keep[0] if len(keep) == 1 else ast.BoolOp(op=t.op, values=keep)
        lit = facts.get('L:' + dump(canon_test(t))) if not isinstance(t, ast.Constant) else None
        if lit is not None:
            return ast.Constant(value=lit[1])
        if isinstance(t, ast.Compare) and len(t.ops) == 1 and isinstance(t.ops[0], (ast.Eq, ast.NotEq)) and isinstance(t.comparators[0], ast.Constant):
            f = facts.get(dump(t.left))
            if f:
                k = repr(t.comparators[0].value)
                res = None
                if f[0] == 'eq':
                    res = (f[1] == k)
                elif f[0] == 'ne' and k in f[1]:
                    res = False
                if res is not None:
                    return ast.Constant(value=res if isinstance(t.ops[0], ast.Eq) else not res)
        return t

    def decide(self, stmts):
        """final pass: decision structures in canonical (Shannon) form"""
        out = []
        for st in stmts:
            if isinstance(st, ast.If) and st.orelse:
                cd = canonical_decision(st, None)
                if cd is not None:
                    for x in self.polish(cd):
                        out += self.decide_inside(x)
                    continue
            out += self.decide_inside(st)
        return out

    def decide_inside(self, st):
        if isinstance(st, ast.If) and getattr(st, '_leafwalk', True):
            # an If produced by canonical_decision: only its leaves are visited
            st.body = self.decide_leaves(st.body)
            st.orelse = self.decide_leaves(st.orelse)
            return [st]
        for f in ('body', 'orelse', 'finalbody'):
            b = getattr(st, f, None)
            if isinstance(b, list) and b and isinstance(b[0], ast.stmt) and not isinstance(st, (ast.FunctionDef, ast.ClassDef)):
                setattr(st, f, self.decide(b))
        if isinstance(st, ast.Try):
            for h in st.handlers:
                h.body = self.decide(h.body)
        return [st]

    def decide_leaves(self, stmts):
        if len(stmts) == 1 and isinstance(stmts[0], ast.If) and getattr(stmts[0], '_decision', False):
            return self.decide_inside(stmts[0])
        return self.decide(stmts)

    def split_rebound_params(self, fn):
        """a parameter re-used as the target of a top-level for loop (`for plyt, ... in zip(plyts, ...)`) and not read
        after that loop is, from the loop on, a different variable: give it a local name inside the loop"""
        for k, st in enumerate(fn.body):
            if not isinstance(st, ast.For):
                continue
            tnames = [x.id for x in ast.walk(st.target) if isinstance(x, ast.Name) and x.id in self.params]
            for p in tnames:
                later = [n for s2 in fn.body[k + 1:] + st.orelse for n in ast.walk(s2) if isinstance(n, ast.Name) and n.id == p]
                in_iter = [n for n in ast.walk(st.iter) if isinstance(n, ast.Name) and n.id == p]
                if later or in_iter:
                    continue
                new = p + '__loop'
                for n in [x for x in ast.walk(st.target)] + [x for b in st.body for x in ast.walk(b)]:
                    if isinstance(n, ast.Name) and n.id == p:
                        n.id = new

    def finish(self):
        """arithmetic normal form, after the local names have been renamed"""
        self.fn = ExprCanon(self, arith=True).visit(self.fn)
        return self.fn

    # ------------------------------------------------------------------
    def tick(self):
        import time as _time
        if _time.process_time() > self.deadline:
            raise ProverTimeout()

    def block(self, stmts):
        self.tick()
        out = []
        stmts = [s for s in stmts if not (isinstance(s, ast.Pass) or (isinstance(s, ast.Expr) and isinstance(s.value, ast.Constant)))]
        # progress messages of compmech.logger are not behaviour any of the properties speaks about
        stmts = [s for s in stmts if not (isinstance(s, ast.Expr) and isinstance(s.value, ast.Call) and dotted(s.value.func) in ('msg', 'log', 'warn')
                                          and all(is_pure(a) for a in list(s.value.args) + [k.value for k in s.value.keywords]))]
        stmts = self.thread_flags(stmts)
        i = 0
        while i < len(stmts):
            st = stmts[i]
            rest = stmts[i + 1:]
            if isinstance(st, ast.If) and not st.orelse and len(st.body) == 1 and isinstance(st.body[0], ast.Assign) and len(st.body[0].targets) == 1 \
                    and isinstance(st.body[0].targets[0], ast.Name) and out and isinstance(out[-1], ast.Assign) and len(out[-1].targets) == 1 \
                    and isinstance(out[-1].targets[0], ast.Name) and out[-1].targets[0].id == st.body[0].targets[0].id and st.body[0].targets[0].id not in self.params \
                    and is_pure(out[-1].value) and is_pure(st.test) and is_pure(st.body[0].value) and cost(out[-1].value) <= 8 and cost(st.body[0].value) <= 30 \
                    and not isinstance(out[-1].value, ast.IfExp) and not isinstance(st.body[0].value, ast.IfExp) \
                    and any(isinstance(n, ast.Name) and n.id == st.body[0].targets[0].id for n in ast.walk(st.body[0].value)):
                # x = A; if c(x): x = B(x)   ->   x = B(A) if c(A) else A      (A, B, c pure; A cheap; a local updated from its own value)
                nm_ = st.body[0].targets[0].id
                a_ = out[-1].value
                sub_ = lambda e: inline._Subst({nm_: a_}, {}).visit(copy.deepcopy(e))
                out[-1] = ast.Assign(targets=out[-1].targets, value=ast.IfExp(test=sub_(st.test), body=sub_(st.body[0].value), orelse=copy.deepcopy(a_)))
                i += 1
                continue
            if isinstance(st, ast.If):
                st.test = canon_test(st.test)
                exp = self.expand_table_dispatch(st)
                if exp is not None:
                    stmts = stmts[:i] + exp + rest
                    continue
                body, orelse = st.body, st.orelse
                # a lone `return <simple>` after an if is copied into its branches (then `x = E; return x` can become `return E`)
                if len(rest) == 1 and isinstance(rest[0], ast.Return) and not always_exits(body) and not always_exits(orelse) and cost(rest[0]) <= 16:
                    body = list(body) + [copy.deepcopy(rest[0])]
                    orelse = list(orelse) + [copy.deepcopy(rest[0])]
                    rest = []
                # guard lowering: the code after an `if` whose one branch always leaves belongs to the other branch
                if rest and always_exits(body) and not always_exits(orelse):
                    orelse = list(orelse) + rest
                    rest = []
                elif rest and orelse and always_exits(orelse) and not always_exits(body):
                    body = list(body) + rest
                    rest = []
                body = self.block(body)
                orelse = self.block(orelse)
                # constant tests
                ok, val = inline._Fold._const(st.test)
                if ok:
                    out += body if val else orelse
                    stmts = stmts[:i + 1] + rest
                    i += 1
                    continue
                if orelse:
                    swap, nt = prefer_negated(st.test)
                    if swap:
                        st.test, body, orelse = nt, orelse, body
                if not body and orelse:
                    st.test, body, orelse = canon_test(negate(st.test)), orelse, []
                if not body and not orelse:
                    if not is_pure(st.test):
                        out.append(ast.Expr(value=st.test))
                elif len(body) == 1 and len(orelse) == 1 and isinstance(body[0], ast.Assign) and isinstance(orelse[0], ast.Assign) \
                        and len(body[0].targets) == 1 and len(orelse[0].targets) == 1 and dotted(body[0].targets[0]) is not None \
                        and dotted(body[0].targets[0]) == dotted(orelse[0].targets[0]) and is_pure(body[0].value) and is_pure(orelse[0].value) and is_pure(st.test) \
                        and not isinstance(body[0].value, ast.IfExp) and not isinstance(orelse[0].value, ast.IfExp):
                    ife = ast.IfExp(test=st.test, body=body[0].value, orelse=orelse[0].value)
                    out += self.split_assign(ast.Assign(targets=[body[0].targets[0]], value=ife))
                elif self.merge_call_branches(st.test, body, orelse) is not None:
                    out += self.split_assign(self.merge_call_branches(st.test, body, orelse))
                elif len(body) == 1 and len(orelse) == 1 and isinstance(body[0], ast.AugAssign) and isinstance(orelse[0], ast.AugAssign) \
                        and type(body[0].op) is type(orelse[0].op) and dump(body[0].target) == dump(orelse[0].target) and dotted(body[0].target) is not None \
                        and is_pure(body[0].value) and is_pure(orelse[0].value) and is_pure(st.test):
                    # if c: x += a else: x += b   ->   x += a if c else b
                    out.append(ast.AugAssign(target=body[0].target, op=body[0].op, value=ast.IfExp(test=st.test, body=body[0].value, orelse=orelse[0].value)))
                else:
                    st.body, st.orelse = body, orelse
                    tail = []
                    if tail:
                        st.body = self.block(st.body)
                        st.orelse = self.block(st.orelse)
                        if not st.body and st.orelse:
                            st.test, st.body, st.orelse = canon_test(negate(st.test)), st.orelse, []
                        if st.body or st.orelse:
                            out.append(st)
                        out += self.block(tail)
                    else:
                        out.append(st)
                stmts = stmts[:i + 1] + rest
                i += 1
                continue
            if isinstance(st, ast.For) and st.orelse and rest and always_exits(st.orelse) and len(st.body) == 1 and isinstance(st.body[0], ast.If) \
                    and not st.body[0].orelse and st.body[0].body and isinstance(st.body[0].body[-1], ast.Break) \
                    and not any(isinstance(n, (ast.Break, ast.Continue)) for b in st.body[0].body[:-1] for n in ast.walk(b)) \
                    and not any(isinstance(n, (ast.Break, ast.Continue)) and not _inside_loop(rest, n) for b in rest for n in ast.walk(b)):
                # search loop whose else-branch leaves: what follows the loop is reached through the `break` only and belongs in front of it
                st.body[0].body = st.body[0].body[:-1] + rest + [st.body[0].body[-1]]
                stmts = stmts[:i + 1]
                rest = []
            if isinstance(st, (ast.For, ast.While)):
                if isinstance(st, ast.While):
                    st.test = canon_test(st.test)
                st.body = self.block(st.body) or [ast.Pass()]
                st.body = self.strip_tail(st.body, ast.Continue) or [ast.Pass()]
                st.body = self.block(st.body) or [ast.Pass()]
                st.orelse = self.block(st.orelse)
                if isinstance(st, ast.For):
                    un = self.unroll(st)
                    if un is not None:
                        out += self.block(un)
                        i += 1
                        continue
                    st = self.loop_idiom(st)
                out.append(st)
            elif isinstance(st, ast.With):
                st.body = self.block(st.body) or [ast.Pass()]
                out.append(st)
            elif isinstance(st, ast.Try):
                st.body = self.block(st.body) or [ast.Pass()]
                for h in st.handlers:
                    h.body = self.block(h.body) or [ast.Pass()]
                st.orelse = self.block(st.orelse)
                st.finalbody = self.block(st.finalbody)
                out.append(st)
            elif isinstance(st, ast.Assign) and self.fold_item_store(out, st):
                pass
            elif isinstance(st, ast.Assign):
                out += self.split_assign(st)
            elif isinstance(st, ast.AugAssign) and isinstance(st.op, ast.Add) and isinstance(st.value, ast.UnaryOp) and isinstance(st.value.op, ast.USub):
                st.op, st.value = ast.Sub(), st.value.operand
                out.append(st)
            elif isinstance(st, ast.AugAssign) and isinstance(st.op, ast.Add) and isinstance(st.value, ast.BinOp) and isinstance(st.value.op, ast.Mult) \
                    and isinstance(st.value.left, ast.UnaryOp) and isinstance(st.value.left.op, ast.USub):
                # x += -a*b  ->  x -= a*b
                st.op = ast.Sub()
                st.value = ast.BinOp(left=st.value.left.operand, op=ast.Mult(), right=st.value.right)
                out.append(st)
            elif self.fold_append(out, st) or self.fold_item_store(out, st):
                pass
            elif isinstance(st, ast.Expr) and isinstance(st.value, ast.Call) and dotted(st.value.func) == 'setattr' and len(st.value.args) == 3 and not st.value.keywords \
                    and isinstance(st.value.args[1], ast.Constant) and isinstance(st.value.args[1].value, str) and st.value.args[1].value.isidentifier():
                # setattr(obj, 'name', v) -> obj.name = v
                out.append(ast.Assign(targets=[ast.Attribute(value=st.value.args[0], attr=st.value.args[1].value, ctx=ast.Store())], value=st.value.args[2]))
            elif isinstance(st, ast.Return) and isinstance(st.value, ast.IfExp) and is_pure(st.value.test):
                # return a if c else b  ->  if c: return a else: return b   (statement level is the canonical one: a trailing `return None` disappears)
                stmts = stmts[:i] + [ast.If(test=st.value.test, body=[ast.Return(value=st.value.body)], orelse=[ast.Return(value=st.value.orelse)])]
                continue
            elif isinstance(st, (ast.Return, ast.Raise, ast.Continue, ast.Break)):
                out.append(st)
                break       # unreachable code after an unconditional exit
            else:
                out.append(st)
            i += 1
        return out

    def fold_item_store(self, out, st):
        """d = {..literal..} followed by d['k'] = e (constant key not yet in the literal, pure e not reading d)  ->  d = {.., 'k': e};
        between the two only other fresh literals may be created (n = {} / [] / constant) or filled the same way (they fold first)"""
        if not (isinstance(st, ast.Assign) and len(st.targets) == 1 and isinstance(st.targets[0], ast.Subscript) and isinstance(st.targets[0].value, ast.Name)
                and isinstance(st.targets[0].slice, ast.Constant) and isinstance(st.targets[0].slice.value, (str, int))):
            return False
        v = st.targets[0].value.id
        j = len(out) - 1
        while j >= 0:
            o = out[j]
            if isinstance(o, ast.Assign) and len(o.targets) == 1 and isinstance(o.targets[0], ast.Name) and o.targets[0].id == v:
                break
            fresh = isinstance(o, ast.Assign) and len(o.targets) == 1 and isinstance(o.targets[0], ast.Name) and isinstance(o.value, (ast.Dict, ast.List, ast.Tuple, ast.Constant)) \
                and is_pure(o.value) and not any(isinstance(x, ast.Name) and x.id == v for x in ast.walk(o))
            if not fresh:
                return False
            j -= 1
        if j < 0 or not isinstance(out[j].value, ast.Dict):
            return False
        d = out[j].value
        if any(k is None or not isinstance(k, ast.Constant) for k in d.keys) or any(k.value == st.targets[0].slice.value for k in d.keys):
            return False
        if not is_pure(st.value) or any(isinstance(x, ast.Name) and x.id == v for x in ast.walk(st.value)) or not all(is_pure(x) for x in d.values):
            return False
        # the value must not read any of the names created in between
        between = {o.targets[0].id for o in out[j + 1:]}
        if any(isinstance(x, ast.Name) and x.id in between for x in ast.walk(st.value)):
            return False
        out[j] = ast.Assign(targets=out[j].targets, value=ast.Dict(keys=list(d.keys) + [st.targets[0].slice], values=list(d.values) + [st.value]))
        return True

    def fold_append(self, out, st):
        """v = [a, b] directly followed by v.append(c) / v.extend([c, d]) / v += [c, d]   ->   v = [a, b, c(, d)]   (pure elements)"""
        if not out or not (isinstance(out[-1], ast.Assign) and len(out[-1].targets) == 1 and isinstance(out[-1].targets[0], ast.Name) and isinstance(out[-1].value, ast.List)):
            return False
        v = out[-1].targets[0].id
        new = None
        if isinstance(st, ast.Expr) and isinstance(st.value, ast.Call) and isinstance(st.value.func, ast.Attribute) and isinstance(st.value.func.value, ast.Name) \
                and st.value.func.value.id == v and not st.value.keywords and len(st.value.args) == 1:
            if st.value.func.attr == 'append':
                new = [st.value.args[0]]
            elif st.value.func.attr == 'extend' and isinstance(st.value.args[0], (ast.List, ast.Tuple)):
                new = list(st.value.args[0].elts)
        elif isinstance(st, ast.AugAssign) and isinstance(st.op, ast.Add) and isinstance(st.target, ast.Name) and st.target.id == v and isinstance(st.value, (ast.List, ast.Tuple)):
            new = list(st.value.elts)
        if new is None or any(isinstance(e, ast.Starred) or not is_pure(e) or any(isinstance(x, ast.Name) and x.id == v for x in ast.walk(e)) for e in new):
            return False
        if any(isinstance(e, ast.Starred) or not is_pure(e) for e in out[-1].value.elts):
            return False
        out[-1] = ast.Assign(targets=out[-1].targets, value=ast.List(elts=list(out[-1].value.elts) + new, ctx=ast.Load()))
        return True

    def merge_call_branches(self, test, body, orelse):
        """if c: T = F(.., A, ..) else: T = F(.., B, ..)   ->   T = F(.., A if c else B, ..)
        for an impure F: same callee, same targets, pure arguments that differ in exactly one position, pure test"""
        if not (len(body) == 1 and len(orelse) == 1 and isinstance(body[0], ast.Assign) and isinstance(orelse[0], ast.Assign)):
            return None
        a, b = body[0], orelse[0]
        if [dump(t) for t in a.targets] != [dump(t) for t in b.targets] or not isinstance(a.value, ast.Call) or not isinstance(b.value, ast.Call):
            return None
        ca, cb = a.value, b.value
        if dump(ca.func) != dump(cb.func) or len(ca.args) != len(cb.args) or [k.arg for k in ca.keywords] != [k.arg for k in cb.keywords] or not is_pure(test):
            return None
        if dotted(ca.func) is None or is_pure(ca):
            return None
        va = list(ca.args) + [k.value for k in ca.keywords]
        vb = list(cb.args) + [k.value for k in cb.keywords]
        if any(isinstance(x, ast.Starred) for x in va + vb) or any(k.arg is None for k in ca.keywords) or not all(is_pure(x) for x in va + vb):
            return None
        diff = [i for i, (x, y) in enumerate(zip(va, vb)) if dump(x) != dump(y)]
        if len(diff) != 1 or any(not all(isinstance(t, ast.Name) for t in ast.walk(tt) if isinstance(t, ast.expr) and not isinstance(t, (ast.Tuple, ast.List))) for tt in a.targets):
            return None
        i = diff[0]
        ife = ast.IfExp(test=test, body=va[i], orelse=vb[i])
        call = copy.deepcopy(ca)
        if i < len(ca.args):
            call.args[i] = ife
        else:
            call.keywords[i - len(ca.args)].value = ife
        return ast.Assign(targets=a.targets, value=call)

    def thread_flags(self, stmts):
        """flag = K0; if c: (... flag = K1) elif d: (... flag = K2) ...; if <test on flag>: A else: B   ->   the second `if` is decided at
        the end of every branch of the first one and its branch is appended there (jump threading).  The flag holds literals only (None,
        True / False, a non-empty tuple / list, a non-empty string, a non-zero number); the tests understood are `flag`, `not flag`,
        `flag is None`, `flag is not None`.  The assignments that are left are dead stores when nothing else reads the flag."""
        stmts = list(stmts)

        def flag_value(v):
            if isinstance(v, ast.Constant):
                if v.value is None:
                    return 'none'
                if isinstance(v.value, bool):
                    return v.value
                if isinstance(v.value, (str, int, float)) and v.value:
                    return 'obj'
                return None
            if isinstance(v, (ast.Tuple, ast.List)) and v.elts and not any(isinstance(e, ast.Starred) for e in v.elts):
                return 'obj'
            if isinstance(v, ast.Call) and isinstance(v.func, ast.Name) and v.func.id == 'record__' and v.keywords:
                return 'obj'
            return None

        def decide(t, flag, val):
            if isinstance(t, ast.UnaryOp) and isinstance(t.op, ast.Not):
                d = decide(t.operand, flag, val)
                return None if d is None else not d
            if isinstance(t, ast.Name) and t.id == flag:
                return {'none': False, 'obj': True, True: True, False: False}.get(val)
            if isinstance(t, ast.Compare) and len(t.ops) == 1 and isinstance(t.left, ast.Name) and t.left.id == flag and isinstance(t.ops[0], (ast.Is, ast.IsNot)) \
                    and isinstance(t.comparators[0], ast.Constant) and t.comparators[0].value is None and val is not None:
                return (val == 'none') == isinstance(t.ops[0], ast.Is)
            return None

        def stores(node, flag):
            return any(isinstance(n, ast.Name) and n.id == flag and isinstance(n.ctx, (ast.Store, ast.Del)) for n in ast.walk(node))

        def thread(br, cur, flag, b):
            if always_exits(br):
                return br
            br = list(br)
            for k, st in enumerate(br):
                if isinstance(st, ast.Assign) and len(st.targets) == 1 and isinstance(st.targets[0], ast.Name) and st.targets[0].id == flag:
                    cur = flag_value(st.value)
                    if cur is None:
                        return None
                elif stores(st, flag):
                    if k == len(br) - 1 and isinstance(st, ast.If) and not stores(st.test, flag):
                        nb, no = thread(st.body, cur, flag, b), thread(st.orelse, cur, flag, b)
                        if nb is None or no is None:
                            return None
                        new = ast.If(test=st.test, body=nb or [ast.Pass()], orelse=no)
                        return br[:k] + [new]
                    return None
            d = decide(b.test, flag, cur)
            if d is None:
                return None
            return br + copy.deepcopy(b.body if d else b.orelse)
        i = 0
        while i + 1 < len(stmts):
            a, b = stmts[i], stmts[i + 1]
            if isinstance(a, ast.If) and isinstance(b, ast.If):
                names = [n.id for n in ast.walk(b.test) if isinstance(n, ast.Name)]
                if len(set(names)) == 1 and decide(b.test, names[0], 'none') is not None and stores(a, names[0]) and not stores(a.test, names[0]):
                    flag = names[0]
                    init = None
                    for prev in reversed(stmts[:i]):
                        if isinstance(prev, ast.Assign) and len(prev.targets) == 1 and isinstance(prev.targets[0], ast.Name) and prev.targets[0].id == flag:
                            init = flag_value(prev.value)
                            break
                        if any(isinstance(n, ast.Name) and n.id == flag for n in ast.walk(prev)):
                            break
                    new = thread([a], init, flag, b)
                    if new is not None:
                        stmts[i:i + 2] = new
                        continue
            i += 1
        return stmts

    def expand_table_dispatch(self, st):
        """if E in {k1: v1, k2: v2, ...}: BODY(table[E]) else: ELSE   ->   if E == k1: BODY(v1) elif E == k2: BODY(v2) ... else: ELSE
        (E pure, literal table with constant keys, at most 24 entries)"""
        t = st.test
        if not (isinstance(t, ast.Compare) and len(t.ops) == 1 and isinstance(t.ops[0], (ast.In, ast.NotIn)) and isinstance(t.comparators[0], ast.Dict)):
            return None
        table = t.comparators[0]
        if not table.keys or len(table.keys) > 24 or not all(isinstance(k, ast.Constant) for k in table.keys) or not is_pure(t.left):
            return None
        body, orelse = (st.body, st.orelse) if isinstance(t.ops[0], ast.In) else (st.orelse, st.body)
        key = dump(t.left)
        tdump = dump(table)

        def inst(stmts, v):
            class RT(ast.NodeTransformer):
                def visit_Subscript(self, n):
                    self.generic_visit(n)
                    if isinstance(n.ctx, ast.Load) and dump(n.value) == tdump and dump(n.slice) == key:
                        return copy.deepcopy(v)
                    return n
            return [RT().visit(copy.deepcopy(x)) for x in stmts]
        chain = list(orelse)
        for k, v in reversed(list(zip(table.keys, table.values))):
            chain = [ast.If(test=ast.Compare(left=copy.deepcopy(t.left), ops=[ast.Eq()], comparators=[copy.deepcopy(k)]), body=inst(body, v) or [ast.Pass()], orelse=chain)]
        return chain

    def hoist_common_suffix(self, st):
        """an if / elif tree all of whose branches that fall through end with the same statements: those statements follow the tree
        (the inverse of copying the code after a guard into the branch that falls through)"""
        leaves = []

        def collect(node):
            for br in (node.body, node.orelse):
                if len(br) == 1 and isinstance(br[0], ast.If) and br[0].orelse:
                    collect(br[0])
                else:
                    leaves.append(br)
        collect(st)
        live = [lf for lf in leaves if not always_exits(lf)]
        if len(live) < 2 or any(not lf for lf in live):
            return []
        n = 0
        while all(len(lf) > n for lf in live) and len({dump(lf[-1 - n]) for lf in live}) == 1:
            n += 1
        if n == 0:
            return []
        tail = copy.deepcopy(live[0][-n:])
        for lf in live:
            del lf[-n:]
            if not lf:
                lf.append(ast.Pass())
        return tail

    def hoist_pass(self, stmts):
        """top-down: common suffixes are taken out of whole decision trees, then the leaves are visited"""
        out = []
        for st in stmts:
            if isinstance(st, ast.If) and st.orelse:
                tail = self.hoist_common_suffix(st)
                self.hoist_leaves(st)
                out.append(st)
                out += self.hoist_pass(tail)
                continue
            for f in ('body', 'orelse', 'finalbody'):
                b = getattr(st, f, None)
                if isinstance(b, list) and b and isinstance(b[0], ast.stmt) and not isinstance(st, (ast.FunctionDef, ast.ClassDef)):
                    setattr(st, f, self.hoist_pass(b))
            if isinstance(st, ast.Try):
                for h in st.handlers:
                    h.body = self.hoist_pass(h.body)
            out.append(st)
        return out

    def hoist_leaves(self, node):
        for attr in ('body', 'orelse'):
            br = getattr(node, attr)
            if len(br) == 1 and isinstance(br[0], ast.If) and br[0].orelse:
                self.hoist_leaves(br[0])
            else:
                setattr(node, attr, self.hoist_pass(br))

    def strip_tail(self, stmts, kind):
        """`continue` as the last action of a loop body (or `return None` as the last action of a function) is a no-op"""
        stmts = list(stmts)
        while stmts:
            last = stmts[-1]
            if isinstance(last, kind) and (kind is ast.Continue or last.value is None or (isinstance(last.value, ast.Constant) and last.value.value is None)):
                stmts.pop()
                continue
            if isinstance(last, ast.If):
                last.body = self.strip_tail(last.body, kind) or [ast.Pass()]
                last.orelse = self.strip_tail(last.orelse, kind)
            break
        return stmts

    def polish(self, stmts):
        res = []
        for st in stmts:
            if isinstance(st, ast.If):
                st.body = self.polish(st.body)
                st.orelse = self.polish(st.orelse)
                if st.orelse:
                    swap, nt = prefer_negated(st.test)
                    if swap:
                        st.test, st.body, st.orelse = nt, st.orelse, st.body
                    if not st.body:
                        st.test, st.body, st.orelse = canon_test(negate(st.test)), st.orelse, []
            res.append(st)
        return res

    def split_assign(self, st):
        # a = b = v  (v pure and simple)  ->  a = v; b = v
        if len(st.targets) > 1 and is_pure(st.value) and isinstance(st.value, (ast.Constant, ast.Name)):
            return [s for t in st.targets for s in self.split_assign(ast.Assign(targets=[t], value=copy.deepcopy(st.value)))]
        # a, b = x, y  with independent sides  ->  a = x; b = y
        t = st.targets[0]
        if len(st.targets) == 1 and isinstance(t, (ast.Tuple, ast.List)) and isinstance(st.value, (ast.Tuple, ast.List)) and len(t.elts) == len(st.value.elts) \
                and not any(isinstance(e, ast.Starred) for e in t.elts + st.value.elts):
            pairs = [(a, b) for a, b in zip(t.elts, st.value.elts) if not (dotted(a) is not None and dotted(a) == dotted(b))]
            ok = all(is_pure(v) for v in st.value.elts)
            for i, (a, _) in enumerate(pairs):
                ka = dotted(a) or dump(a)
                for j, (_, b) in enumerate(pairs):
                    nm, at = reads(b)
                    if i != j and (ka in nm or ka in at):
                        ok = False
                    if i == j and (ka in nm or ka in at) and False:
                        ok = False
            # a component may read its own target (x = f(x)); it may not read the target of another component
            if ok:
                return [s2 for a, b in pairs for s2 in self.split_assign(ast.Assign(targets=[a], value=b))]
        # T = a if c else T  ->  if c: T = a          T = T if c else b  ->  if not c: T = b
        if len(st.targets) == 1 and isinstance(st.value, ast.IfExp) and dotted(st.targets[0]) is not None:
            tt = st.targets[0]
            if dotted(st.value.orelse) == dotted(tt):
                return self.block([ast.If(test=st.value.test, body=[ast.Assign(targets=[tt], value=st.value.body)], orelse=[])])
            if dotted(st.value.body) == dotted(tt):
                return self.block([ast.If(test=canon_test(negate(st.value.test)), body=[ast.Assign(targets=[tt], value=st.value.orelse)], orelse=[])])
        # a, b, c = [f(v) for v in (x, y, z)]  ->  a = f(x); b = f(y); c = f(z)
        if len(st.targets) == 1 and isinstance(t, (ast.Tuple, ast.List)) and isinstance(st.value, ast.ListComp) and len(st.value.generators) == 1 \
                and not st.value.generators[0].ifs and isinstance(st.value.generators[0].iter, (ast.Tuple, ast.List)) \
                and len(st.value.generators[0].iter.elts) == len(t.elts) and is_pure(st.value.elt):
            g = st.value.generators[0]
            outl = []
            okc = True
            for tgt, item in zip(t.elts, g.iter.elts):
                if isinstance(g.target, ast.Name):
                    mp = {g.target.id: item}
                elif isinstance(g.target, (ast.Tuple, ast.List)) and isinstance(item, (ast.Tuple, ast.List)) and len(g.target.elts) == len(item.elts) \
                        and all(isinstance(x, ast.Name) for x in g.target.elts):
                    mp = {x.id: y for x, y in zip(g.target.elts, item.elts)}
                else:
                    okc = False
                    break
                outl.append(ast.Assign(targets=[tgt], value=inline._Subst(mp, {}).visit(copy.deepcopy(st.value.elt))))
            # the components are evaluated before any target is bound: a target must not be read by a later component
            if okc:
                tn = [dotted(x) for x in t.elts]
                for k2, a2 in enumerate(outl):
                    nm, at = reads(a2.value)
                    if any(x in nm or x in at for x in tn[:k2] if x):
                        okc = False
            if okc:
                return [s2 for a2 in outl for s2 in self.split_assign(a2)]
        # x = x  (no-op)
        if len(st.targets) == 1 and isinstance(st.targets[0], ast.Name) and isinstance(st.value, ast.Name) and st.targets[0].id == st.value.id:
            return []
        return [st]

    def unroll(self, st):
        """for T in (e1, e2, ...): BODY  over a literal of at most four elements, BODY without break / continue / re-binding of T"""
        it = st.iter
        if isinstance(it, ast.Call) and dotted(it.func) == 'enumerate' and len(it.args) == 1 and not it.keywords and isinstance(it.args[0], (ast.Tuple, ast.List)):
            it = ast.Tuple(elts=[ast.Tuple(elts=[ast.Constant(value=k), e], ctx=ast.Load()) for k, e in enumerate(it.args[0].elts)], ctx=ast.Load())
        elif isinstance(it, ast.Call) and dotted(it.func) == 'range' and not it.keywords and 1 <= len(it.args) <= 2 \
                and all(isinstance(a, ast.Constant) and isinstance(a.value, int) for a in it.args):
            lo, hi = (0, it.args[0].value) if len(it.args) == 1 else (it.args[0].value, it.args[1].value)
            it = ast.Tuple(elts=[ast.Constant(value=k) for k in range(lo, hi)], ctx=ast.Load())
        elif isinstance(it, ast.Call) and dotted(it.func) == 'zip' and not it.keywords and it.args and all(isinstance(a, (ast.Tuple, ast.List)) for a in it.args) \
                and len({len(a.elts) for a in it.args}) == 1 and not any(isinstance(e, ast.Starred) for a in it.args for e in a.elts) \
                and all(is_pure(e) for a in it.args for e in a.elts):
            # (pairing the elements changes the order in which they are evaluated: pure elements only)
            it = ast.Tuple(elts=[ast.Tuple(elts=[a.elts[k] for a in it.args], ctx=ast.Load()) for k in range(len(it.args[0].elts))], ctx=ast.Load())
        if not isinstance(it, (ast.Tuple, ast.List)) or not it.elts:
            return None
        if len(it.elts) > 8 and not (len(it.elts) <= 16 and all(isinstance(x, (ast.Constant, ast.Tuple)) and all(isinstance(y, (ast.Constant, ast.Tuple, ast.expr_context)) for y in ast.walk(x)) for x in it.elts)
                                     and sum(cost(b) for b in st.body) <= 40):
            return None
        search = None
        if len(st.body) == 1 and isinstance(st.body[0], ast.If) and not st.body[0].orelse and st.body[0].body and isinstance(st.body[0].body[-1], ast.Break) \
                and not any(isinstance(n, (ast.Break, ast.Continue, ast.For, ast.While)) for b in st.body[0].body[:-1] for n in ast.walk(b)):
            # search loop: for T in (e1, e2): if C(T): S(T); break  else: E   ->   if C(e1): S(e1) elif C(e2): S(e2) else: E
            search = st.body[0]
        elif st.orelse:
            return None
        orelse = st.orelse
        st = ast.For(target=st.target, iter=it, body=st.body if search is None else [ast.If(test=search.test, body=search.body[:-1] or [ast.Pass()], orelse=[])], orelse=[])
        if any(isinstance(n, (ast.Break, ast.Continue)) for b in st.body for n in ast.walk(b)):
            return None
        tnames = [x.id for x in ast.walk(st.target) if isinstance(x, ast.Name)]
        subst = not any(isinstance(n, ast.Name) and n.id in tnames and isinstance(n.ctx, ast.Store) for b in st.body for n in ast.walk(b)) \
            and not any(self.read_anywhere_else(nm, st) for nm in tnames)
        maps = []
        for e in st.iter.elts:
            if isinstance(st.target, ast.Name):
                mp = {st.target.id: e}
            elif isinstance(st.target, (ast.Tuple, ast.List)) and isinstance(e, (ast.Tuple, ast.List)) and len(e.elts) == len(st.target.elts) \
                    and all(isinstance(x, ast.Name) for x in st.target.elts):
                mp = {x.id: y for x, y in zip(st.target.elts, e.elts)}
            else:
                mp = None
            maps.append(mp)
        # an element is evaluated when the sequence is built, i.e. before the first iteration: it may only be written where the loop
        # variable stands if nothing the loop body does can change its value
        if subst and not (all(mp is not None for mp in maps) and all(is_pure(v) and self.stable_in(v, st.body) for mp in maps for v in mp.values())):
            subst = False
        if not subst:
            if any(isinstance(x, ast.Starred) for x in st.iter.elts) or not all(isinstance(x, (ast.Name, ast.Tuple, ast.List)) for x in [st.target]):
                return None
            if not all(isinstance(x, ast.Name) for x in ast.walk(st.target) if not isinstance(x, (ast.Tuple, ast.List, ast.expr_context))):
                return None
        out = []
        seqname = None
        if not subst:
            # explicit form: SEQ = (e1, e2, ...); T = SEQ[0]; BODY; T = SEQ[1]; BODY ...   (later passes simplify what is safe to simplify)
            self._unroll_count = getattr(self, '_unroll_count', 0) + 1
            seqname = 'seq__u%d' % self._unroll_count
            pre = [ast.Assign(targets=[ast.Name(id=seqname, ctx=ast.Store())], value=copy.deepcopy(st.iter))]
        groups = []
        for k, mp in enumerate(maps):
            grp = []
            if subst:
                for b in st.body:
                    grp.append(inline._Subst(mp, {}).visit(copy.deepcopy(b)))
            else:
                grp.append(ast.Assign(targets=[copy.deepcopy(st.target)], value=ast.Subscript(value=ast.Name(id=seqname, ctx=ast.Load()), slice=ast.Constant(value=k), ctx=ast.Load())))
                grp += [copy.deepcopy(b) for b in st.body]
            groups.append(grp)
        if search is not None:
            chain = list(orelse)
            for grp in reversed(groups):
                grp[-1].orelse = chain
                chain = grp
            out = chain
        else:
            out = [x for grp in groups for x in grp]
        if not subst:
            out = pre + out
        return out

    def stable_in(self, e, body):
        """nothing in `body` can change the value of the pure expression e: no re-binding of a name it reads and, when it reads state
        (attributes, items, results of calls on objects), no store to an attribute / item and no call that may write that state"""
        names, attrs = reads(e)
        has_state = bool(attrs) or any(isinstance(n, (ast.Subscript, ast.Call)) for n in _walk_outside_lambdas(e))
        for b in body:
            for n in ast.walk(b):
                if isinstance(n, ast.Name) and isinstance(n.ctx, (ast.Store, ast.Del)) and n.id in names:
                    return False
                if not has_state:
                    continue
                if isinstance(n, (ast.Attribute, ast.Subscript)) and isinstance(n.ctx, (ast.Store, ast.Del)):
                    if isinstance(n, ast.Subscript) and isinstance(n.value, ast.Name) and n.value.id not in names and not any(a.split('.')[0] == n.value.id for a in attrs):
                        continue        # an item of another local container
                    return False
                if isinstance(n, ast.Call) and not state_preserving_call(n):
                    wr = self.call_writes(n)
                    if isinstance(n.func, ast.Attribute) and n.func.attr in ('append', 'extend', 'insert') and isinstance(n.func.value, ast.Name) \
                            and n.func.value.id not in names and not any(a.split('.')[0] == n.func.value.id for a in attrs) \
                            and all(is_pure(a) for a in n.args) and not n.keywords:
                        continue        # growing another local list
                    if '*' in wr and isinstance(n.func, ast.Attribute) and dotted(n.func.value) not in (None, 'self'):
                        # a method of another object: by the effect summaries of every analysed class that defines a method of this
                        # name, the attribute names it writes; none of them is an attribute the expression reads
                        geff = self.sigdb.get(('effects_any',), {})
                        cands = geff.get(n.func.attr)
                        if cands:
                            w = set()
                            for _, _, ww in cands:
                                w |= set(ww)
                            read_attrs = {p_ for a in attrs for p_ in a.split('.')[1:]}
                            args_pure = all(is_pure(a) for a in list(n.args) + [k.value for k in n.keywords])
                            if '*' not in w and not (w & read_attrs) and args_pure and not any(isinstance(x, (ast.Subscript, ast.Call)) for x in _walk_outside_lambdas(e)):
                                continue
                    if '*' in wr:
                        return False
                    for a in attrs:
                        parts = a.split('.')
                        if parts[0] != 'self' or (len(parts) > 1 and parts[1] in wr):
                            return False
                    if any(isinstance(x, (ast.Subscript, ast.Call)) for x in _walk_outside_lambdas(e)) and wr:
                        return False
        return True

    def loop_idiom(self, st):
        # for t in S: a, b, c = t  (t not used otherwise)  ->  for a, b, c in S
        if isinstance(st.target, ast.Name) and st.body and isinstance(st.body[0], ast.Assign) and len(st.body[0].targets) == 1 \
                and isinstance(st.body[0].targets[0], (ast.Tuple, ast.List)) and isinstance(st.body[0].value, ast.Name) and st.body[0].value.id == st.target.id \
                and all(isinstance(e, ast.Name) for e in st.body[0].targets[0].elts):
            t = st.target.id
            other = [n for b in st.body[1:] + st.orelse for n in ast.walk(b) if isinstance(n, ast.Name) and n.id == t]
            if not other and not self.read_anywhere_else(t, st):
                st.target = ast.Tuple(elts=st.body[0].targets[0].elts, ctx=ast.Store())
                st.body = st.body[1:] or [ast.Pass()]
        # for i, x in enumerate(S) with i never read  ->  for x in S
        if isinstance(st.iter, ast.Call) and dotted(st.iter.func) == 'enumerate' and len(st.iter.args) == 1 and not st.iter.keywords \
                and isinstance(st.target, ast.Tuple) and len(st.target.elts) == 2 and isinstance(st.target.elts[0], ast.Name):
            idx = st.target.elts[0].id
            used = any(isinstance(n, ast.Name) and n.id == idx and isinstance(n.ctx, ast.Load) for b in st.body + st.orelse for n in ast.walk(b))
            used_after = self.read_anywhere_else(idx, st)
            if not used and not used_after:
                st.target = st.target.elts[1]
                st.iter = st.iter.args[0]
        return st

    def read_anywhere_else(self, name, node):
        inside = {id(n) for n in ast.walk(node)}
        for n in own_walk(self.fn):
            if isinstance(n, ast.Name) and n.id == name and isinstance(n.ctx, ast.Load) and id(n) not in inside:
                return True
        return False

    # ------------------------------------------------------------------
    def assignments(self, fn):
        """name -> list of (statement, kind) for every binding of a local name"""
        out = {}
        for n in own_walk(fn):
            if isinstance(n, ast.Assign):
                for t in n.targets:
                    for x in ast.walk(t):
                        if isinstance(x, ast.Name) and isinstance(x.ctx, ast.Store):
                            out.setdefault(x.id, []).append((n, 'assign' if (len(n.targets) == 1 and x is t) else 'other'))
            elif isinstance(n, (ast.AugAssign, ast.AnnAssign)):
                for x in ast.walk(n.target):
                    if isinstance(x, ast.Name):
                        out.setdefault(x.id, []).append((n, 'other'))
            elif isinstance(n, ast.For):
                for x in ast.walk(n.target):
                    if isinstance(x, ast.Name):
                        out.setdefault(x.id, []).append((n, 'other'))
            elif isinstance(n, (ast.With,)):
                for it in n.items:
                    if it.optional_vars is not None:
                        for x in ast.walk(it.optional_vars):
                            if isinstance(x, ast.Name):
                                out.setdefault(x.id, []).append((n, 'other'))
            elif isinstance(n, ast.ExceptHandler) and n.name:
                out.setdefault(n.name, []).append((n, 'other'))
            elif isinstance(n, (ast.Import, ast.ImportFrom)):
                for a in n.names:
                    out.setdefault((a.asname or a.name).split('.')[0], []).append((n, 'other'))
            elif isinstance(n, (ast.Global, ast.Nonlocal)):
                for a in n.names:
                    out.setdefault(a, []).append((n, 'other'))
            elif isinstance(n, ast.NamedExpr):
                out.setdefault(n.target.id, []).append((n, 'other'))
        for p in self.params:
            out.setdefault(p, []).append((fn, 'param'))
        return out

    def forward_substitute(self, fn):
        """v = <pure expr>, v bound exactly once: every use of v that the definition dominates sees the same value as a
        re-evaluation of the expression would, provided nothing on a path definition -> use re-binds a name the expression
        reads, stores to an attribute / container it reads, or (when it reads attributes or subscripts) makes an impure
        call.  Then the uses are replaced and the definition dropped.  Decided on the statement CFG."""
        from .pyflow import CFG
        for _round in range(40):
            self.tick()
            asg = self.assignments(fn)
            cfg = CFG(fn)
            node_of = {}
            for i, n in cfg.nodes.items():
                if n is None:
                    continue
                hdr = cfg.header_expr(i)
                scope = [hdr] if hdr is not None and not isinstance(n, ast.For) else []
                if isinstance(n, ast.For):
                    scope = [n.iter, n.target]
                for part in scope:
                    for x in ast.walk(part):
                        node_of[id(x)] = i
            done = False
            for blk in self.blocks(fn):
                for i, st in enumerate(blk):
                    if not (isinstance(st, ast.Assign) and len(st.targets) == 1 and isinstance(st.targets[0], ast.Name)):
                        continue
                    v = st.targets[0].id
                    if len(asg.get(v, [])) != 1 or v in self.params:
                        continue
                    single_sp = False
                    if not is_pure(st.value) and not isinstance(st.value, (ast.ListComp, ast.DictComp, ast.SetComp, ast.GeneratorExp, ast.List, ast.Set, ast.Dict)) \
                            and all(is_pure(c) or state_preserving_call(c) for c in ast.walk(st.value) if isinstance(c, ast.Call)) \
                            and not any(isinstance(x, (ast.Yield, ast.YieldFrom, ast.Await, ast.NamedExpr, ast.Lambda)) for x in ast.walk(st.value)):
                        # a value computed by state-preserving calls (np.*, constructors): evaluated once, so it may move to its
                        # single use when that use is executed exactly once per execution of the definition (same loop nest)
                        single_sp = True
                    star_only = False
                    if isinstance(st.value, ast.List) and is_pure(st.value) and not any(isinstance(e, ast.Starred) for e in st.value.elts):
                        # a list that is only ever unpacked into argument lists (f(*v)) has no identity anyone could observe
                        loads = [n for n in free_names(fn) if n.id == v and isinstance(n.ctx, ast.Load)]
                        starred = {id(x.value) for c in ast.walk(fn) if isinstance(c, ast.Call) for x in c.args if isinstance(x, ast.Starred)}
                        star_only = bool(loads) and all(id(n) in starred for n in loads)
                    if ((not is_pure(st.value) and not single_sp) or isinstance(st.value, (ast.ListComp, ast.DictComp, ast.SetComp, ast.GeneratorExp, ast.List, ast.Set))) and not star_only:
                        continue        # containers have identity: not substituted
                    if isinstance(st.value, ast.Dict) and self.container_mutated_or_escapes(fn, v):
                        continue
                    if any(isinstance(n, ast.FunctionDef) and n is not fn for n in ast.walk(fn)):
                        continue        # closures capture late
                    if any(isinstance(n, ast.Lambda) and any(isinstance(x, ast.Name) and x.id == v for x in ast.walk(n)) for n in ast.walk(fn)):
                        continue        # a use inside a lambda is evaluated when the lambda is called
                    D = cfg.node_of_stmt(st)
                    if D is None:
                        continue
                    uses = [n for n in free_names(fn) if n.id == v and isinstance(n.ctx, ast.Load)]
                    if not uses or any(id(u) not in node_of for u in uses):
                        continue
                    if single_sp:
                        if len(uses) != 1:
                            continue
                        # same loop nest: every loop that contains the use contains the definition
                        loops_u = [x for x in ast.walk(fn) if isinstance(x, (ast.For, ast.While, ast.ListComp, ast.GeneratorExp, ast.SetComp, ast.DictComp, ast.Lambda)) and any(y is uses[0] for y in ast.walk(x))]
                        if any(not any(y is st for y in ast.walk(x)) for x in loops_u):
                            continue
                        # the use must not sit in a conditionally evaluated position (and/or, conditional expression)
                        if any(isinstance(x, (ast.BoolOp, ast.IfExp)) and any(y is uses[0] for y in ast.walk(x)) for x in ast.walk(fn)):
                            continue
                    is_record = isinstance(st.value, ast.Call) and isinstance(st.value.func, ast.Name) and st.value.func.id == 'record__'
                    if len(uses) > 1 and not isinstance(st.value, (ast.Name, ast.Constant, ast.Attribute, ast.Dict)) and cost(st.value) > 60 and not star_only and not is_record:
                        continue
                    names, attrs = reads(st.value)
                    names.discard(v)
                    # shape metadata of an array that is never resized in place is not changed by calls
                    meta = {a for a in attrs if a.split('.')[-1] in ('shape', 'dtype', 'ndim') and a.count('.') == 1 and a.split('.')[0] != 'self'}
                    only_meta_subs = all(isinstance(n.value, ast.Attribute) and dotted(n.value) in meta and isinstance(n.slice, ast.Constant)
                                         for n in ast.walk(st.value) if isinstance(n, ast.Subscript))
                    if meta and only_meta_subs and (not any(isinstance(n, ast.Call) for n in ast.walk(st.value)) or self.immutable_scalar_expr(st.value)):
                        attrs = attrs - meta
                    has_sub = any(isinstance(n, ast.Subscript) for n in _walk_outside_lambdas(st.value)) and not (meta and only_meta_subs)
                    if any(isinstance(n, ast.Lambda) for n in ast.walk(st.value)):
                        # what a lambda body reads is read when it is called, wherever the lambda was created
                        attrs = {a for a in attrs if any(isinstance(n, ast.Attribute) and dotted(n) == a for n in _walk_outside_lambdas(st.value))}
                    funcs_ = {id(c.func) for c in ast.walk(st.value) if isinstance(c, ast.Call) and isinstance(c.func, ast.Name)}
                    const_only = not any(isinstance(n, (ast.Name, ast.Attribute, ast.Subscript, ast.Lambda)) and id(n) not in funcs_ for n in ast.walk(st.value))
                    state = bool(attrs) or has_sub or (any(isinstance(n, ast.Call) for n in _walk_outside_lambdas(st.value))
                                                       and not self.immutable_scalar_expr(st.value) and not const_only)
                    killers = set()
                    for k, n in cfg.nodes.items():
                        if n is None or k == D:
                            continue
                        hdr = cfg.header_expr(k)
                        stores = []
                        if isinstance(n, ast.For):
                            stores = [x for x in ast.walk(n.target)]
                        elif hdr is not None:
                            stores = [x for x in free_names(hdr) if isinstance(x.ctx, (ast.Store, ast.Del))] + \
                                [x for x in ast.walk(hdr) if isinstance(x, (ast.Attribute, ast.Subscript)) and isinstance(x.ctx, (ast.Store, ast.Del))]
                            if isinstance(n, ast.AugAssign):
                                stores.append(n.target)
                        for x in stores:
                            if isinstance(x, ast.Name) and x.id in names:
                                killers.add(k)
                            if isinstance(x, (ast.Attribute, ast.Subscript)) and state:
                                d = dotted(x) if isinstance(x, ast.Attribute) else dotted(x.value)
                                if isinstance(x, ast.Subscript) and isinstance(x.value, ast.Name) and self.fresh_local(x.value.id, asg) and x.value.id not in names:
                                    continue        # an array created in this function: not what the expression reads
                                if d is None or not attrs or any(a == d or a.startswith(d + '.') or d.startswith(a + '.') for a in attrs) or isinstance(x, ast.Subscript):
                                    killers.add(k)
                        if state and hdr is not None:
                            for c in ast.walk(hdr if not isinstance(n, ast.For) else n.iter):
                                if isinstance(c, ast.Call) and not state_preserving_call(c):
                                    if attrs and not has_sub and self.foreign_method_spares(c, attrs):
                                        continue
                                    wr = self.call_writes(c)
                                    hit = False
                                    if has_sub or not attrs:
                                        hit = True
                                    for a in attrs:
                                        base, rest_ = a.split('.')[0], a.split('.')[1:]
                                        if base == 'self':
                                            if '*' in wr or (rest_ and rest_[0] in wr):
                                                hit = True
                                        elif len(rest_) == 1 and base in names | {x for x in asg}:
                                            wo = self.call_writes_obj(c, base, rest_[0])
                                            if '*' in wo or rest_[0] in wo:
                                                hit = True
                                        else:
                                            hit = True
                                    if hit:
                                        killers.add(k)
                    ok = True
                    after_D = cfg.reachable(D)
                    for u in uses:
                        U = node_of[id(u)]
                        if not cfg.must_pass(U, {D}) or U == D:
                            ok = False
                            break
                        for k in killers:
                            if k == U and not any(isinstance(cfg.nodes[k], t) for t in (ast.For,)):
                                # the consumer statement itself: the value is read before the statement's own effect,
                                # unless the statement re-binds a name the expression reads
                                hdr = cfg.header_expr(k)
                                if any(isinstance(x, ast.Name) and isinstance(x.ctx, ast.Store) and x.id in names for x in ast.walk(hdr)) and False:
                                    ok = False
                                continue
                            if k in after_D and U in cfg.reachable(k, avoid={D}):
                                if self.iter_use_safe(cfg, U, D, k, u):
                                    continue
                                ok = False
                                break
                        if not ok:
                            break
                    if not ok:
                        continue
                    for u in uses:
                        replace_node(fn.body, u, st.value)
                    blk.pop(i)
                    if not blk:
                        blk.append(ast.Pass())
                    done = True
                    break
                if done:
                    break
            if not done:
                break

    def foreign_method_spares(self, c, attrs):
        """c is obj.method(...) on an object other than self, and by the effect summaries of every analysed class that defines a method
        of that name none of the attribute names in `attrs` (a.b.c -> b, c) is written by it (transitively, on its own object); its
        arguments are pure.  Attribute names, not objects, are compared, so aliasing between the objects does not matter."""
        if not (isinstance(c.func, ast.Attribute) and dotted(c.func.value) not in (None, 'self')):
            return False
        cands = self.sigdb.get(('effects_any',), {}).get(c.func.attr)
        if not cands:
            return False
        w = set()
        for _, _, ww in cands:
            w |= set(ww)
        read_attrs = {p_ for a in attrs for p_ in a.split('.')[1:]}
        return '*' not in w and not (w & read_attrs) and all(is_pure(a) for a in list(c.args) + [k.value for k in c.keywords])

    def iter_use_safe(self, cfg, U, D, k, use):
        """the iterable of a for statement is evaluated once, on entry: a statement of the loop's own body that changes what the
        expression reads does not matter, unless the loop can be entered again without passing the definition"""
        loop = cfg.nodes[U]
        if not isinstance(loop, ast.For) or not any(x is use for x in ast.walk(loop.iter)):
            return False
        inside = {id(x) for b in loop.body + loop.orelse for x in ast.walk(b)}
        B = {i for i, n in cfg.nodes.items() if n is not None and id(n) in inside}
        if k not in B or D in B:
            return False
        outside = {y for b in B | {U} for y in cfg.succ[b] if y not in B and y != U}
        return not any(U in cfg.reachable(y, avoid={D}) for y in outside)

    def immutable_scalar_expr(self, e):
        """min / max / int / float / abs / round and arithmetic over constants, shape metadata (X.shape[k], never changed by a call: the
        arrays are not resized in place) and parameters whose default is a number (immutable objects): no call can change what it reads"""
        numeric = getattr(self, '_numeric_params', None)
        if numeric is None:
            a = self.fn.args
            pos = a.posonlyargs + a.args
            numeric = {p.arg for p, d in zip(pos[len(pos) - len(a.defaults):], a.defaults)
                       if isinstance(d, ast.Constant) and isinstance(d.value, (int, float)) and not isinstance(d.value, bool)}
            numeric |= {p.arg for p, d in zip(a.kwonlyargs, a.kw_defaults)
                        if isinstance(d, ast.Constant) and isinstance(d.value, (int, float)) and not isinstance(d.value, bool)}
            self._numeric_params = numeric

        def ok(x):
            if isinstance(x, ast.Constant):
                return isinstance(x.value, (int, float))
            if isinstance(x, ast.Name):
                return x.id in numeric
            if isinstance(x, ast.Subscript):
                return isinstance(x.value, ast.Attribute) and x.value.attr == 'shape' and isinstance(x.value.value, ast.Name) and isinstance(x.slice, ast.Constant)
            if isinstance(x, ast.BinOp):
                return isinstance(x.op, (ast.Add, ast.Sub, ast.Mult, ast.FloorDiv, ast.Div)) and ok(x.left) and ok(x.right)
            if isinstance(x, ast.UnaryOp):
                return isinstance(x.op, (ast.USub, ast.UAdd)) and ok(x.operand)
            if isinstance(x, ast.Call):
                return dotted(x.func) in ('min', 'max', 'int', 'float', 'abs', 'round') and not x.keywords and all(ok(y) for y in x.args)
            return False
        return ok(e)

    def container_mutated_or_escapes(self, fn, v):
        """a local dict literal that is only ever indexed / iterated / tested for membership is a constant table"""
        for n in ast.walk(fn):
            if isinstance(n, (ast.Subscript, ast.Attribute)) and isinstance(n.ctx, (ast.Store, ast.Del)) and isinstance(n.value, ast.Name) and n.value.id == v:
                return True
            if isinstance(n, ast.Call):
                if isinstance(n.func, ast.Attribute) and isinstance(n.func.value, ast.Name) and n.func.value.id == v and n.func.attr not in ('keys', 'values', 'items', 'get'):
                    return True
                if any(isinstance(a, ast.Name) and a.id == v for a in list(n.args) + [k.value for k in n.keywords]) and dotted(n.func) not in ('len', 'sorted', 'list', 'tuple'):
                    return True
            if isinstance(n, (ast.Return, ast.Yield)) and n.value is not None and any(isinstance(x, ast.Name) and x.id == v for x in ast.walk(n.value)):
                return True
            if isinstance(n, ast.Assign) and isinstance(n.value, ast.Name) and n.value.id == v:
                return True
        return False

    def fresh_local(self, v, asg):
        """every binding of the local name v is a newly created array / matrix"""
        lst = asg.get(v, [])
        if not lst or v in self.params:
            return False
        for st, kind in lst:
            if kind == 'assign' and isinstance(st, ast.Assign) and isinstance(st.value, (ast.Dict, ast.List)):
                continue
            if not (kind == 'assign' and isinstance(st, ast.Assign) and isinstance(st.value, ast.Call)):
                return False
            d = dotted(st.value.func) or ''
            if not (d in ('np.concatenate', 'np.zeros', 'np.empty', 'np.array', 'np.zeros_like', 'np.ones', 'np.arange', 'coo_matrix', 'csr_matrix', 'np.where', 'np.unique', 'np.sort')
                    or (isinstance(st.value.func, ast.Attribute) and st.value.func.attr in ('copy', 'toarray'))):
                return False
        return True

    def call_writes(self, c):
        """self attributes a call may write: known for methods of the same class (effect summaries), '*' otherwise"""
        d = dotted(c.func)
        eff = None
        for k, v in self.sigdb.items():
            if k[0] == 'effects':
                eff = v
        if d and d.startswith('self.') and d.count('.') == 1 and eff is not None and d[5:] in eff:
            return eff[d[5:]]
        return {'*'}

    def call_writes_obj(self, c, obj, attr=None):
        """attributes of the local object `obj` a call may write: for obj.method(...) the union over all analysed classes defining
        that method name; a call that does not involve obj at all cannot (objects reachable only through obj's own attributes aside)"""
        d = dotted(c.func)
        geff = self.sigdb.get(('effects_any',), {})
        involved = any(isinstance(x, ast.Name) and x.id == obj for x in ast.walk(c))
        if not involved:
            return set()
        if d and d.startswith(obj + '.') and d.count('.') == 1 and d.split('.')[1] in geff:
            # the classes that define this method; when an attribute name is given, only those that own such an attribute
            cands = geff[d.split('.')[1]]
            if attr is not None:
                own = [c_ for c_ in cands if attr in c_[1]]
                cands = own or cands
            w = set()
            for _, _, ww in cands:
                w |= ww
            return w
        return {'*'}

    def moves(self, fn):
        """b = a  where the name a is never used again (read or written) after this statement and the statement is not inside
        a loop that a lives across: b is a new name for the same value - rename b to a from here on and drop the statement"""
        order = []

        def rec(node):
            if isinstance(node, (ast.expr_context, ast.operator, ast.unaryop, ast.boolop, ast.cmpop)):
                return          # shared singleton nodes have no position
            order.append(node)
            for c in ast.iter_child_nodes(node):
                if isinstance(c, (ast.ListComp, ast.SetComp, ast.DictComp, ast.GeneratorExp)):
                    # comprehension variables live in their own scope: only the free names matter
                    bound = {x.id for g in c.generators for x in ast.walk(g.target) if isinstance(x, ast.Name)}
                    for x in ast.walk(c):
                        if isinstance(x, ast.Name) and x.id not in bound:
                            order.append(x)
                    continue
                if not isinstance(c, (ast.FunctionDef, ast.Lambda, ast.ClassDef)) or c is fn:
                    rec(c)
        rec(fn)
        pos = {id(n): k for k, n in enumerate(order)}
        for blk in self.blocks(fn):
            for i, st in enumerate(blk):
                if not (isinstance(st, ast.Assign) and len(st.targets) == 1 and isinstance(st.targets[0], ast.Name) and isinstance(st.value, ast.Name)):
                    continue
                b, a = st.targets[0].id, st.value.id
                if a == b or b in self.params:
                    continue
                end = max(pos[id(n)] for n in ast.walk(st) if id(n) in pos)
                later_a = [n for n in order[end + 1:] if isinstance(n, ast.Name) and n.id == a]
                if later_a:
                    continue
                # b must not be bound anywhere else before (then it would be a different variable there)
                b_occ = [n for n in order if isinstance(n, ast.Name) and n.id == b]
                if any(pos[id(n)] < pos[id(st)] for n in b_occ):
                    continue
                # inside a loop the statement re-executes: a would have to be re-bound in each iteration before it
                inside_loop = any(isinstance(x, (ast.For, ast.While)) and any(y is st for y in ast.walk(x)) for x in order)
                if inside_loop:
                    # allowed when a is bound earlier in the same block (fresh in every iteration)
                    if not any(isinstance(n, ast.Name) and n.id == a and isinstance(n.ctx, ast.Store) for s2 in blk[:i] for n in ast.walk(s2)) and \
                            not any(isinstance(x, ast.For) and any(isinstance(n, ast.Name) and n.id == a for n in ast.walk(x.target)) and any(y is st for y in ast.walk(x)) for x in order):
                        continue
                for n in b_occ:
                    n.id = a
                blk.pop(i)
                return True
        return False

    def split_webs(self, fn):
        """a local name that is re-used for unrelated values (x = f(); ...; x = g()) is split into one name per web of definitions
        and uses (two definitions belong together when some use can see both)"""
        from .pyflow import CFG
        cfg = CFG(fn)
        asg = self.assignments(fn)
        local = [v for v, lst in asg.items() if len(lst) > 1 and all(k in ('assign', 'other', 'param') for _, k in lst)
                 and not any(isinstance(st, (ast.Global, ast.Nonlocal, ast.Import, ast.ImportFrom, ast.ExceptHandler, ast.With)) for st, _ in lst)]
        if not local:
            return False
        if any(isinstance(n, (ast.Lambda, ast.FunctionDef)) and n is not fn for n in ast.walk(fn)):
            closure_names = {x.id for n in ast.walk(fn) if isinstance(n, (ast.Lambda, ast.FunctionDef)) and n is not fn for x in ast.walk(n) if isinstance(x, ast.Name)}
        else:
            closure_names = set()
        # occurrences per CFG node
        occ = {}      # node id -> list of Name nodes (in evaluation order: loads before stores for plain assignments)
        for i, n in cfg.nodes.items():
            if n is None:
                continue
            if isinstance(n, ast.For):
                parts = [n.iter, n.target]
            else:
                h = cfg.header_expr(i)
                parts = [h] if h is not None else []
            names = []
            for part in parts:
                names += free_names(part)
            occ[i] = names
        changed = False
        for v in local:
            if v in closure_names:
                continue
            defs = [i for i, names in occ.items() if any(x.id == v and isinstance(x.ctx, (ast.Store, ast.Del)) for x in names) or
                    (isinstance(cfg.nodes[i], ast.AugAssign) and isinstance(cfg.nodes[i].target, ast.Name) and cfg.nodes[i].target.id == v)]
            uses = [i for i, names in occ.items() if any(x.id == v and isinstance(x.ctx, ast.Load) for x in names) or
                    (isinstance(cfg.nodes[i], ast.AugAssign) and isinstance(cfg.nodes[i].target, ast.Name) and cfg.nodes[i].target.id == v)]
            if len(defs) + (1 if v in self.params else 0) < 2:
                continue
            parent = {d: d for d in defs}

            def find(x):
                while parent[x] != x:
                    parent[x] = parent[parent[x]]
                    x = parent[x]
                return x
            reach_of_use = {}
            undefined_use = False
            parent['ENTRY'] = 'ENTRY'
            for u in uses:
                # reaching definitions of v at the entry of u: backwards over predecessors, stopping at definitions
                seen, todo, rd = set(), list(cfg.pred[u]), set()
                while todo:
                    x = todo.pop()
                    if x in seen:
                        continue
                    seen.add(x)
                    if x in parent:
                        rd.add(x)
                        continue
                    if x == cfg.ENTRY:
                        rd.add('ENTRY')
                    todo += list(cfg.pred[x])
                # a node that both uses and defines v (x = x + 1, x += 1, for x in f(x)): its use sees the earlier definitions
                reach_of_use[u] = rd
                rl = list(rd)
                for a in rl[1:]:
                    parent[find(a)] = find(rl[0])
                if isinstance(cfg.nodes[u], ast.AugAssign) and u in parent and rl:
                    parent[find(u)] = find(rl[0])
            if undefined_use:
                continue
            webs = {}
            for d in defs:
                webs.setdefault(find(d), []).append(d)
            if v in self.params:
                webs.setdefault(find('ENTRY'), []).append(-1)
            if len(webs) < 2:
                continue
            # the web that can also be reached without any definition keeps the original name
            order = sorted(webs, key=lambda r: (find('ENTRY') != r, min(webs[r])))
            names_for = {r: (v if k == 0 else '%s__w%d' % (v, k)) for k, r in enumerate(order)}
            for d in defs:
                nm = names_for[find(d)]
                for x in occ[d]:
                    if x.id == v and isinstance(x.ctx, (ast.Store, ast.Del)):
                        x.id = nm
                if isinstance(cfg.nodes[d], ast.AugAssign) and cfg.nodes[d].target.id == v:
                    cfg.nodes[d].target.id = nm
            for u in uses:
                rd = reach_of_use[u]
                if not rd:
                    continue
                real = [x for x in rd if x != 'ENTRY']
                if not real:
                    continue
                nm = names_for[find(real[0])]
                for x in occ[u]:
                    if x.id == v and isinstance(x.ctx, ast.Load):
                        x.id = nm
            changed = True
        return changed

    def cse(self, fn):
        """a = E; b = E  (same block, E makes only state-preserving calls, nothing between the two writes what E reads, neither name is
        re-bound or mutated anywhere): b is a second name for an equal value that is only read - use a"""
        asg = self.assignments(fn)

        def mutated(v):
            for n in ast.walk(fn):
                if isinstance(n, (ast.Subscript, ast.Attribute)) and isinstance(n.ctx, (ast.Store, ast.Del)) and isinstance(n.value, ast.Name) and n.value.id == v:
                    return True
                if isinstance(n, ast.AugAssign) and any(isinstance(x, ast.Name) and x.id == v for x in ast.walk(n.target)):
                    return True
                if isinstance(n, ast.Call) and isinstance(n.func, ast.Attribute) and isinstance(n.func.value, ast.Name) and n.func.value.id == v and n.func.attr not in PURE_METHODS:
                    return True
                if isinstance(n, ast.Call) and not (is_pure(n) or state_preserving_call(n)) and any(isinstance(a, ast.Name) and a.id == v for a in list(n.args) + [k.value for k in n.keywords]):
                    return True
            return False
        for blk in self.blocks(fn):
            for i, a in enumerate(blk):
                if not (isinstance(a, ast.Assign) and len(a.targets) == 1 and isinstance(a.targets[0], ast.Name) and len(asg.get(a.targets[0].id, [])) == 1):
                    continue
                if isinstance(a.value, (ast.Constant, ast.Name)) or not all(is_pure(c) or state_preserving_call(c) for c in ast.walk(a.value) if isinstance(c, ast.Call)):
                    continue
                if isinstance(a.value, (ast.List, ast.Dict, ast.Set, ast.ListComp, ast.DictComp, ast.SetComp)):
                    continue
                da = dump(a.value)
                nm, at = reads(a.value)
                for j in range(i + 1, len(blk)):
                    b = blk[j]
                    if isinstance(b, ast.Assign) and len(b.targets) == 1 and isinstance(b.targets[0], ast.Name) and dump(b.value) == da \
                            and len(asg.get(b.targets[0].id, [])) == 1 and b.targets[0].id not in self.params:
                        va, vb = a.targets[0].id, b.targets[0].id
                        if va != vb and not mutated(va) and not mutated(vb):
                            for n in free_names(fn):
                                if n.id == vb:
                                    n.id = va
                            blk.pop(j)
                            return True
                    # anything between that could change what E reads ends the search
                    stop = False
                    for x in ast.walk(b):
                        if isinstance(x, ast.Call) and not (is_pure(x) or state_preserving_call(x)):
                            stop = True
                        if isinstance(getattr(x, 'ctx', None), (ast.Store, ast.Del)):
                            d = dotted(x) if isinstance(x, (ast.Name, ast.Attribute)) else dotted(x.value) if isinstance(x, ast.Subscript) else None
                            if d is None or d in nm or any(t == d or t.startswith(d + '.') or d.startswith(t + '.') for t in at):
                                stop = True
                    if stop or isinstance(b, (ast.For, ast.While, ast.Try, ast.With)):
                        break
        return False

    def moves_back(self, fn):
        """a = E; ...statements that only use a...; b = a   where a is bound once, every occurrence of a lies in this block between the
        two statements, and b is neither read nor written in between: a was only a working name for b - rename a to b"""
        asg = self.assignments(fn)
        for blk in self.blocks(fn):
            for j, st in enumerate(blk):
                if not (isinstance(st, ast.Assign) and len(st.targets) == 1 and isinstance(st.targets[0], ast.Name) and isinstance(st.value, ast.Name)):
                    continue
                b, a = st.targets[0].id, st.value.id
                if a == b or a in self.params or len(asg.get(a, [])) != 1:
                    continue
                d = asg[a][0][0]
                # the working name is bound by a plain assignment or as one element of a flat tuple target (a, t = call(...))
                tuple_elem = isinstance(d, ast.Assign) and len(d.targets) == 1 and isinstance(d.targets[0], ast.Tuple) \
                    and all(isinstance(e, ast.Name) for e in d.targets[0].elts) and sum(1 for e in d.targets[0].elts if e.id == a) == 1 \
                    and not any(e.id == b for e in d.targets[0].elts)
                if asg[a][0][1] != 'assign' and not tuple_elem:
                    continue
                if d not in blk:
                    continue
                i = blk.index(d)
                if i >= j:
                    continue
                occ_all = [n for n in free_names(fn) if n.id == a]
                occ_in = [n for s2 in blk[i:j + 1] for n in free_names(s2) if n.id == a]
                if len(occ_all) != len(occ_in):
                    continue
                if any(n.id == b for s2 in blk[i:j] for n in free_names(s2)):
                    continue
                if any(isinstance(x, (ast.Lambda, ast.FunctionDef)) for s2 in blk[i:j] for x in ast.walk(s2)):
                    continue
                for n in occ_in:
                    n.id = b
                blk.pop(j)
                return True
        return False

    def order_independent(self, fn):
        """adjacent simple assignments that neither read nor write what the other writes, and make no call that could change
        state, are put in a canonical order (by the text of their right-hand side with local names masked)"""
        local = set(self.assignments(fn)) - set(self.params)

        def rw(st):
            w, r = set(), set()
            tg = st.targets if isinstance(st, ast.Assign) else [st.target]
            for t in tg:
                for x in ast.walk(t):
                    if isinstance(x, ast.Name) and isinstance(x.ctx, ast.Store):
                        w.add(x.id)
                    elif isinstance(x, ast.Attribute) and isinstance(x.ctx, ast.Store) and dotted(x):
                        w.add(dotted(x))
                    elif isinstance(x, ast.Subscript) and isinstance(x.ctx, ast.Store):
                        w.add(dotted(x.value) or '?')
                        r.add(dotted(x.value) or '?')
            nm, at = reads(st.value)
            bases = {x.value.id for x in ast.walk(st.value) if isinstance(x, ast.Attribute) and isinstance(x.value, ast.Name)}
            bare = {x.id for x in free_names(st.value) if isinstance(x.ctx, ast.Load)} - bases
            # a name that only occurs as the base of attribute reads is covered by those attribute chains; 'self' is never re-bound
            r |= (nm - bases) | bare | at | {'NAME:' + b for b in bases if b != 'self'}
            if isinstance(st, ast.AugAssign):
                r |= w
            return w, r

        def simple(st):
            if not isinstance(st, (ast.Assign, ast.AugAssign)):
                return False
            return all(is_pure(c) or state_preserving_call(c) for c in ast.walk(st) if isinstance(c, ast.Call)) and not any(isinstance(x, (ast.Yield, ast.Await, ast.NamedExpr)) for x in ast.walk(st))

        def overlap(a, b):
            # 'NAME:v' = v is only the base of attribute reads: re-binding v matters, a store to v.attr does not (unless that very chain is read)
            for x in a:
                for y in b:
                    if y.startswith('NAME:') or x.startswith('NAME:'):
                        if x.replace('NAME:', '') == y.replace('NAME:', '') and not (x.startswith('NAME:') and y.startswith('NAME:')):
                            return True
                        continue
                    if x == y or x.startswith(y + '.') or y.startswith(x + '.'):
                        return True
            return False

        def key(st):
            v = copy.deepcopy(st.value)
            for x in ast.walk(v):
                if isinstance(x, ast.Name) and x.id in local:
                    x.id = '_'
            t = st.targets[0] if isinstance(st, ast.Assign) else st.target
            tk = dotted(t) if isinstance(t, ast.Attribute) else ''
            return (type(st).__name__, tk or '', dump(v))
        changed = False
        for blk in self.blocks(fn):
            for _ in range(len(blk)):
                swapped = False
                for i in range(len(blk) - 1):
                    a, b = blk[i], blk[i + 1]
                    if simple(a) and simple(b):
                        wa, ra = rw(a)
                        wb, rb = rw(b)
                        if not overlap(wa, rb | wb) and not overlap(wb, ra) and key(b) < key(a):
                            blk[i], blk[i + 1] = b, a
                            swapped = changed = True
                if not swapped:
                    break
        return changed

    def split_literal_sequences(self, fn):
        """v = [e0, e1, ...] bound once and only ever read as v[<constant>]  ->  v_0 = e0; v_1 = e1; ... (same evaluation order)"""
        asg = self.assignments(fn)
        for blk in self.blocks(fn):
            for i, st in enumerate(blk):
                if not (isinstance(st, ast.Assign) and len(st.targets) == 1 and isinstance(st.targets[0], ast.Name) and isinstance(st.value, (ast.List, ast.Tuple))):
                    continue
                v = st.targets[0].id
                if len(asg.get(v, [])) != 1 or v in self.params or any(isinstance(e, ast.Starred) for e in st.value.elts):
                    continue
                occ = [n for n in free_names(fn) if n.id == v and isinstance(n.ctx, ast.Load)]
                subs = [n for n in ast.walk(fn) if isinstance(n, ast.Subscript) and isinstance(n.value, ast.Name) and n.value.id == v and isinstance(n.ctx, ast.Load)
                        and isinstance(n.slice, ast.Constant) and isinstance(n.slice.value, int) and 0 <= n.slice.value < len(st.value.elts)]
                if not occ or len(occ) != len(subs):
                    continue
                names = ['%s_%d' % (v, k) for k in range(len(st.value.elts))]
                blk[i:i + 1] = [ast.Assign(targets=[ast.Name(id=nm, ctx=ast.Store())], value=e) for nm, e in zip(names, st.value.elts)]

                class RS(ast.NodeTransformer):
                    def visit_Subscript(self, n):
                        if n in subs:
                            return ast.Name(id=names[n.slice.value], ctx=ast.Load())
                        self.generic_visit(n)
                        return n
                for b2 in self.blocks(fn):
                    for k2, s2 in enumerate(b2):
                        b2[k2] = RS().visit(s2)
                return True
        return False

    def merge_adjacent(self, fn):
        ch = self._merge_adjacent(fn, 'forward')
        ch = self._merge_adjacent(fn, 'merge') or ch
        return ch

    def _merge_adjacent(self, fn, mode):
        """t = E; X = t   (adjacent, t used nowhere else)  ->  X = E"""
        changed = False
        for blk in self.blocks(fn):
            i = 0
            while i + 1 < len(blk):
                a, b = blk[i], blk[i + 1]
                if isinstance(a, ast.Assign) and len(a.targets) == 1 and isinstance(a.targets[0], ast.Name) and a.targets[0].id not in self.params \
                        and isinstance(b, ast.Assign) and len(b.targets) == 1 and isinstance(b.value, ast.Name) and b.value.id == a.targets[0].id \
                        and not isinstance(b.targets[0], (ast.Tuple, ast.List)):
                    t = a.targets[0].id
                    occ = [n for n in free_names(fn) if n.id == t]
                    if len(occ) == 2 and not any(isinstance(n, ast.Name) and n.id == t for n in ast.walk(b.targets[0])):
                        blk[i:i + 2] = [ast.Assign(targets=b.targets, value=a.value)]
                        changed = True
                        continue
                # self.m(...) [result unused] ; <next statement reads self.X>  where every return of m is `return self.X`
                if mode == 'merge' and isinstance(a, (ast.Expr, ast.Assign)) and isinstance(a.value, ast.Call) and isinstance(b, (ast.Assign, ast.AugAssign, ast.Return, ast.Expr)):
                    dm = dotted(a.value.func)
                    ra = self.sigdb.get(('retattr', dm[5:])) if dm and dm.startswith('self.') and dm.count('.') == 1 else None
                    unused = isinstance(a, ast.Expr) or (len(a.targets) == 1 and isinstance(a.targets[0], ast.Name)
                                                        and sum(1 for n in free_names(fn) if n.id == a.targets[0].id) == 1)
                    if ra and unused:
                        hits = [n for n in ast.walk(b) if isinstance(n, ast.Attribute) and isinstance(n.ctx, ast.Load) and dotted(n) == 'self.' + ra]
                        others = [c for c in ast.walk(b) if isinstance(c, ast.Call) and not is_pure(c)]
                        if len(hits) == 1 and not others:
                            class RC(ast.NodeTransformer):
                                def visit_Attribute(self, n):
                                    if n is hits[0]:
                                        return a.value
                                    self.generic_visit(n)
                                    return n
                            blk[i:i + 2] = [RC().visit(b)]
                            changed = True
                            continue
                # t = CALL; <next statement uses t once and makes no other impure call>  ->  the call moves into the next statement
                if mode == 'merge' and isinstance(a, ast.Assign) and len(a.targets) == 1 and isinstance(a.targets[0], ast.Name) and a.targets[0].id not in self.params \
                        and isinstance(a.value, ast.Call) and isinstance(b, (ast.Assign, ast.AugAssign, ast.Return, ast.Expr)):
                    t = a.targets[0].id
                    occ = [n for n in free_names(fn) if n.id == t]
                    use = [n for n in free_names(b) if n.id == t and isinstance(n.ctx, ast.Load)]
                    others = [c for c in ast.walk(b) if isinstance(c, ast.Call) and not is_pure(c)]
                    if len(occ) == 2 and len(use) == 1 and not others and not any(isinstance(x, (ast.Lambda, ast.ListComp, ast.GeneratorExp, ast.DictComp, ast.SetComp, ast.IfExp, ast.BoolOp)) for x in ast.walk(b)):
                        replace_node([b], use[0], a.value)
                        blk[i:i + 2] = [b]
                        changed = True
                        continue
                # self.X = E; <next statement reads self.X>  ->  the next statement reads E   (E built from local names only)
                if mode == 'forward' and isinstance(a, ast.Assign) and len(a.targets) == 1 and isinstance(a.targets[0], ast.Attribute) and dotted(a.targets[0]) \
                        and is_pure(a.value) and not reads(a.value)[1] and not any(isinstance(n, (ast.Subscript, ast.Call)) for n in ast.walk(a.value)) \
                        and not isinstance(a.value, (ast.Constant,)) and isinstance(b, (ast.Return, ast.Assign, ast.Expr)):
                    d = dotted(a.targets[0])
                    hits = [n for n in ast.walk(b) if isinstance(n, ast.Attribute) and isinstance(n.ctx, ast.Load) and dotted(n) == d]
                    if hits and cost(a.value) <= 12:
                        class RA(ast.NodeTransformer):
                            def visit_Attribute(self, n):
                                if isinstance(n.ctx, ast.Load) and dotted(n) == d:
                                    return copy.deepcopy(a.value)
                                self.generic_visit(n)
                                return n
                        blk[i + 1] = RA().visit(b)
                        changed = True
                i += 1
        return changed

    def blocks(self, fn):
        out = []

        def rec(stmts):
            out.append(stmts)
            for st in stmts:
                for f in ('body', 'orelse', 'finalbody'):
                    b = getattr(st, f, None)
                    if isinstance(b, list) and b and isinstance(b[0], ast.stmt) and not isinstance(st, (ast.FunctionDef, ast.ClassDef)):
                        rec(b)
                if isinstance(st, ast.Try):
                    for h in st.handlers:
                        rec(h.body)
        rec(fn.body)
        return out

    def dead_stores(self, fn):
        """local names that are never read: their pure assignments are dropped"""
        for _ in range(5):
            readn = {n.id for n in free_names(fn) if isinstance(n.ctx, ast.Load)} | \
                {n.id for f2 in ast.walk(fn) if isinstance(f2, (ast.FunctionDef, ast.Lambda)) and f2 is not fn for n in ast.walk(f2) if isinstance(n, ast.Name)}
            removed = False
            for blk in self.blocks(fn):
                for st in list(blk):
                    if isinstance(st, ast.Assign) and len(st.targets) == 1 and isinstance(st.targets[0], ast.Name) and st.targets[0].id not in readn \
                            and st.targets[0].id not in self.params \
                            and not any(isinstance(c, ast.Call) and not (is_pure(c) or state_preserving_call(c)) for c in ast.walk(st.value)) \
                            and not any(isinstance(c, (ast.Yield, ast.YieldFrom, ast.Await, ast.NamedExpr)) for c in ast.walk(st.value)) \
                            and not any(isinstance(n, (ast.Global, ast.Nonlocal)) for n in ast.walk(fn)):
                        blk.remove(st)
                        removed = True
            if not removed:
                break
        for blk in self.blocks(fn):
            if not blk:
                blk.append(ast.Pass())


def _inside_loop(stmts, node):
    """node sits inside a for / while statement of stmts (so a break / continue there belongs to that loop)"""
    for b in stmts:
        for lp in ast.walk(b):
            if isinstance(lp, (ast.For, ast.While)) and any(x is node for x in ast.walk(lp)) and lp is not node:
                return True
    return False


def _cheap_read(v):
    """a name, constant or attribute chain: reading it twice is the same as reading it once"""
    return isinstance(v, ast.Constant) or dotted(v) is not None


def cost(e):
    return sum(1 for _ in ast.walk(e))


def replace_node(stmts, old, new):
    class R(ast.NodeTransformer):
        def visit_Name(self, n):
            if n is old:
                return copy.deepcopy(new)
            return n
    for k, s in enumerate(stmts):
        stmts[k] = R().visit(s)


# --------------------------------------------------------------------------
# expressions


LIB_SIGS = {
    'np.zeros': ['shape', 'dtype', 'order'], 'zeros': ['shape', 'dtype', 'order'], 'np.empty': ['shape', 'dtype', 'order'],
    'np.delete': ['arr', 'obj', 'axis'], 'np.insert': ['arr', 'obj', 'values', 'axis'], 'np.concatenate': ['arrays', 'axis'],
    'eigsh': ['A', 'k', 'M', 'sigma', 'which', 'v0', 'ncv', 'maxiter', 'tol', 'return_eigenvectors', 'Minv', 'OPinv', 'mode'],
    'eigs': ['A', 'k', 'M', 'sigma', 'which', 'v0', 'ncv', 'maxiter', 'tol', 'return_eigenvectors', 'Minv', 'OPinv', 'OPpart'],
    'eigh': ['a', 'b'], 'eig': ['a', 'b'], 'linspace': ['start', 'stop', 'num'], 'np.linspace': ['start', 'stop', 'num'],
}


class ExprCanon(ast.NodeTransformer):
    def __init__(self, nz, arith=True):
        self.nz = nz
        self.do_arith = arith
        self.scalar_names = self.find_scalar_names(nz.fn)

    def find_scalar_names(self, fn):
        """local names every binding of which is scalar by syntax"""
        asg = self.nz.assignments(fn)
        ok = set()
        for _ in range(4):
            for v, lst in asg.items():
                good = True
                for st, kind in lst:
                    if kind == 'assign' and isinstance(st, ast.Assign):
                        if not self.scalarish(st.value, ok):
                            good = False
                    elif isinstance(st, ast.For) and isinstance(st.target, ast.Name) and st.target.id == v and isinstance(st.iter, ast.Call) and dotted(st.iter.func) == 'range':
                        pass
                    elif isinstance(st, ast.AugAssign) and isinstance(st.target, ast.Name) and self.scalarish(st.value, ok):
                        pass
                    else:
                        good = False
                if good:
                    ok.add(v)
        return ok

    def scalarish(self, e, names=None):
        names = self.scalar_names if names is None else names
        if isinstance(e, ast.Constant):
            return isinstance(e.value, (int, float)) and not isinstance(e.value, bool)
        if isinstance(e, ast.Name):
            return e.id in names or e.id in ('pi',)
        if isinstance(e, ast.Attribute):
            d = dotted(e)
            if d in ('np.pi', 'math.pi'):
                return True
            if d and d.startswith('self.') and d.count('.') == 1:
                a = e.attr
                return not (a in NONSCALAR_ATTRS or a.startswith(NONSCALAR_ATTR_PREFIX))
            return False
        if isinstance(e, ast.UnaryOp) and isinstance(e.op, (ast.USub, ast.UAdd)):
            return self.scalarish(e.operand, names)
        if isinstance(e, ast.BinOp) and isinstance(e.op, (ast.Add, ast.Sub, ast.Mult, ast.Div, ast.Pow)):
            return self.scalarish(e.left, names) and self.scalarish(e.right, names)
        if isinstance(e, ast.Call) and dotted(e.func) in SCALAR_FUNCS and not e.keywords:
            return all(self.scalarish(a, names) or isinstance(a, ast.Name) for a in e.args) if dotted(e.func) in ('float', 'int', 'len') else all(self.scalarish(a, names) for a in e.args)
        return False

    # ------------------------------------------------------------------
    def visit_FunctionDef(self, n):
        if n is self.nz.fn:
            self.generic_visit(n)
        return n

    def visit_BinOp(self, n):
        if isinstance(n.op, ast.Add):
            l, r = self.visit(copy.deepcopy(n.left)), self.visit(copy.deepcopy(n.right))
            if isinstance(l, ast.Constant) and isinstance(r, ast.Constant) and isinstance(l.value, str) and isinstance(r.value, str):
                return ast.Constant(value=l.value + r.value)
        if self.do_arith and self.scalarish(n):
            c = self.arith(n)
            if c is not None:
                return c
        self.generic_visit(n)
        # x*x <-> x**2 and sign placement for non-scalar operands are left alone
        return n

    def visit_UnaryOp(self, n):
        if isinstance(n.op, ast.Not):
            return canon_test(ast.UnaryOp(op=ast.Not(), operand=self.visit(n.operand)))
        if self.do_arith and self.scalarish(n):
            c = self.arith(n)
            if c is not None:
                return c
        self.generic_visit(n)
        return n

    def arith(self, n):
        atoms = {}

        def leaf(x):
            x2 = ExprCanon.generic_visit(self, copy.deepcopy(x)) if not isinstance(x, (ast.Name, ast.Attribute, ast.Constant)) else x
            key = 'ATOM<%s>' % ast.unparse(x2).replace(' ', '')
            atoms[key] = x2
            return P.sym(key)
        try:
            env = {}
            # names are atoms by their own name
            v = from_ast(n, env, leaf, ring=Rat)
        except (Unsupported, NonMonomialDivision, ZeroDivisionError, Exception):
            return None
        txt = 'ARITH[%s / %s]' % (nfs(v.n), nfs(v.d))
        return ast.copy_location(ast.Name(id=txt, ctx=ast.Load()), n)

    def visit_BoolOp(self, n):
        self.generic_visit(n)
        return canon_test(n)

    def visit_Name(self, n):
        # module-level literal tables (a dict / tuple of constants bound once at module level, not re-bound here)
        if isinstance(n.ctx, ast.Load):
            mc = self.nz.sigdb.get(('modconst', n.id))
            if mc is not None and n.id not in self.nz.assignments(self.nz.fn):
                return copy.deepcopy(mc)
        return n

    def visit_Compare(self, n):
        self.generic_visit(n)
        # constant comparisons
        if len(n.ops) == 1 and isinstance(n.left, ast.Constant) and isinstance(n.comparators[0], ast.Constant) and isinstance(n.ops[0], (ast.Eq, ast.NotEq)) \
                and type(n.left.value) is type(n.comparators[0].value):
            v = n.left.value == n.comparators[0].value
            return ast.Constant(value=v if isinstance(n.ops[0], ast.Eq) else not v)
        # x in d.keys() -> x in d
        if len(n.ops) == 1 and isinstance(n.ops[0], (ast.In, ast.NotIn)):
            c = n.comparators[0]
            if isinstance(c, ast.Call) and isinstance(c.func, ast.Attribute) and c.func.attr == 'keys' and not c.args:
                n.comparators = [c.func.value]
        return n

    def visit_IfExp(self, n):
        self.generic_visit(n)
        n.test = canon_test(n.test)
        if isinstance(n.body, ast.Constant) and isinstance(n.orelse, ast.Constant) and isinstance(n.body.value, bool) and isinstance(n.orelse.value, bool):
            # False if c else True == not c;  True if c else False == bool(c) (c itself when it is a comparison / negation)
            if n.body.value == n.orelse.value:
                if is_pure(n.test):
                    return n.body
            elif n.body.value is False:
                return canon_test(negate(n.test))
            elif isinstance(n.test, (ast.Compare, ast.UnaryOp)) and (not isinstance(n.test, ast.UnaryOp) or isinstance(n.test.op, ast.Not)):
                return n.test
        swap, nt = prefer_negated(n.test)
        if swap:
            n.test, n.body, n.orelse = nt, n.orelse, n.body
        return n

    def unroll_comp(self, n):
        """[E(x) for x in (a, b, c)] -> [E(a), E(b), E(c)] (one generator over a literal of at most eight pure elements, no condition)"""
        if len(n.generators) != 1:
            return None
        g = n.generators[0]
        it = g.iter
        if isinstance(it, ast.Call) and dotted(it.func) == 'enumerate' and len(it.args) == 1 and not it.keywords and isinstance(it.args[0], (ast.Tuple, ast.List)):
            it = ast.Tuple(elts=[ast.Tuple(elts=[ast.Constant(value=k), e], ctx=ast.Load()) for k, e in enumerate(it.args[0].elts)], ctx=ast.Load())
        if isinstance(it, ast.Call) and dotted(it.func) == 'zip' and not it.keywords and it.args and all(isinstance(a, (ast.Tuple, ast.List)) for a in it.args) \
                and len({len(a.elts) for a in it.args}) == 1:
            it = ast.Tuple(elts=[ast.Tuple(elts=[a.elts[k] for a in it.args], ctx=ast.Load()) for k in range(len(it.args[0].elts))], ctx=ast.Load())
        if g.ifs or g.is_async or not isinstance(it, (ast.Tuple, ast.List)) or not it.elts or any(isinstance(e, ast.Starred) for e in it.elts):
            return None
        if len(it.elts) > 8 and not (len(it.elts) <= 40 and all(isinstance(e, ast.Constant) for e in it.elts) and cost(n.elt) <= 16):
            return None
        out = []
        for e in it.elts:
            if isinstance(g.target, ast.Name):
                mp = {g.target.id: e}
            elif isinstance(g.target, (ast.Tuple, ast.List)) and isinstance(e, (ast.Tuple, ast.List)) and len(e.elts) == len(g.target.elts) \
                    and all(isinstance(x, ast.Name) for x in g.target.elts):
                mp = {x.id: y for x, y in zip(g.target.elts, e.elts)}
            else:
                return None
            if not all(is_pure(v) for v in mp.values()):
                return None
            if any(cost(v) > 2 and sum(isinstance(x, ast.Name) and x.id == k for x in ast.walk(n.elt)) > 1 and not _cheap_read(v) for k, v in mp.items()):
                return None
            out.append(inline._Subst(mp, {}).visit(copy.deepcopy(n.elt)))
        return ast.List(elts=out, ctx=ast.Load())

    def visit_ListComp(self, n):
        self.generic_visit(n)
        return self.unroll_comp(n) or n

    def visit_Attribute(self, n):
        self.generic_visit(n)
        # record__(a=1, b=2).a -> 1   (a row of a module-level namedtuple table, see pyflow.module_constants)
        if isinstance(n.ctx, ast.Load) and isinstance(n.value, ast.Call) and isinstance(n.value.func, ast.Name) and n.value.func.id == 'record__':
            hit = [k.value for k in n.value.keywords if k.arg == n.attr]
            if len(hit) == 1 and all(is_pure(k.value) for k in n.value.keywords):
                return hit[0]
        # (X if c else Y).attr -> X.attr if c else Y.attr
        if isinstance(n.ctx, ast.Load) and isinstance(n.value, ast.IfExp):
            e = n.value
            return self.visit_IfExp(ast.IfExp(test=e.test, body=ast.Attribute(value=e.body, attr=n.attr, ctx=ast.Load()),
                                              orelse=ast.Attribute(value=e.orelse, attr=n.attr, ctx=ast.Load())))
        return n

    def visit_Tuple(self, n):
        self.generic_visit(n)
        # (p, X if c else Y, X2 if c else Y2, q) -> (p, X, X2, q) if c else (p, Y, Y2, q): every element pure, one test for all conditionals
        if isinstance(n.ctx, ast.Load):
            conds = [e for e in n.elts if isinstance(e, ast.IfExp)]
            if conds and len({dump(e.test) for e in conds}) == 1 and all(is_pure(e) for e in n.elts) and not any(isinstance(e, ast.Starred) for e in n.elts) and cost(n) <= 400:
                t = conds[0].test
                a = ast.Tuple(elts=[e.body if isinstance(e, ast.IfExp) else e for e in n.elts], ctx=ast.Load())
                b = ast.Tuple(elts=[copy.deepcopy(e.orelse) if isinstance(e, ast.IfExp) else copy.deepcopy(e) for e in n.elts], ctx=ast.Load())
                return self.visit_IfExp(ast.IfExp(test=t, body=a, orelse=b))
        return n

    def visit_Subscript(self, n):
        self.generic_visit(n)
        if isinstance(n.ctx, ast.Load) and isinstance(n.value, ast.Dict) and isinstance(n.slice, ast.Constant) and all(isinstance(k, ast.Constant) for k in n.value.keys):
            for k, v in zip(n.value.keys, n.value.values):
                if type(k.value) is type(n.slice.value) and k.value == n.slice.value:
                    return v
        if isinstance(n.ctx, ast.Load) and isinstance(n.value, (ast.Tuple, ast.List)) and isinstance(n.slice, ast.Constant) and isinstance(n.slice.value, int) \
                and 0 <= n.slice.value < len(n.value.elts) and not any(isinstance(e, ast.Starred) for e in n.value.elts):
            return n.value.elts[n.slice.value]
        if isinstance(n.ctx, ast.Load):
            if isinstance(n.slice, ast.IfExp) and is_pure(n):
                e = n.slice
                return self.visit_IfExp(ast.IfExp(test=e.test, body=ast.Subscript(value=copy.deepcopy(n.value), slice=e.body, ctx=ast.Load()),
                                                  orelse=ast.Subscript(value=copy.deepcopy(n.value), slice=e.orelse, ctx=ast.Load())))
            if isinstance(n.value, ast.IfExp) and is_pure(n):
                e = n.value
                return self.visit_IfExp(ast.IfExp(test=e.test, body=ast.Subscript(value=e.body, slice=copy.deepcopy(n.slice), ctx=ast.Load()),
                                                  orelse=ast.Subscript(value=e.orelse, slice=copy.deepcopy(n.slice), ctx=ast.Load())))
        return n

    def visit_Call(self, n):
        self.generic_visit(n)
        d = dotted(n.func)
        # (lambda: E)() -> E ; (lambda a, b: E)(x, y) -> E[a := x, b := y] for pure, cheap x, y
        if isinstance(n.func, ast.Lambda) and not n.keywords and not n.func.args.vararg and not n.func.args.kwarg and not n.func.args.kwonlyargs \
                and not n.func.args.defaults and len(n.args) == len(n.func.args.args) and not any(isinstance(a, ast.Starred) for a in n.args) \
                and all(is_pure(a) and (cost(a) <= 2 or sum(isinstance(x, ast.Name) and x.id == p.arg for x in ast.walk(n.func.body)) <= 1)
                        for a, p in zip(n.args, n.func.args.args)) \
                and not any(isinstance(x, ast.Lambda) for x in ast.walk(n.func.body)):
            mp = {p.arg: a for p, a in zip(n.func.args.args, n.args)}
            return inline._Subst(mp, {}).visit(copy.deepcopy(n.func.body)) if mp else n.func.body
        # f(a if c else b) -> f(a) if c else f(b)   (f pure, a single conditional argument)
        conds = [k for k, a in enumerate(n.args) if isinstance(a, ast.IfExp)]
        if len(conds) == 1 and not n.keywords and is_pure(n) and cost(n) < 40:
            k = conds[0]
            e = n.args[k]
            a1 = ast.Call(func=copy.deepcopy(n.func), args=n.args[:k] + [e.body] + n.args[k + 1:], keywords=[])
            a2 = ast.Call(func=copy.deepcopy(n.func), args=copy.deepcopy(n.args[:k]) + [e.orelse] + copy.deepcopy(n.args[k + 1:]), keywords=[])
            return self.visit_IfExp(ast.IfExp(test=e.test, body=self.visit_Call(a1), orelse=self.visit_Call(a2)))
        # dict(a=x, b=y) -> {'a': x, 'b': y}
        if d == 'dict' and not n.args and n.keywords and all(k.arg for k in n.keywords):
            return ast.Dict(keys=[ast.Constant(value=k.arg) for k in n.keywords], values=[k.value for k in n.keywords])
        # <dict literal>.keys() / .values() / .items()
        if isinstance(n.func, ast.Attribute) and isinstance(n.func.value, ast.Dict) and not n.args and not n.keywords and all(k is not None for k in n.func.value.keys):
            dd = n.func.value
            if n.func.attr == 'keys':
                return ast.Tuple(elts=list(dd.keys), ctx=ast.Load())
            if n.func.attr == 'values':
                return ast.Tuple(elts=list(dd.values), ctx=ast.Load())
            if n.func.attr == 'items':
                return ast.Tuple(elts=[ast.Tuple(elts=[k, v], ctx=ast.Load()) for k, v in zip(dd.keys, dd.values)], ctx=ast.Load())
        # ', '.join(('a', 'b')) -> 'a, b'
        if isinstance(n.func, ast.Attribute) and n.func.attr == 'join' and isinstance(n.func.value, ast.Constant) and isinstance(n.func.value.value, str) and len(n.args) == 1 \
                and not n.keywords and isinstance(n.args[0], (ast.Tuple, ast.List)) and all(isinstance(e, ast.Constant) and isinstance(e.value, str) for e in n.args[0].elts):
            return ast.Constant(value=n.func.value.value.join(e.value for e in n.args[0].elts))
        # string methods on constants
        if isinstance(n.func, ast.Attribute) and isinstance(n.func.value, ast.Constant) and isinstance(n.func.value.value, str) and not n.keywords \
                and all(isinstance(a, ast.Constant) for a in n.args):
            sv, args = n.func.value.value, [a.value for a in n.args]
            try:
                if n.func.attr in ('lower', 'upper', 'strip') and not args:
                    return ast.Constant(value=getattr(sv, n.func.attr)())
                if n.func.attr == 'split' and len(args) <= 1:
                    return ast.List(elts=[ast.Constant(value=x) for x in sv.split(*args)], ctx=ast.Load())
                if n.func.attr in ('startswith', 'endswith') and len(args) == 1 and isinstance(args[0], str):
                    return ast.Constant(value=getattr(sv, n.func.attr)(args[0]))
            except Exception:
                pass
        # f(*(a, b), c) -> f(a, b, c)
        if any(isinstance(a, ast.Starred) and isinstance(a.value, (ast.Tuple, ast.List)) and not any(isinstance(e, ast.Starred) for e in a.value.elts) for a in n.args):
            args = []
            for a in n.args:
                if isinstance(a, ast.Starred) and isinstance(a.value, (ast.Tuple, ast.List)) and not any(isinstance(e, ast.Starred) for e in a.value.elts):
                    args += list(a.value.elts)
                else:
                    args.append(a)
            n.args = args
        # tuple(<literal>) / list(<literal>) / tuple(unrolled comprehension)
        if d in ('tuple', 'list') and len(n.args) == 1 and not n.keywords:
            a = n.args[0]
            if isinstance(a, ast.GeneratorExp):
                a = self.unroll_comp(a) or a
            if isinstance(a, (ast.Tuple, ast.List)) and not any(isinstance(e, ast.Starred) for e in a.elts):
                return ast.Tuple(elts=list(a.elts), ctx=ast.Load()) if d == 'tuple' else ast.List(elts=list(a.elts), ctx=ast.Load())
        # len(<literal sequence>) -> constant
        if d == 'len' and len(n.args) == 1 and isinstance(n.args[0], (ast.Tuple, ast.List)) and not any(isinstance(e, ast.Starred) for e in n.args[0].elts):
            return ast.Constant(value=len(n.args[0].elts))
        # getattr(obj, 'name') -> obj.name
        if d == 'getattr' and len(n.args) == 2 and not n.keywords and isinstance(n.args[1], ast.Constant) and isinstance(n.args[1].value, str) and n.args[1].value.isidentifier():
            return ast.Attribute(value=n.args[0], attr=n.args[1].value, ctx=ast.Load())
        # sorted(d.keys()) -> sorted(d)
        if d in ('sorted', 'list', 'len', 'set') and len(n.args) == 1 and isinstance(n.args[0], ast.Call) and isinstance(n.args[0].func, ast.Attribute) \
                and n.args[0].func.attr == 'keys' and not n.args[0].args and d == 'sorted':
            n.args = [n.args[0].func.value]
        # sum([...]) -> sum(generator)
        if d == 'sum' and len(n.args) == 1 and isinstance(n.args[0], ast.ListComp):
            n.args = [ast.GeneratorExp(elt=n.args[0].elt, generators=n.args[0].generators)]
        # x.transpose() -> x.T
        if isinstance(n.func, ast.Attribute) and n.func.attr == 'transpose' and not n.args and not n.keywords:
            return ast.Attribute(value=n.func.value, attr='T', ctx=ast.Load())
        # np.vstack((a, b)) -> np.concatenate((a, b), axis=0)
        if d == 'np.vstack' and len(n.args) == 1 and not n.keywords:
            n = ast.Call(func=ast.Attribute(value=ast.Name(id='np', ctx=ast.Load()), attr='concatenate', ctx=ast.Load()), args=n.args,
                         keywords=[ast.keyword(arg='axis', value=ast.Constant(value=0))])
            d = 'np.concatenate'
        # **{literal dict} / **name bound once to a literal dict
        kws = []
        for k in n.keywords:
            if k.arg is None:
                lit = self.dict_literal(k.value)
                if lit is not None:
                    kws += [ast.keyword(arg=a, value=v) for a, v in lit]
                    continue
            kws.append(k)
        n.keywords = kws
        # keyword normal form for calls whose signature is known
        sig = self.signature(n)
        if sig is not None and not any(isinstance(a, ast.Starred) for a in n.args) and all(k.arg is not None for k in n.keywords) and len(n.args) <= len(sig):
            kws = [ast.keyword(arg=p, value=a) for p, a in zip(sig, n.args)] + list(n.keywords)
            names = [k.arg for k in kws]
            if len(set(names)) == len(names):
                dfl = self.defaults(n)
                kws = [k for k in kws if not (k.arg in dfl and dfl[k.arg] == dump(k.value))]
                n.args = []
                n.keywords = sorted(kws, key=lambda k: k.arg)
        elif all(k.arg is not None for k in n.keywords):
            n.keywords = sorted(n.keywords, key=lambda k: k.arg)
        return n

    def dict_literal(self, v):
        if isinstance(v, ast.Name):
            lst = self.nz.assignments(self.nz.fn).get(v.id, [])
            if len(lst) == 1 and lst[0][1] == 'assign' and isinstance(lst[0][0], ast.Assign):
                lit = self.dict_literal(lst[0][0].value) if not isinstance(lst[0][0].value, ast.Name) else None
                if lit is not None and all(is_pure(x) for _, x in lit):
                    return [(a, copy.deepcopy(x)) for a, x in lit]
            return None
        if isinstance(v, ast.Dict) and all(isinstance(k, ast.Constant) and isinstance(k.value, str) for k in v.keys):
            return [(k.value, x) for k, x in zip(v.keys, v.values)]
        if isinstance(v, ast.Call) and dotted(v.func) == 'dict' and not v.args and all(k.arg for k in v.keywords):
            return [(k.arg, k.value) for k in v.keywords]
        return None

    def defaults(self, call):
        d = dotted(call.func)
        db = self.nz.sigdb
        if d is None:
            return {}
        if d.startswith('self.') and d.count('.') == 1:
            return db.get(('defaults', 'self', d[5:]), {})
        last = d.split('.')[-1]
        if '.' not in d:
            return db.get(('defaults', 'func', last), {})
        return db.get(('defaults', 'any', last), {})

    def signature(self, call):
        d = dotted(call.func)
        if d in LIB_SIGS:
            return LIB_SIGS[d]
        db = self.nz.sigdb
        if d is None:
            # (A.f if c else B.f)(...) or X[...]...f(...): a callee known only by its attribute name
            f = call.func
            names = set()
            todo = [f]
            while todo:
                x = todo.pop()
                if isinstance(x, ast.IfExp):
                    todo += [x.body, x.orelse]
                elif isinstance(x, ast.Attribute):
                    names.add(x.attr)
                else:
                    names.add(None)
            if len(names) == 1 and None not in names and ('any', next(iter(names))) in db:
                return db[('any', next(iter(names)))]
            return None
        if d.startswith('self.') and d.count('.') == 1 and ('self', d[5:]) in db:
            return db[('self', d[5:])]
        last = d.split('.')[-1]
        if ('func', last) in db and '.' not in d:
            return db[('func', last)]
        if ('any', last) in db:
            return db[('any', last)]
        return None


# --------------------------------------------------------------------------
# alpha renaming and comparison


def rename_comprehension_vars(fn):
    counter = [0]

    def rec(n, depth):
        for c in ast.iter_child_nodes(n):
            rec(c, depth + (1 if isinstance(n, (ast.ListComp, ast.SetComp, ast.DictComp, ast.GeneratorExp)) else 0))
        if isinstance(n, (ast.ListComp, ast.SetComp, ast.DictComp, ast.GeneratorExp)):
            bound = []
            for g in n.generators:
                for x in ast.walk(g.target):
                    if isinstance(x, ast.Name) and x.id not in bound:
                        bound.append(x.id)
            ren = {b: '_c%d_%d' % (depth, k) for k, b in enumerate(bound)}
            first_iter = n.generators[0].iter
            skip = {id(x) for x in ast.walk(first_iter)}
            for x in ast.walk(n):
                if isinstance(x, ast.Name) and x.id in ren and id(x) not in skip:
                    x.id = ren[x.id]
    rec(fn, 0)


def rename_lambda_params(fn):
    for lam in [n for n in ast.walk(fn) if isinstance(n, ast.Lambda)]:
        ps = [a.arg for a in lam.args.posonlyargs + lam.args.args]
        ren = {p_: '_l%d' % k for k, p_ in enumerate(ps)}
        for a in lam.args.posonlyargs + lam.args.args:
            a.arg = ren[a.arg]
        for x in ast.walk(lam.body):
            if isinstance(x, ast.Name) and x.id in ren:
                x.id = ren[x.id]


def alpha(fn, params):
    """rename the local names (everything stored in the function that is not a parameter) in order of first occurrence"""
    rename_comprehension_vars(fn)
    rename_lambda_params(fn)
    stored = []
    for n in own_walk(fn):
        if isinstance(n, ast.Name) and isinstance(n.ctx, (ast.Store, ast.Del)) and n.id not in params and n.id not in stored:
            stored.append(n.id)
        if isinstance(n, ast.ExceptHandler) and n.name and n.name not in stored:
            stored.append(n.name)
    glob = set()
    for n in own_walk(fn):
        if isinstance(n, (ast.Global, ast.Nonlocal)):
            glob |= set(n.names)
    order = []

    class V(ast.NodeVisitor):
        # order of first binding, statement by statement (independent of the order of operands inside expressions)
        def visit_Name(self, n):
            if isinstance(n.ctx, (ast.Store, ast.Del)) and n.id in stored and n.id not in glob and n.id not in order:
                order.append(n.id)

        def visit_Assign(self, n):
            for t in n.targets:
                self.visit(t)
            self.visit(n.value)

        def visit_ExceptHandler(self, n):
            if n.name and n.name not in order:
                order.append(n.name)
            self.generic_visit(n)

        def visit_FunctionDef(self, n):
            if n is fn:
                self.generic_visit(n)

        def visit_Lambda(self, n):
            pass
    V().visit(fn)
    ren = {nm: 'v%d' % k for k, nm in enumerate(order)}

    class R(ast.NodeTransformer):
        def visit_Name(self, n):
            if n.id in ren:
                n.id = ren[n.id]
            return n

        def visit_ExceptHandler(self, n):
            if n.name in ren:
                n.name = ren[n.name]
            self.generic_visit(n)
            return n
    return R().visit(fn)


def signature_of(fn):
    a = fn.args
    return dump(ast.arguments(posonlyargs=a.posonlyargs, args=a.args, vararg=a.vararg, kwonlyargs=a.kwonlyargs, kw_defaults=a.kw_defaults, kwarg=a.kwarg, defaults=a.defaults))


def class_effects(methods):
    """method name -> set of self attributes the method may write ('*' = unknown), closed over calls to other methods of the class"""
    direct, calls = {}, {}
    for name, f in methods.items():
        w, cs = set(), set()
        for n in ast.walk(f):
            if isinstance(n, (ast.Attribute, ast.Subscript)) and isinstance(getattr(n, 'ctx', None), (ast.Store, ast.Del)):
                d = dotted(n) if isinstance(n, ast.Attribute) else dotted(n.value)
                if d and d.startswith('self.'):
                    w.add(d.split('.')[1])
                elif d is None or d.split('.')[0] == 'self':
                    w.add('*')
            if isinstance(n, ast.AugAssign):
                d = dotted(n.target) if isinstance(n.target, ast.Attribute) else dotted(n.target.value) if isinstance(n.target, ast.Subscript) else None
                if d and d.startswith('self.'):
                    w.add(d.split('.')[1])
            if isinstance(n, ast.Call):
                d = dotted(n.func)
                if d and d.startswith('self.') and d.count('.') == 1:
                    cs.add(d[5:])
                elif d and d.startswith('self.'):
                    # a method of an attribute object (self.analysis.static(), self.k0.copy()): may change that attribute
                    if not (isinstance(n.func, ast.Attribute) and n.func.attr in PURE_METHODS):
                        w.add(d.split('.')[1])
                elif d in ('setattr',) and n.args and dotted(n.args[0]) == 'self':
                    w.add('*')
                elif not state_preserving_call(n) and any(dotted(a) == 'self' for a in list(n.args) + [k.value for k in n.keywords]):
                    w.add('*')
        direct[name], calls[name] = w, cs
    eff = {k: set(v) for k, v in direct.items()}
    for _ in range(len(methods) + 1):
        changed = False
        for name in methods:
            for c in calls[name]:
                add = eff.get(c, {'*'}) - eff[name]
                if add:
                    eff[name] |= add
                    changed = True
        if not changed:
            break
    return eff


def build_sigdb(mod_funcs, class_methods, cls, extra=None):
    """parameter-name lists for keyword normal form: methods of the same class (self.x), module functions, and,
    for calls through other objects (p.calc_k0(...)), names that are unambiguous over all analysed classes"""
    db = {}

    def dfl(f):
        allp = f.args.posonlyargs + f.args.args
        out = {a.arg: dump(d) for a, d in zip(allp[len(allp) - len(f.args.defaults):], f.args.defaults)}
        out.update({a.arg: dump(d) for a, d in zip(f.args.kwonlyargs, f.args.kw_defaults) if d is not None})
        return out
    for name, f in mod_funcs.items():
        if not (f.args.vararg or f.args.kwarg):
            db[('func', name)] = [a.arg for a in f.args.posonlyargs + f.args.args]
            db[('defaults', 'func', name)] = dfl(f)
    for name, f in class_methods.get(cls, {}).items() if cls else []:
        if not (f.args.vararg or f.args.kwarg):
            db[('self', name)] = [a.arg for a in (f.args.posonlyargs + f.args.args)[1:]]
            db[('defaults', 'self', name)] = dfl(f)
    # statements of the class's _rebuild (normal form text): a re-execution of one of them after self._rebuild() is redundant
    if cls and '_rebuild' in class_methods.get(cls, {}):
        db[('rebuild', cls)] = class_methods[cls]['_rebuild']
    if cls:
        db[('effects', cls)] = class_effects(class_methods.get(cls, {}))
        for name, f in class_methods.get(cls, {}).items():
            attrs = set()
            blocks = [f.body] + [getattr(n, a_) for n in own_walk(f) for a_ in ('body', 'orelse', 'finalbody')
                                 if isinstance(getattr(n, a_, None), list) and getattr(n, a_) and isinstance(getattr(n, a_)[0], ast.stmt) and n is not f
                                 and not isinstance(n, (ast.FunctionDef, ast.ClassDef, ast.Lambda))]
            nret = 0
            for blk in blocks:
                for i, st in enumerate(blk):
                    if not isinstance(st, ast.Return):
                        continue
                    nret += 1
                    d = dotted(st.value) if st.value is not None else None
                    if d and d.startswith('self.') and d.count('.') == 1:
                        attrs.add(d[5:])
                        continue
                    # x = ...; self.X = x; <state-preserving statements>; return x
                    found = None
                    if isinstance(st.value, ast.Name):
                        for prev in reversed(blk[:i]):
                            if isinstance(prev, ast.Assign) and len(prev.targets) == 1 and isinstance(prev.value, ast.Name) and prev.value.id == st.value.id \
                                    and dotted(prev.targets[0]) and dotted(prev.targets[0]).startswith('self.') and dotted(prev.targets[0]).count('.') == 1:
                                found = dotted(prev.targets[0])[5:]
                                break
                            if not (isinstance(prev, ast.Expr) and isinstance(prev.value, ast.Call) and (state_preserving_call(prev.value) or dotted(prev.value.func) in ('gc.collect', 'msg'))):
                                break
                    attrs.add(found)
            if nret and len(attrs) == 1 and None not in attrs:
                db[('retattr', name)] = next(iter(attrs))
    for k, v in (extra or {}).items():
        db.setdefault(k, v)
    return db


def normal_form(fn, expander, cls, sigdb):
    expander.inline_all_nested = True       # for the proof, nested closures of the confirmed version are inlined as well
    try:
        f = expander.expand(fn, cls=cls)
    finally:
        expander.inline_all_nested = False
    params = [a.arg for a in f.args.posonlyargs + f.args.args + f.args.kwonlyargs] + ([f.args.vararg.arg] if f.args.vararg else []) + ([f.args.kwarg.arg] if f.args.kwarg else [])
    nz = Normalizer(f, sigdb)
    f = nz.run()
    f = alpha(f, set(params))
    nz.fn = f
    f = nz.finish()
    f.name = 'f'
    ast.fix_missing_locations(f)
    return f


def equivalent(cur_fn, ref_fn, cur_exp, ref_exp, cls, cur_sig, ref_sig):
    """-> (bool, normal form text of current, normal form text of reference)"""
    if signature_of(cur_fn) != signature_of(ref_fn):
        return False, None, None
    try:
        a = normal_form(cur_fn, cur_exp, cls, cur_sig)
        b = normal_form(ref_fn, ref_exp, cls, ref_sig)
    except (RecursionError, ProverTimeout):
        return False, None, None
    da, db = dump(a), dump(b)
    if da == db:
        return True, None, None
    try:
        ta, tb = ast.unparse(a), ast.unparse(b)
    except Exception:
        ta, tb = da, db
    return False, ta, tb
