"""Translation validation for the Python orchestration code.

The rules of this checker were written for, and confirmed on, the functions as they stand in the reference copy
(vcheck/reference/, taken from /repo at confirmation time).  When /repo's current version of such a function differs
from the reference, this module tries to PROVE the two equivalent: both are brought to a normal form by
semantics-preserving rewrites (helper inlining, guard lowering, branch polarity, test normal form, forward substitution
of single-assignment pure temporaries, dead-store removal, keyword normal form of calls, arithmetic normal form of
scalar expressions, comprehension/loop idioms, ...) and compared up to the names of local variables.

  proved equivalent  -> the rules analyse the reference version (their verdicts carry over: same behaviour)
  not proved         -> the rules analyse the current version as written (nothing is suppressed)

Nothing here executes compmech; everything is syntax-directed.  A rewrite that is not semantics-preserving could hide
a real change, so each one states its side conditions; when a side condition cannot be established the rewrite is
not applied (and the proof fails, which costs at most a false alarm).
"""
import ast
import copy
import os

from . import inline
from .poly import P, Rat, from_ast, nfs, Unsupported, NonMonomialDivision

PURE_FUNCS = {'float', 'int', 'len', 'abs', 'min', 'max', 'bool', 'str', 'tuple', 'list', 'range', 'sorted', 'sum', 'zip', 'enumerate', 'isinstance',
              'sin', 'cos', 'tan', 'sqrt', 'deg2rad', 'rad2deg', 'np.sin', 'np.cos', 'np.tan', 'np.sqrt', 'np.deg2rad', 'getattr', 'hasattr', 'type', 'dict', 'set'}
PURE_METHODS = {'lower', 'upper', 'strip', 'startswith', 'endswith', 'get', 'keys', 'values', 'items', 'format', 'count', 'index'}
SCALAR_FUNCS = {'float', 'int', 'len', 'abs', 'sin', 'cos', 'tan', 'sqrt', 'deg2rad', 'rad2deg', 'np.sin', 'np.cos', 'np.tan', 'np.sqrt', 'np.deg2rad', 'min', 'max'}
# attributes that hold matrices / vectors / containers: never treated as commuting scalars
NONSCALAR_ATTR_PREFIX = ('k0', 'kG', 'kM', 'kA', 'cA', 'kT', 'kL', 'kuk', 'fext', 'fint', 'eigv', 'lam', 'plies', 'stack', 'forces', 'panels', 'conn',
                         'cs', 'increments', 'excluded', 'Nxxtop', 'bladestiff', 'tstiff', 'stiffeners', 'plyts', 'laminaprop', 'matobj', 'ABD', 'QL', 'stiff')
NONSCALAR_ATTRS = {'F', 'A', 'B', 'D', 'E', 'c', 'u', 'v', 'w', 'phix', 'phiy', 'model', 'flow', 'c0', 'F_reuse', 'analysis', 'base', 'flange', 'panel1', 'panel2',
                   'A_general', 'B_general', 'D_general', 'T', 'Tinv', 'L', 'R', 'q', 'matrices'} - {'T', 'L'}


def dotted(n):
    if isinstance(n, ast.Name):
        return n.id
    if isinstance(n, ast.Attribute):
        b = dotted(n.value)
        return b + '.' + n.attr if b else None
    return None


def dump(n):
    return ast.dump(n, annotate_fields=False) if isinstance(n, ast.AST) else repr(n)


def own_walk(node):
    """walk without descending into nested function / lambda / class definitions"""
    todo = [node]
    while todo:
        n = todo.pop()
        yield n
        for c in ast.iter_child_nodes(n):
            if isinstance(c, (ast.FunctionDef, ast.Lambda, ast.ClassDef)):
                continue
            todo.append(c)


# --------------------------------------------------------------------------
# purity


def is_pure(e):
    """no side effect and no dependence on mutable state other than through the names / attributes it reads"""
    for n in ast.walk(e):
        if isinstance(n, (ast.Yield, ast.YieldFrom, ast.Await, ast.NamedExpr, ast.Lambda)):
            return False
        if isinstance(n, ast.Call):
            d = dotted(n.func)
            if d in PURE_FUNCS:
                continue
            if isinstance(n.func, ast.Attribute) and n.func.attr in PURE_METHODS:
                continue
            return False
    return True


def reads(e):
    """(names, attribute chains, has_subscript) read by an expression"""
    names, attrs = set(), set()
    for n in ast.walk(e):
        if isinstance(n, ast.Name) and isinstance(n.ctx, ast.Load):
            names.add(n.id)
        if isinstance(n, ast.Attribute):
            d = dotted(n)
            if d:
                attrs.add(d)
    return names, attrs


# --------------------------------------------------------------------------
# tests: negation normal form, canonical polarity


NEG_OP = {ast.Eq: ast.NotEq, ast.NotEq: ast.Eq, ast.Lt: ast.GtE, ast.GtE: ast.Lt, ast.Gt: ast.LtE, ast.LtE: ast.Gt,
          ast.Is: ast.IsNot, ast.IsNot: ast.Is, ast.In: ast.NotIn, ast.NotIn: ast.In}
NEGATIVE_OPS = (ast.NotEq, ast.IsNot, ast.NotIn)


def negate(t):
    if isinstance(t, ast.UnaryOp) and isinstance(t.op, ast.Not):
        return nnf(t.operand)
    if isinstance(t, ast.BoolOp):
        op = ast.Or() if isinstance(t.op, ast.And) else ast.And()
        return ast.BoolOp(op=op, values=[negate(v) for v in t.values])
    if isinstance(t, ast.Compare) and len(t.ops) == 1 and type(t.ops[0]) in NEG_OP:
        # order comparisons are not negated (nan): only ==, is, in and their negations
        if isinstance(t.ops[0], (ast.Lt, ast.GtE, ast.Gt, ast.LtE)):
            return ast.UnaryOp(op=ast.Not(), operand=t)
        return ast.Compare(left=t.left, ops=[NEG_OP[type(t.ops[0])]()], comparators=t.comparators)
    if isinstance(t, ast.Constant) and isinstance(t.value, bool):
        return ast.Constant(value=not t.value)
    return ast.UnaryOp(op=ast.Not(), operand=t)


def nnf(t):
    if isinstance(t, ast.UnaryOp) and isinstance(t.op, ast.Not):
        return negate(t.operand)
    if isinstance(t, ast.BoolOp):
        vals = []
        for v in t.values:
            v = nnf(v)
            if isinstance(v, ast.BoolOp) and type(v.op) is type(t.op):
                vals += v.values
            else:
                vals.append(v)
        return ast.BoolOp(op=t.op, values=vals)
    return t


def simple_operand(v):
    """an operand of and/or whose evaluation cannot raise or have effects, so that it may be reordered"""
    if isinstance(v, ast.Name):
        return True
    if isinstance(v, ast.UnaryOp) and isinstance(v.op, ast.Not):
        return simple_operand(v.operand)
    if isinstance(v, ast.Compare) and len(v.ops) == 1 and isinstance(v.ops[0], (ast.Is, ast.IsNot, ast.Eq, ast.NotEq)):
        return all(isinstance(x, (ast.Name, ast.Constant)) or dotted(x) for x in [v.left] + v.comparators)
    if isinstance(v, ast.Attribute):
        return dotted(v) is not None
    return False


def canon_test(t):
    t = nnf(t)
    if isinstance(t, ast.BoolOp):
        vals = [canon_test(v) for v in t.values]
        if all(simple_operand(v) for v in vals):
            vals = sorted(vals, key=dump)
            # idempotence
            out = []
            for v in vals:
                if not out or dump(out[-1]) != dump(v):
                    out.append(v)
            vals = out
        if len(vals) == 1:
            return vals[0]
        return ast.BoolOp(op=t.op, values=vals)
    return t


def negativity(t):
    n = 0
    for x in ast.walk(t):
        if isinstance(x, ast.UnaryOp) and isinstance(x.op, ast.Not):
            n += 1
        if isinstance(x, ast.Compare) and any(isinstance(o, NEGATIVE_OPS) for o in x.ops):
            n += 1
    return n


def prefer_negated(t):
    """should `if t: A else: B` be written `if not t: B else: A` ?  (canonical polarity: fewer negations, then text)"""
    nt = canon_test(negate(t))
    a, b = negativity(t), negativity(nt)
    if a != b:
        return b < a, nt
    return dump(nt) < dump(t), nt


# --------------------------------------------------------------------------
# block helpers


def always_exits(stmts):
    for st in stmts:
        if isinstance(st, (ast.Return, ast.Raise, ast.Continue, ast.Break)):
            return True
        if isinstance(st, ast.If) and st.orelse and always_exits(st.body) and always_exits(st.orelse):
            return True
    return False


class Normalizer:
    def __init__(self, fn, sigdb=None):
        self.fn = fn
        self.sigdb = sigdb or {}
        self.params = [a.arg for a in fn.args.posonlyargs + fn.args.args + fn.args.kwonlyargs] + \
            ([fn.args.vararg.arg] if fn.args.vararg else []) + ([fn.args.kwarg.arg] if fn.args.kwarg else [])

    # ------------------------------------------------------------------
    def run(self):
        fn = self.fn
        fn.decorator_list = []
        fn.returns = None
        self.split_rebound_params(fn)
        for _ in range(6):
            before = dump(fn)
            fn.body = self.block(fn.body)
            self.forward_substitute(fn)
            for _m in range(30):
                if not self.moves(fn):
                    break
            self.dead_stores(fn)
            fn = ExprCanon(self, arith=False).visit(fn)
            ast.fix_missing_locations(fn)
            if dump(fn) == before:
                break
        self.fn = fn
        return fn

    def split_rebound_params(self, fn):
        """a parameter re-used as the target of a top-level for loop (`for plyt, ... in zip(plyts, ...)`) and not read
        after that loop is, from the loop on, a different variable: give it a local name inside the loop"""
        for k, st in enumerate(fn.body):
            if not isinstance(st, ast.For):
                continue
            tnames = [x.id for x in ast.walk(st.target) if isinstance(x, ast.Name) and x.id in self.params]
            for p in tnames:
                later = [n for s2 in fn.body[k + 1:] + st.orelse for n in ast.walk(s2) if isinstance(n, ast.Name) and n.id == p]
                in_iter = [n for n in ast.walk(st.iter) if isinstance(n, ast.Name) and n.id == p]
                if later or in_iter:
                    continue
                new = p + '__loop'
                for n in [x for x in ast.walk(st.target)] + [x for b in st.body for x in ast.walk(b)]:
                    if isinstance(n, ast.Name) and n.id == p:
                        n.id = new

    def finish(self):
        """arithmetic normal form, after the local names have been renamed"""
        self.fn = ExprCanon(self, arith=True).visit(self.fn)
        return self.fn

    # ------------------------------------------------------------------
    def block(self, stmts):
        out = []
        stmts = [s for s in stmts if not (isinstance(s, ast.Pass) or (isinstance(s, ast.Expr) and isinstance(s.value, ast.Constant)))]
        i = 0
        while i < len(stmts):
            st = stmts[i]
            rest = stmts[i + 1:]
            if isinstance(st, ast.If):
                st.test = canon_test(st.test)
                body, orelse = st.body, st.orelse
                # guard lowering: the code after an `if` whose one branch always leaves belongs to the other branch
                if rest and always_exits(body) and not always_exits(orelse):
                    orelse = list(orelse) + rest
                    rest = []
                elif rest and orelse and always_exits(orelse) and not always_exits(body):
                    body = list(body) + rest
                    rest = []
                body = self.block(body)
                orelse = self.block(orelse)
                # constant tests
                ok, val = inline._Fold._const(st.test)
                if ok:
                    out += body if val else orelse
                    stmts = stmts[:i + 1] + rest
                    i += 1
                    continue
                if orelse:
                    swap, nt = prefer_negated(st.test)
                    if swap:
                        st.test, body, orelse = nt, orelse, body
                if not body and orelse:
                    st.test, body, orelse = canon_test(negate(st.test)), orelse, []
                if not body and not orelse:
                    if not is_pure(st.test):
                        out.append(ast.Expr(value=st.test))
                else:
                    # if c: X elif-chain flattening is left as nested ifs (ast already nests elif in orelse)
                    st.body, st.orelse = body, orelse
                    out.append(st)
                stmts = stmts[:i + 1] + rest
                i += 1
                continue
            if isinstance(st, (ast.For, ast.While)):
                if isinstance(st, ast.While):
                    st.test = canon_test(st.test)
                st.body = self.block(st.body) or [ast.Pass()]
                st.orelse = self.block(st.orelse)
                if isinstance(st, ast.For):
                    st = self.loop_idiom(st)
                out.append(st)
            elif isinstance(st, ast.With):
                st.body = self.block(st.body) or [ast.Pass()]
                out.append(st)
            elif isinstance(st, ast.Try):
                st.body = self.block(st.body) or [ast.Pass()]
                for h in st.handlers:
                    h.body = self.block(h.body) or [ast.Pass()]
                st.orelse = self.block(st.orelse)
                st.finalbody = self.block(st.finalbody)
                out.append(st)
            elif isinstance(st, ast.Assign):
                out += self.split_assign(st)
            elif isinstance(st, ast.AugAssign) and isinstance(st.op, ast.Add) and isinstance(st.value, ast.UnaryOp) and isinstance(st.value.op, ast.USub):
                st.op, st.value = ast.Sub(), st.value.operand
                out.append(st)
            elif isinstance(st, ast.AugAssign) and isinstance(st.op, ast.Add) and isinstance(st.value, ast.BinOp) and isinstance(st.value.op, ast.Mult) \
                    and isinstance(st.value.left, ast.UnaryOp) and isinstance(st.value.left.op, ast.USub):
                # x += -a*b  ->  x -= a*b
                st.op = ast.Sub()
                st.value = ast.BinOp(left=st.value.left.operand, op=ast.Mult(), right=st.value.right)
                out.append(st)
            elif isinstance(st, (ast.Return, ast.Raise, ast.Continue, ast.Break)):
                out.append(st)
                break       # unreachable code after an unconditional exit
            else:
                out.append(st)
            i += 1
        return out

    def split_assign(self, st):
        # a = b = v  (v pure and simple)  ->  a = v; b = v
        if len(st.targets) > 1 and is_pure(st.value) and isinstance(st.value, (ast.Constant, ast.Name)):
            return [s for t in st.targets for s in self.split_assign(ast.Assign(targets=[t], value=copy.deepcopy(st.value)))]
        # a, b = x, y  with independent sides  ->  a = x; b = y
        t = st.targets[0]
        if len(st.targets) == 1 and isinstance(t, (ast.Tuple, ast.List)) and isinstance(st.value, (ast.Tuple, ast.List)) and len(t.elts) == len(st.value.elts) \
                and not any(isinstance(e, ast.Starred) for e in t.elts + st.value.elts):
            pairs = [(a, b) for a, b in zip(t.elts, st.value.elts) if not (dotted(a) is not None and dotted(a) == dotted(b))]
            ok = all(is_pure(v) for v in st.value.elts)
            for i, (a, _) in enumerate(pairs):
                ka = dotted(a) or dump(a)
                for j, (_, b) in enumerate(pairs):
                    nm, at = reads(b)
                    if i != j and (ka in nm or ka in at):
                        ok = False
                    if i == j and (ka in nm or ka in at) and False:
                        ok = False
            # a component may read its own target (x = f(x)); it may not read the target of another component
            if ok:
                return [s2 for a, b in pairs for s2 in self.split_assign(ast.Assign(targets=[a], value=b))]
        # x = a if c else b  ->  if c: x = a else: x = b
        if len(st.targets) == 1 and isinstance(st.value, ast.IfExp):
            tt = st.targets[0]
            node = ast.If(test=st.value.test, body=[ast.Assign(targets=[copy.deepcopy(tt)], value=st.value.body)],
                          orelse=[ast.Assign(targets=[copy.deepcopy(tt)], value=st.value.orelse)])
            return self.block([node])
        # x = x  (no-op)
        if len(st.targets) == 1 and isinstance(st.targets[0], ast.Name) and isinstance(st.value, ast.Name) and st.targets[0].id == st.value.id:
            return []
        return [st]

    def loop_idiom(self, st):
        # for i, x in enumerate(S) with i never read  ->  for x in S
        if isinstance(st.iter, ast.Call) and dotted(st.iter.func) == 'enumerate' and len(st.iter.args) == 1 and not st.iter.keywords \
                and isinstance(st.target, ast.Tuple) and len(st.target.elts) == 2 and isinstance(st.target.elts[0], ast.Name):
            idx = st.target.elts[0].id
            used = any(isinstance(n, ast.Name) and n.id == idx and isinstance(n.ctx, ast.Load) for b in st.body + st.orelse for n in ast.walk(b))
            used_after = self.read_anywhere_else(idx, st)
            if not used and not used_after:
                st.target = st.target.elts[1]
                st.iter = st.iter.args[0]
        return st

    def read_anywhere_else(self, name, node):
        inside = {id(n) for n in ast.walk(node)}
        for n in own_walk(self.fn):
            if isinstance(n, ast.Name) and n.id == name and isinstance(n.ctx, ast.Load) and id(n) not in inside:
                return True
        return False

    # ------------------------------------------------------------------
    def assignments(self, fn):
        """name -> list of (statement, kind) for every binding of a local name"""
        out = {}
        for n in own_walk(fn):
            if isinstance(n, ast.Assign):
                for t in n.targets:
                    for x in ast.walk(t):
                        if isinstance(x, ast.Name) and isinstance(x.ctx, ast.Store):
                            out.setdefault(x.id, []).append((n, 'assign' if (len(n.targets) == 1 and x is t) else 'other'))
            elif isinstance(n, (ast.AugAssign, ast.AnnAssign)):
                for x in ast.walk(n.target):
                    if isinstance(x, ast.Name):
                        out.setdefault(x.id, []).append((n, 'other'))
            elif isinstance(n, (ast.For, ast.comprehension)):
                for x in ast.walk(n.target):
                    if isinstance(x, ast.Name):
                        out.setdefault(x.id, []).append((n, 'other'))
            elif isinstance(n, (ast.With,)):
                for it in n.items:
                    if it.optional_vars is not None:
                        for x in ast.walk(it.optional_vars):
                            if isinstance(x, ast.Name):
                                out.setdefault(x.id, []).append((n, 'other'))
            elif isinstance(n, ast.ExceptHandler) and n.name:
                out.setdefault(n.name, []).append((n, 'other'))
            elif isinstance(n, (ast.Import, ast.ImportFrom)):
                for a in n.names:
                    out.setdefault((a.asname or a.name).split('.')[0], []).append((n, 'other'))
            elif isinstance(n, (ast.Global, ast.Nonlocal)):
                for a in n.names:
                    out.setdefault(a, []).append((n, 'other'))
            elif isinstance(n, ast.NamedExpr):
                out.setdefault(n.target.id, []).append((n, 'other'))
        for p in self.params:
            out.setdefault(p, []).append((fn, 'param'))
        return out

    def forward_substitute(self, fn):
        """v = <pure expr> assigned once, every name it reads never re-bound, attributes it reads not written and no
        impure call between the definition and the uses (uses in the same block or nested inside it): replace uses"""
        asg = self.assignments(fn)
        changed = True
        rounds = 0
        while changed and rounds < 20:
            changed = False
            rounds += 1
            asg = self.assignments(fn)
            for blk in self.blocks(fn):
                for i, st in enumerate(blk):
                    if not (isinstance(st, ast.Assign) and len(st.targets) == 1 and isinstance(st.targets[0], ast.Name)):
                        continue
                    v = st.targets[0].id
                    if len(asg.get(v, [])) != 1 or v in self.params:
                        continue
                    if not is_pure(st.value) or isinstance(st.value, (ast.ListComp, ast.DictComp, ast.SetComp, ast.GeneratorExp, ast.List, ast.Dict, ast.Set)):
                        continue        # containers have identity: not substituted
                    names, attrs = reads(st.value)
                    if any(len(asg.get(nm, [])) > 1 or (len(asg.get(nm, [])) == 1 and asg[nm][0][1] == 'other' and not isinstance(asg[nm][0][0], ast.For)) for nm in names):
                        continue
                    # loop variables read by the value: the uses must be in the same loop body (they are: same block or nested)
                    has_sub = any(isinstance(n, ast.Subscript) for n in ast.walk(st.value))
                    rest = blk[i + 1:]
                    uses = [n for s in rest for n in ast.walk(s) if isinstance(n, ast.Name) and n.id == v and isinstance(n.ctx, ast.Load)]
                    all_uses = [n for n in own_walk(fn) if isinstance(n, ast.Name) and n.id == v and isinstance(n.ctx, ast.Load)]
                    if len(uses) != len(all_uses) or not uses:
                        continue
                    # uses inside nested functions / lambdas / comprehensions capture late: skip
                    if any(isinstance(n, (ast.Lambda, ast.FunctionDef)) for s in rest for n in ast.walk(s)):
                        continue
                    if attrs or has_sub:
                        # state read by the value must be the same at the uses: scan the statements up to the last use
                        last = max(k for k, s in enumerate(rest) if any(n in uses for n in ast.walk(s)))
                        unsafe = False
                        for s in rest[:last + 1]:
                            for n in ast.walk(s):
                                if isinstance(n, ast.Call) and not is_pure(n):
                                    # a call that sits in the same statement as the (only) use and is evaluated with it is tolerated
                                    # only if it is the consumer of the value itself
                                    if not any(u in list(ast.walk(n)) for u in uses):
                                        unsafe = True
                                if isinstance(n, (ast.Attribute, ast.Subscript)) and isinstance(n.ctx, ast.Store):
                                    d = dotted(n) if isinstance(n, ast.Attribute) else dotted(n.value)
                                    if d and any(a == d or a.startswith(d + '.') or d.startswith(a + '.') for a in attrs):
                                        unsafe = True
                                    if isinstance(n, ast.Subscript) and has_sub:
                                        unsafe = True
                                if isinstance(n, ast.AugAssign):
                                    pass
                            if isinstance(s, (ast.For, ast.While)) and any(u in list(ast.walk(s)) for u in uses) and (attrs or has_sub):
                                # used inside a loop: re-evaluated each iteration; state must not change in the loop
                                for n in ast.walk(s):
                                    if isinstance(n, ast.Call) and not is_pure(n) and not any(u in list(ast.walk(n)) for u in uses):
                                        unsafe = True
                        if unsafe:
                            continue
                    if len(uses) > 1 and not isinstance(st.value, (ast.Name, ast.Constant, ast.Attribute)) and cost(st.value) > 40:
                        continue
                    for u in uses:
                        replace_node(rest, u, st.value)
                    blk.pop(i)
                    changed = True
                    break
                if changed:
                    break

    def moves(self, fn):
        """b = a  where the name a is never used again (read or written) after this statement and the statement is not inside
        a loop that a lives across: b is a new name for the same value - rename b to a from here on and drop the statement"""
        order = []

        def rec(node):
            order.append(node)
            for c in ast.iter_child_nodes(node):
                if isinstance(c, (ast.ListComp, ast.SetComp, ast.DictComp, ast.GeneratorExp)):
                    # comprehension variables live in their own scope: only the free names matter
                    bound = {x.id for g in c.generators for x in ast.walk(g.target) if isinstance(x, ast.Name)}
                    for x in ast.walk(c):
                        if isinstance(x, ast.Name) and x.id not in bound:
                            order.append(x)
                    continue
                if not isinstance(c, (ast.FunctionDef, ast.Lambda, ast.ClassDef)) or c is fn:
                    rec(c)
        rec(fn)
        pos = {id(n): k for k, n in enumerate(order)}
        for blk in self.blocks(fn):
            for i, st in enumerate(blk):
                if not (isinstance(st, ast.Assign) and len(st.targets) == 1 and isinstance(st.targets[0], ast.Name) and isinstance(st.value, ast.Name)):
                    continue
                b, a = st.targets[0].id, st.value.id
                if a == b or b in self.params:
                    continue
                end = max(pos[id(n)] for n in ast.walk(st) if id(n) in pos)
                later_a = [n for n in order[end + 1:] if isinstance(n, ast.Name) and n.id == a]
                if later_a:
                    continue
                # b must not be bound anywhere else before (then it would be a different variable there)
                b_occ = [n for n in order if isinstance(n, ast.Name) and n.id == b]
                if any(pos[id(n)] < pos[id(st)] for n in b_occ):
                    continue
                # inside a loop the statement re-executes: a would have to be re-bound in each iteration before it
                inside_loop = any(isinstance(x, (ast.For, ast.While)) and any(y is st for y in ast.walk(x)) for x in order)
                if inside_loop:
                    # allowed when a is bound earlier in the same block (fresh in every iteration)
                    if not any(isinstance(n, ast.Name) and n.id == a and isinstance(n.ctx, ast.Store) for s2 in blk[:i] for n in ast.walk(s2)) and \
                            not any(isinstance(x, ast.For) and any(isinstance(n, ast.Name) and n.id == a for n in ast.walk(x.target)) and any(y is st for y in ast.walk(x)) for x in order):
                        continue
                for n in b_occ:
                    n.id = a
                blk.pop(i)
                return True
        return False

    def blocks(self, fn):
        out = []

        def rec(stmts):
            out.append(stmts)
            for st in stmts:
                for f in ('body', 'orelse', 'finalbody'):
                    b = getattr(st, f, None)
                    if isinstance(b, list) and b and isinstance(b[0], ast.stmt) and not isinstance(st, (ast.FunctionDef, ast.ClassDef)):
                        rec(b)
                if isinstance(st, ast.Try):
                    for h in st.handlers:
                        rec(h.body)
        rec(fn.body)
        return out

    def dead_stores(self, fn):
        """local names that are never read: their pure assignments are dropped"""
        for _ in range(5):
            readn = {n.id for n in ast.walk(fn) if isinstance(n, ast.Name) and isinstance(n.ctx, ast.Load)}
            removed = False
            for blk in self.blocks(fn):
                for st in list(blk):
                    if isinstance(st, ast.Assign) and len(st.targets) == 1 and isinstance(st.targets[0], ast.Name) and st.targets[0].id not in readn \
                            and st.targets[0].id not in self.params and is_pure(st.value) and not any(isinstance(n, (ast.Global, ast.Nonlocal)) for n in ast.walk(fn)):
                        blk.remove(st)
                        removed = True
            if not removed:
                break
        for blk in self.blocks(fn):
            if not blk:
                blk.append(ast.Pass())


def cost(e):
    return sum(1 for _ in ast.walk(e))


def replace_node(stmts, old, new):
    class R(ast.NodeTransformer):
        def visit_Name(self, n):
            if n is old:
                return copy.deepcopy(new)
            return n
    for k, s in enumerate(stmts):
        stmts[k] = R().visit(s)


# --------------------------------------------------------------------------
# expressions


LIB_SIGS = {
    'np.zeros': ['shape', 'dtype', 'order'], 'zeros': ['shape', 'dtype', 'order'], 'np.empty': ['shape', 'dtype', 'order'],
    'np.delete': ['arr', 'obj', 'axis'], 'np.insert': ['arr', 'obj', 'values', 'axis'], 'np.concatenate': ['arrays', 'axis'],
    'eigsh': ['A', 'k', 'M', 'sigma', 'which', 'v0', 'ncv', 'maxiter', 'tol', 'return_eigenvectors', 'Minv', 'OPinv', 'mode'],
    'eigs': ['A', 'k', 'M', 'sigma', 'which', 'v0', 'ncv', 'maxiter', 'tol', 'return_eigenvectors', 'Minv', 'OPinv', 'OPpart'],
    'eigh': ['a', 'b'], 'eig': ['a', 'b'], 'linspace': ['start', 'stop', 'num'], 'np.linspace': ['start', 'stop', 'num'],
}


class ExprCanon(ast.NodeTransformer):
    def __init__(self, nz, arith=True):
        self.nz = nz
        self.do_arith = arith
        self.scalar_names = self.find_scalar_names(nz.fn)

    def find_scalar_names(self, fn):
        """local names every binding of which is scalar by syntax"""
        asg = self.nz.assignments(fn)
        ok = set()
        for _ in range(4):
            for v, lst in asg.items():
                good = True
                for st, kind in lst:
                    if kind == 'assign' and isinstance(st, ast.Assign):
                        if not self.scalarish(st.value, ok):
                            good = False
                    elif isinstance(st, ast.For) and isinstance(st.target, ast.Name) and st.target.id == v and isinstance(st.iter, ast.Call) and dotted(st.iter.func) == 'range':
                        pass
                    elif isinstance(st, ast.AugAssign) and isinstance(st.target, ast.Name) and self.scalarish(st.value, ok):
                        pass
                    else:
                        good = False
                if good:
                    ok.add(v)
        return ok

    def scalarish(self, e, names=None):
        names = self.scalar_names if names is None else names
        if isinstance(e, ast.Constant):
            return isinstance(e.value, (int, float)) and not isinstance(e.value, bool)
        if isinstance(e, ast.Name):
            return e.id in names or e.id in ('pi',)
        if isinstance(e, ast.Attribute):
            d = dotted(e)
            if d in ('np.pi', 'math.pi'):
                return True
            if d and d.startswith('self.') and d.count('.') == 1:
                a = e.attr
                return not (a in NONSCALAR_ATTRS or a.startswith(NONSCALAR_ATTR_PREFIX))
            return False
        if isinstance(e, ast.UnaryOp) and isinstance(e.op, (ast.USub, ast.UAdd)):
            return self.scalarish(e.operand, names)
        if isinstance(e, ast.BinOp) and isinstance(e.op, (ast.Add, ast.Sub, ast.Mult, ast.Div, ast.Pow)):
            return self.scalarish(e.left, names) and self.scalarish(e.right, names)
        if isinstance(e, ast.Call) and dotted(e.func) in SCALAR_FUNCS and not e.keywords:
            return all(self.scalarish(a, names) or isinstance(a, ast.Name) for a in e.args) if dotted(e.func) in ('float', 'int', 'len') else all(self.scalarish(a, names) for a in e.args)
        return False

    # ------------------------------------------------------------------
    def visit_FunctionDef(self, n):
        if n is self.nz.fn:
            self.generic_visit(n)
        return n

    def visit_BinOp(self, n):
        if self.do_arith and self.scalarish(n):
            c = self.arith(n)
            if c is not None:
                return c
        self.generic_visit(n)
        # x*x <-> x**2 and sign placement for non-scalar operands are left alone
        return n

    def visit_UnaryOp(self, n):
        if isinstance(n.op, ast.Not):
            return canon_test(ast.UnaryOp(op=ast.Not(), operand=self.visit(n.operand)))
        if self.do_arith and self.scalarish(n):
            c = self.arith(n)
            if c is not None:
                return c
        self.generic_visit(n)
        return n

    def arith(self, n):
        atoms = {}

        def leaf(x):
            x2 = ExprCanon.generic_visit(self, copy.deepcopy(x)) if not isinstance(x, (ast.Name, ast.Attribute, ast.Constant)) else x
            key = 'ATOM<%s>' % ast.unparse(x2).replace(' ', '')
            atoms[key] = x2
            return P.sym(key)
        try:
            env = {}
            # names are atoms by their own name
            v = from_ast(n, env, leaf, ring=Rat)
        except (Unsupported, NonMonomialDivision, ZeroDivisionError, Exception):
            return None
        txt = 'ARITH[%s / %s]' % (nfs(v.n), nfs(v.d))
        return ast.copy_location(ast.Name(id=txt, ctx=ast.Load()), n)

    def visit_BoolOp(self, n):
        self.generic_visit(n)
        return canon_test(n)

    def visit_Compare(self, n):
        self.generic_visit(n)
        # x in d.keys() -> x in d
        if len(n.ops) == 1 and isinstance(n.ops[0], (ast.In, ast.NotIn)):
            c = n.comparators[0]
            if isinstance(c, ast.Call) and isinstance(c.func, ast.Attribute) and c.func.attr == 'keys' and not c.args:
                n.comparators = [c.func.value]
        return n

    def visit_IfExp(self, n):
        self.generic_visit(n)
        n.test = canon_test(n.test)
        swap, nt = prefer_negated(n.test)
        if swap:
            n.test, n.body, n.orelse = nt, n.orelse, n.body
        return n

    def visit_Attribute(self, n):
        self.generic_visit(n)
        return n

    def visit_Call(self, n):
        self.generic_visit(n)
        d = dotted(n.func)
        # sorted(d.keys()) -> sorted(d)
        if d in ('sorted', 'list', 'len', 'set') and len(n.args) == 1 and isinstance(n.args[0], ast.Call) and isinstance(n.args[0].func, ast.Attribute) \
                and n.args[0].func.attr == 'keys' and not n.args[0].args and d == 'sorted':
            n.args = [n.args[0].func.value]
        # sum([...]) -> sum(generator)
        if d == 'sum' and len(n.args) == 1 and isinstance(n.args[0], ast.ListComp):
            n.args = [ast.GeneratorExp(elt=n.args[0].elt, generators=n.args[0].generators)]
        # x.transpose() -> x.T
        if isinstance(n.func, ast.Attribute) and n.func.attr == 'transpose' and not n.args and not n.keywords:
            return ast.Attribute(value=n.func.value, attr='T', ctx=ast.Load())
        # np.vstack((a, b)) -> np.concatenate((a, b), axis=0)
        if d == 'np.vstack' and len(n.args) == 1 and not n.keywords:
            n = ast.Call(func=ast.Attribute(value=ast.Name(id='np', ctx=ast.Load()), attr='concatenate', ctx=ast.Load()), args=n.args,
                         keywords=[ast.keyword(arg='axis', value=ast.Constant(value=0))])
            d = 'np.concatenate'
        # **{literal dict} / **name bound once to a literal dict
        kws = []
        for k in n.keywords:
            if k.arg is None:
                lit = self.dict_literal(k.value)
                if lit is not None:
                    kws += [ast.keyword(arg=a, value=v) for a, v in lit]
                    continue
            kws.append(k)
        n.keywords = kws
        # keyword normal form for calls whose signature is known
        sig = self.signature(n)
        if sig is not None and not any(isinstance(a, ast.Starred) for a in n.args) and all(k.arg is not None for k in n.keywords) and len(n.args) <= len(sig):
            kws = [ast.keyword(arg=p, value=a) for p, a in zip(sig, n.args)] + list(n.keywords)
            names = [k.arg for k in kws]
            if len(set(names)) == len(names):
                n.args = []
                n.keywords = sorted(kws, key=lambda k: k.arg)
        elif all(k.arg is not None for k in n.keywords):
            n.keywords = sorted(n.keywords, key=lambda k: k.arg)
        return n

    def dict_literal(self, v):
        if isinstance(v, ast.Dict) and all(isinstance(k, ast.Constant) and isinstance(k.value, str) for k in v.keys):
            return [(k.value, x) for k, x in zip(v.keys, v.values)]
        if isinstance(v, ast.Call) and dotted(v.func) == 'dict' and not v.args and all(k.arg for k in v.keywords):
            return [(k.arg, k.value) for k in v.keywords]
        return None

    def signature(self, call):
        d = dotted(call.func)
        if d in LIB_SIGS:
            return LIB_SIGS[d]
        db = self.nz.sigdb
        if d is None:
            return None
        if d.startswith('self.') and d.count('.') == 1 and ('self', d[5:]) in db:
            return db[('self', d[5:])]
        last = d.split('.')[-1]
        if ('func', last) in db and '.' not in d:
            return db[('func', last)]
        if ('any', last) in db:
            return db[('any', last)]
        return None


# --------------------------------------------------------------------------
# alpha renaming and comparison


def alpha(fn, params):
    """rename the local names (everything stored in the function that is not a parameter) in order of first occurrence"""
    stored = []
    for n in own_walk(fn):
        if isinstance(n, ast.Name) and isinstance(n.ctx, (ast.Store, ast.Del)) and n.id not in params and n.id not in stored:
            stored.append(n.id)
        if isinstance(n, ast.ExceptHandler) and n.name and n.name not in stored:
            stored.append(n.name)
    glob = set()
    for n in own_walk(fn):
        if isinstance(n, (ast.Global, ast.Nonlocal)):
            glob |= set(n.names)
    order = []

    class V(ast.NodeVisitor):
        # order of first binding, statement by statement (independent of the order of operands inside expressions)
        def visit_Name(self, n):
            if isinstance(n.ctx, (ast.Store, ast.Del)) and n.id in stored and n.id not in glob and n.id not in order:
                order.append(n.id)

        def visit_Assign(self, n):
            for t in n.targets:
                self.visit(t)
            self.visit(n.value)

        def visit_ExceptHandler(self, n):
            if n.name and n.name not in order:
                order.append(n.name)
            self.generic_visit(n)

        def visit_FunctionDef(self, n):
            if n is fn:
                self.generic_visit(n)

        def visit_Lambda(self, n):
            pass
    V().visit(fn)
    ren = {nm: 'v%d' % k for k, nm in enumerate(order)}

    class R(ast.NodeTransformer):
        def visit_Name(self, n):
            if n.id in ren:
                n.id = ren[n.id]
            return n

        def visit_ExceptHandler(self, n):
            if n.name in ren:
                n.name = ren[n.name]
            self.generic_visit(n)
            return n
    return R().visit(fn)


def signature_of(fn):
    a = fn.args
    return dump(ast.arguments(posonlyargs=a.posonlyargs, args=a.args, vararg=a.vararg, kwonlyargs=a.kwonlyargs, kw_defaults=a.kw_defaults, kwarg=a.kwarg, defaults=a.defaults))


def build_sigdb(mod_funcs, class_methods, cls, extra=None):
    """parameter-name lists for keyword normal form: methods of the same class (self.x), module functions, and,
    for calls through other objects (p.calc_k0(...)), names that are unambiguous over all analysed classes"""
    db = {}
    for name, f in mod_funcs.items():
        if not (f.args.vararg or f.args.kwarg):
            db[('func', name)] = [a.arg for a in f.args.posonlyargs + f.args.args]
    for name, f in class_methods.get(cls, {}).items() if cls else []:
        if not (f.args.vararg or f.args.kwarg):
            db[('self', name)] = [a.arg for a in (f.args.posonlyargs + f.args.args)[1:]]
    for k, v in (extra or {}).items():
        db.setdefault(k, v)
    return db


def normal_form(fn, expander, cls, sigdb):
    f = expander.expand(fn, cls=cls)
    params = [a.arg for a in f.args.posonlyargs + f.args.args + f.args.kwonlyargs] + ([f.args.vararg.arg] if f.args.vararg else []) + ([f.args.kwarg.arg] if f.args.kwarg else [])
    nz = Normalizer(f, sigdb)
    f = nz.run()
    f = alpha(f, set(params))
    nz.fn = f
    f = nz.finish()
    f.name = 'f'
    ast.fix_missing_locations(f)
    return f


def equivalent(cur_fn, ref_fn, cur_exp, ref_exp, cls, cur_sig, ref_sig):
    """-> (bool, normal form text of current, normal form text of reference)"""
    if signature_of(cur_fn) != signature_of(ref_fn):
        return False, None, None
    try:
        a = normal_form(cur_fn, cur_exp, cls, cur_sig)
        b = normal_form(ref_fn, ref_exp, cls, ref_sig)
    except RecursionError:
        return False, None, None
    da, db = dump(a), dump(b)
    if da == db:
        return True, None, None
    try:
        ta, tb = ast.unparse(a), ast.unparse(b)
    except Exception:
        ta, tb = da, db
    return False, ta, tb
