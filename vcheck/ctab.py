"""E2 - C table front end.

Tokenizer + recursive-descent parser for the subset of C used by
``compmech/lib/src/*.c``:

    function  := EXPORTIT? type name '(' params ')' '{' stmt* '}'
    stmt      := 'switch' '(' id ')' '{' case* '}'
               | 'return' expr? ';'
               | id '[' int ']' '=' expr ';'
    case      := ('case' int | 'default') ':' stmt*
    expr      := arithmetic over + - * / unary-minus, pow(e, int), literals,
                 identifiers, parentheses

Expressions are *not* expanded while parsing; each case body keeps its token
range and is expanded on demand into a polynomial with dense exponent tuples
over the function's ``double`` parameters (exact ``Fraction`` coefficients,
decimal literals read exactly).
"""
import re
from fractions import Fraction

TOK = re.compile(
    r'(?P<ws>\s+|//[^\n]*|/\*.*?\*/|\#[^\n]*)'
    r'|(?P<num>(?:\d+\.\d*|\.\d+|\d+)(?:[eE][-+]?\d+)?)'
    r'|(?P<id>[A-Za-z_]\w*)'
    r'|(?P<op>.)', re.S)


class CParseError(Exception):
    pass


def tokenize(src):
    toks = []
    line = 1
    for m in TOK.finditer(src):
        kind = m.lastgroup
        text = m.group()
        if kind != 'ws':
            toks.append((kind, text, line))
        line += text.count('\n')
    return toks


class CPoly:
    """polynomial with dense exponent tuples over a fixed variable list"""
    __slots__ = ('t', 'nv')

    def __init__(self, nv, t=None):
        self.nv = nv
        self.t = t if t is not None else {}

    def __add__(a, b):
        t = dict(a.t)
        for m, c in b.t.items():
            v = t.get(m, 0) + c
            if v:
                t[m] = v
            else:
                t.pop(m, None)
        return CPoly(a.nv, t)

    def __neg__(a):
        return CPoly(a.nv, {m: -c for m, c in a.t.items()})

    def __sub__(a, b):
        return a + (-b)

    def __mul__(a, b):
        t = {}
        for m1, c1 in a.t.items():
            for m2, c2 in b.t.items():
                m = tuple(map(int.__add__, m1, m2))
                v = t.get(m, 0) + c1 * c2
                if v:
                    t[m] = v
                else:
                    t.pop(m, None)
        return CPoly(a.nv, t)

    def __pow__(a, n):
        r = CPoly(a.nv, {(0,) * a.nv: Fraction(1)})
        for _ in range(n):
            r = r * a
        return r

    def is_const(a):
        return all(not any(m) for m in a.t)

    def const_value(a):
        return a.t.get((0,) * a.nv, Fraction(0))


class ExprParser:
    def __init__(self, toks, start, end, vars_, env=None):
        self.env = env or {}
        self.t = toks
        self.i = start
        self.end = end
        self.vars = vars_
        self.nv = len(vars_)
        self.idx = {v: k for k, v in enumerate(vars_)}

    def peek(self):
        return self.t[self.i] if self.i < self.end else ('end', '', 0)

    def eat(self, text=None):
        tok = self.peek()
        if text is not None and tok[1] != text:
            raise CParseError('line %s: expected %r got %r' % (tok[2], text, tok[1]))
        self.i += 1
        return tok

    def const(self, c):
        c = Fraction(c)
        return CPoly(self.nv, {(0,) * self.nv: c} if c else {})

    def expr(self):
        v = self.term()
        while self.peek()[1] in ('+', '-') and self.peek()[0] == 'op':
            op = self.eat()[1]
            r = self.term()
            v = v + r if op == '+' else v - r
        return v

    def term(self):
        v = self.unary()
        while self.peek()[1] in ('*', '/') and self.peek()[0] == 'op':
            op = self.eat()[1]
            r = self.unary()
            if op == '*':
                v = v * r
            else:
                if not r.is_const() or not r.const_value():
                    raise CParseError('line %s: division by a non-constant' % self.peek()[2])
                v = v * self.const(1 / r.const_value())
        return v

    def unary(self):
        tok = self.peek()
        if tok[0] == 'op' and tok[1] == '-':
            self.eat()
            return -self.unary()
        if tok[0] == 'op' and tok[1] == '+':
            self.eat()
            return self.unary()
        return self.atom()

    def atom(self):
        kind, text, line = self.eat()
        if kind == 'num':
            return self.const(Fraction(text))
        if kind == 'id':
            if text == 'pow':
                self.eat('(')
                b = self.expr()
                self.eat(',')
                e = self.expr()
                self.eat(')')
                if not e.is_const() or e.const_value().denominator != 1 or e.const_value() < 0:
                    raise CParseError('line %s: pow with non-natural exponent' % line)
                return b ** int(e.const_value())
            if text in self.env:
                return self.env[text]
            if text not in self.idx:
                raise CParseError('line %s: unknown identifier %r' % (line, text))
            m = [0] * self.nv
            m[self.idx[text]] = 1
            return CPoly(self.nv, {tuple(m): Fraction(1)})
        if kind == 'op' and text == '(':
            r = self.expr()
            self.eat(')')
            return r
        raise CParseError('line %s: unexpected token %r' % (line, text))


class CFunction:
    def __init__(self, name, rettype, params, toks, body_start, body_end, line):
        self.name = name
        self.rettype = rettype
        self.params = params            # list of (type, name) ; type contains '*' for pointers
        self.toks = toks
        self.body = (body_start, body_end)
        self.line = line
        self.vars = [n for t, n in params if t.replace('const', '').strip() == 'double']
        self._tree = None

    # ---- statement skeleton -------------------------------------------------
    def tree(self):
        if self._tree is None:
            self.i = self.body[0]
            self._tree = self._stmts(self.body[1])
        return self._tree

    def _peek(self):
        return self.toks[self.i]

    def _eat(self, text=None):
        tok = self.toks[self.i]
        if text is not None and tok[1] != text:
            raise CParseError('%s line %s: expected %r got %r' % (self.name, tok[2], text, tok[1]))
        self.i += 1
        return tok

    def _stmts(self, end):
        out = []
        while self.i < end:
            tok = self._peek()
            if tok[1] == '}' or tok[1] in ('case', 'default'):
                break
            out.append(self._stmt(end))
        return out

    def _skip_expr(self):
        start = self.i
        depth = 0
        while True:
            tok = self.toks[self.i]
            if tok[1] == '(':
                depth += 1
            elif tok[1] == ')':
                depth -= 1
            elif tok[1] == ';' and depth == 0:
                break
            self.i += 1
        end = self.i
        self._eat(';')
        return (start, end)

    def _stmt(self, end):
        tok = self._peek()
        if tok[1] == 'switch':
            self._eat()
            self._eat('(')
            var = self._eat()[1]
            self._eat(')')
            self._eat('{')
            cases = []      # list of (label or None, stmts) in source order
            while self._peek()[1] != '}':
                lab = self._eat()
                if lab[1] == 'case':
                    neg = False
                    if self._peek()[1] == '-':
                        self._eat(); neg = True
                    val = int(self._eat()[1])
                    label = -val if neg else val
                elif lab[1] == 'default':
                    label = None
                else:
                    raise CParseError('%s line %s: expected case/default, got %r' % (self.name, lab[2], lab[1]))
                self._eat(':')
                body = self._stmts(end)
                cases.append((label, body, lab[2]))
            self._eat('}')
            return ('switch', var, cases, tok[2])
        if tok[1] in ('double', 'int', 'float', 'const', 'unsigned', 'long') and tok[0] == 'id':
            # local declaration (no initialiser expected in the table files): skipped
            while self._peek()[1] != ';':
                if self._peek()[1] == '=':
                    raise CParseError('%s line %s: initialised declaration' % (self.name, tok[2]))
                self._eat()
            self._eat(';')
            return ('decl', tok[2])
        if tok[1] == 'break':
            self._eat()
            self._eat(';')
            return ('break', tok[2])
        if tok[1] == 'for':
            # for (i = LO; i < BOUND; i++) { stmts }
            self._eat()
            self._eat('(')
            var = self._eat()[1]
            self._eat('=')
            lo = self._eat()[1]
            self._eat(';')
            v2 = self._eat()[1]
            self._eat('<')
            bound = self._eat()[1]
            self._eat(';')
            v3 = self._eat()[1]
            self._eat('+')
            self._eat('+')
            self._eat(')')
            if v2 != var or v3 != var:
                raise CParseError('%s line %s: loop header uses several variables' % (self.name, tok[2]))
            self._eat('{')
            body = self._stmts(end)
            self._eat('}')
            return ('for', var, lo, bound, body, tok[2])
        if tok[1] == 'return':
            self._eat()
            if self._peek()[1] == ';':
                self._eat(';')
                return ('return', None, tok[2])
            rng = self._skip_expr()
            return ('return', rng, tok[2])
        if tok[0] == 'id':
            name = self._eat()[1]
            if self._peek()[1] == '[':
                self._eat('[')
                it = self._eat()
                self._eat(']')
                self._eat('=')
                rng = self._skip_expr()
                if it[0] == 'num':
                    return ('store', name, int(it[1]), rng, tok[2])
                return ('storev', name, it[1], rng, tok[2])
            # scalar local:  x = e;  x += e;  x -= e;  x *= e;
            op = '='
            if self._peek()[1] in ('+', '-', '*') and self.toks[self.i + 1][1] == '=':
                op = self._eat()[1] + '='
            self._eat('=')
            rng = self._skip_expr()
            return ('assign', name, op, rng, tok[2])
        raise CParseError('%s line %s: unexpected %r' % (self.name, tok[2], tok[1]))

    def expand(self, rng, env=None):
        if isinstance(rng, tuple) and len(rng) == 2 and rng[0] == 'poly':
            return rng[1]
        p = ExprParser(self.toks, rng[0], rng[1], self.vars, env)
        v = p.expr()
        if p.i != rng[1]:
            raise CParseError('%s line %s: trailing tokens in expression' % (self.name, self.toks[p.i][2]))
        return v


def defines(path):
    """#define NAME <integer> of a C file"""
    return {m.group(1): int(m.group(2)) for m in re.finditer(r'^\s*#\s*define\s+(\w+)\s+(\d+)\s*$', open(path).read(), re.M)}


def parse_file(path):
    """-> {name: CFunction}"""
    src = open(path).read()
    toks = tokenize(src)
    funcs = {}
    i, n = 0, len(toks)
    while i < n:
        # a function: ... name ( params ) {
        if toks[i][0] == 'id' and i + 1 < n and toks[i + 1][1] == '(' and toks[i][1] not in ('defined', 'pow', '__declspec'):
            # find matching ')'
            j = i + 2
            depth = 1
            while j < n and depth:
                if toks[j][1] == '(':
                    depth += 1
                elif toks[j][1] == ')':
                    depth -= 1
                j += 1
            if j < n and toks[j][1] == '{':
                name = toks[i][1]
                # return type: ids before name on the same statement
                k = i - 1
                rt = []
                while k >= 0 and toks[k][0] == 'id' and toks[k][1] not in ('EXPORTIT',) or (k >= 0 and toks[k][1] == '*'):
                    rt.append(toks[k][1]); k -= 1
                params = _params(toks[i + 2:j - 1])
                # body end
                b = j + 1
                depth = 1
                e = b
                while e < n and depth:
                    if toks[e][1] == '{':
                        depth += 1
                    elif toks[e][1] == '}':
                        depth -= 1
                    e += 1
                funcs[name] = CFunction(name, ' '.join(reversed(rt)), params, toks, b, e - 1, toks[i][2])
                i = e
                continue
        i += 1
    return funcs


def _params(toks):
    params, cur = [], []
    for t in toks + [('op', ',', 0)]:
        if t[1] == ',':
            if cur:
                name = cur[-1]
                typ = ' '.join(cur[:-1])
                params.append((typ, name))
            cur = []
        else:
            cur.append(t[1])
    return params


def parse_header(path):
    """prototypes in a .h file -> {name: [(type, name), ...]}"""
    src = open(path).read()
    toks = tokenize(src)
    out = {}
    i, n = 0, len(toks)
    while i < n:
        if toks[i][0] == 'id' and i + 1 < n and toks[i + 1][1] == '(' and toks[i][1] not in ('defined', '__declspec'):
            j = i + 2
            depth = 1
            while j < n and depth:
                if toks[j][1] == '(':
                    depth += 1
                elif toks[j][1] == ')':
                    depth -= 1
                j += 1
            if j < n and toks[j][1] == ';':
                out[toks[i][1]] = _params(toks[i + 2:j - 1])
            i = j
            continue
        i += 1
    return out


def switch_table(fn, depth):
    """flatten nested switches of a table function.

    -> (entries, defaults): entries {(labels...): (expr range, line)} for paths
    of ``depth`` case labels ending in ``return expr;``; defaults: list of
    (labels-prefix, expr range or None, line) for default branches.  Any other
    statement shape raises CParseError (the table idiom is the anchor)."""
    entries, defaults = {}, []

    def walk(stmts, prefix, vars_seen):
        for st in stmts:
            if st[0] == 'switch':
                for label, body, line in st[2]:
                    if label is None:
                        if len(body) != 1 or body[0][0] != 'return':
                            raise CParseError('%s line %s: default branch is not a single return' % (fn.name, line))
                        defaults.append((prefix, body[0][1], line))
                    else:
                        key = prefix + (label,)
                        if len(key) == depth:
                            if not body or body[-1][0] != 'return' or body[-1][1] is None or any(b[0] != 'assign' for b in body[:-1]):
                                raise CParseError('%s line %s: case %s is not (local assignments +) a single return (fall-through?)' % (fn.name, line, key))
                            if key in entries:
                                raise CParseError('%s line %s: duplicate case %s' % (fn.name, line, key))
                            if len(body) == 1:
                                entries[key] = (body[0][1], line)
                            else:
                                # partial sums in local scalars: evaluated in order, the returned expression sees their values
                                env = {}
                                for _, nm, op, rng, ln in body[:-1]:
                                    v = fn.expand(rng, env)
                                    if op == '=':
                                        env[nm] = v
                                    elif nm not in env:
                                        raise CParseError('%s line %s: %s used before it is set' % (fn.name, ln, nm))
                                    elif op == '+=':
                                        env[nm] = env[nm] + v
                                    elif op == '-=':
                                        env[nm] = env[nm] - v
                                    else:
                                        env[nm] = env[nm] * v
                                entries[key] = (('poly', fn.expand(body[-1][1], env)), line)
                        else:
                            if not body:
                                raise CParseError('%s line %s: empty case %s (fall-through)' % (fn.name, line, key))
                            walk(body, key, vars_seen + [st[1]])
                if len(prefix) == 0:
                    vars_seen.append(st[1])
            elif st[0] == 'return':
                # trailing return after the outer switch (unreachable default)
                defaults.append((prefix, st[1], st[2]))
            elif st[0] == 'decl':
                continue
            else:
                raise CParseError('%s line %s: unexpected statement in table' % (fn.name, st[-1]))

    walk(fn.tree(), (), [])
    return entries, defaults


def switch_vars(fn):
    """names of the switch variables, outer to inner"""
    out = []

    def walk(stmts):
        for st in stmts:
            if st[0] == 'switch':
                out.append(st[1])
                for label, body, line in st[2]:
                    if label is not None and body and body[0][0] == 'switch':
                        walk(body)
                        return True
                return True
        return False

    walk(fn.tree())
    return out
