"""Shared helpers for the panel-model kernels (C02, C03, C04, C14, C19):
canonical F atoms, geometry frames (section / sub-interval), index maps."""
import re
from fractions import Fraction as Fr

from .poly import P, Rat, nfs
from .kernel import MatrixKernel, Issue
from . import spec
from .spec import S, C

MODELS = {
    'plate': 'compmech/panel/models/plate_clt_donnell_bardell.pyx',
    'plate_w': 'compmech/panel/models/plate_clt_donnell_bardell_w.pyx',
    'cpanel': 'compmech/panel/models/cpanel_clt_donnell_bardell.pyx',
    'kpanel': 'compmech/panel/models/kpanel_clt_donnell_bardell.pyx',
}
NUM_MODELS = {
    'plate': 'compmech/panel/models/plate_clt_donnell_bardell_num.pyx',
    'cpanel': 'compmech/panel/models/cpanel_clt_donnell_bardell_num.pyx',
}

_FATOM = re.compile(r'^(?:lam\.ABD\d*|lam\.ABDE\d*|ABD|F|lam\.F)\[(\d+);(\d+)\]$')
_FFLAT = re.compile(r'^F\[(\d+)\]$')


def abd_name(i, j):
    """entry (i,j) of the 6x6 laminate matrix [[A,B],[B,D]] under the symmetries
    established by C01 (A, B, D each symmetric): canonical name A01, B12, D22"""
    bi, bj = sorted((i // 3, j // 3))
    si, sj = sorted((i % 3, j % 3))
    return 'ABD'[bi + bj] + '%d%d' % (si, sj)


def canon_F(p):
    """lam.ABD[i;j] / F[6*i+j] -> canonical A/B/D entry names"""
    def fn(a):
        m = _FATOM.match(a)
        if m:
            return abd_name(int(m.group(1)), int(m.group(2)))
        m = _FFLAT.match(a)
        if m:
            return abd_name(*divmod(int(m.group(1)), 6))
        return a
    return p.rename(fn)


def expand_frame(frame, name, depth=0):
    """fully expanded definition of an opaque local as a polynomial"""
    r = frame[name]
    if not (r.d.t and set(r.d.t) == {()}):
        raise ValueError('definition of %s has a polynomial denominator' % name)
    p = r.n * P.const(1 / r.d.t[()])
    for _ in range(12):
        sub = {a: None for a in p.atoms() if a in frame and a != name}
        if not sub:
            return p
        m = {}
        for a in sub:
            ra = frame[a]
            if not (ra.d.t and set(ra.d.t) == {()}):
                raise ValueError('definition of %s has a polynomial denominator' % a)
            m[a] = ra.n * P.const(1 / ra.d.t[()])
        p = p.subs(m)
    return p


def limits_used(k):
    """x- and y-limits of all integral atoms in the emitted values"""
    xl, yl = set(), set()
    for es in k.blocks.values():
        for e in es:
            for a in e.resolved.atoms():
                info = k.w.atoms.reg.get(a)
                if info and info[0] == 'I':
                    (xl if info[1] == 'x' else yl).add(info[4])
    return xl, yl


class Frame:
    """geometry of one analytic kernel: which symbols play a, b, r, the
    section and sub-interval limits; and the obligations on their definitions"""

    def __init__(self, model, kern, sub):
        self.model = model
        self.k = kern
        self.sub = sub
        self.problems = []      # (construct, expected, got)
        self.checked = []       # constructs verified
        w = kern.w
        xl, yl = limits_used(kern)
        self.xlim = self.ylim = None
        # ---- y limits
        if sub:
            if len(yl) != 1 or None in yl:
                self.problems.append(('y sub-interval limits', 'every y-integral is a _12 integral over one (eta1, eta2)', sorted(map(str, yl))))
            else:
                self.ylim = yl.pop()
                y1, y2 = w.params[0], w.params[1]
                for nm, ypar in zip(self.ylim, (y1, y2)):
                    exp = C(2) * S(ypar) / S('b') - C(1)
                    try:
                        got = expand_frame(kern_frame(kern), nm)
                    except (KeyError, ValueError) as e:
                        got = None
                    if got is None or not got.close(exp):
                        self.problems.append(('sub-interval limit %s' % nm, '2*%s/b - 1' % ypar, repr(got)))
                    else:
                        self.checked.append('limit %s = 2*%s/b - 1' % (nm, ypar))
        else:
            if yl != {None}:
                self.problems.append(('y limits', 'full-interval y-integrals', sorted(map(str, yl))))
        # ---- x limits / section frame
        if model == 'kpanel':
            if len(xl) != 1 or None in xl:
                self.problems.append(('x section limits', 'every x-integral is a _12 integral over the section', sorted(map(str, xl))))
            else:
                self.xlim = xl.pop()
                self._kpanel_frame()
        else:
            if xl != {None}:
                self.problems.append(('x limits', 'full-interval x-integrals', sorted(map(str, xl))))

    def _kpanel_frame(self):
        k = self.k
        fr = kern_frame(k)
        w = k.w
        # the section loop: a range loop with constant bound whose token appears in the limits
        try:
            x1 = expand_frame(fr, self.xlim[0])
            x2 = expand_frame(fr, self.xlim[1])
        except (KeyError, ValueError) as e:
            self.problems.append(('section limits', 'definitions of %s, %s' % self.xlim, str(e)))
            return
        toks = {a for a in x1.atoms() | x2.atoms() if re.match(r'^L\d+$', a)}
        if len(toks) != 1:
            self.problems.append(('section limits', 'limits depend on exactly one loop (the section loop)', sorted(toks)))
            return
        tok = toks.pop()
        lp = next(l for l in w.all_loops if l.tok == tok)
        if lp.bound is None or set(lp.bound.t) != {()} or lp.kind != 'range':
            self.problems.append(('section loop', 'range(<constant s>)', repr(lp.bound)))
            return
        s = lp.bound.t[()]
        L = S(tok)
        e1 = C(2) * L / C(s) - C(1)
        e2 = C(2) * (L + C(1)) / C(s) - C(1)
        ok = x1.close(e1) and x2.close(e2)
        (self.checked.append if ok else lambda x: self.problems.append(('section limits', 'xi1 = 2*section/s - 1, xi2 = 2*(section+1)/s - 1 (consecutive sections covering [-1,1])', '%r ; %r' % (x1, x2))))(
            'sections xi1=2k/s-1, xi2=2(k+1)/s-1, k in range(%s)' % s)
        # radius of the section: r = rbot - sin(alpha) * (x1+x2)/2, x = a (xi+1)/2
        rloc = [a for a in self._atoms_all() if a.startswith('$') and a not in self.xlim and (self.ylim is None or a not in self.ylim) and a not in (self._rowcol())]
        self.rloc = None
        for cand in rloc:
            try:
                d = expand_frame(fr, cand)
            except (KeyError, ValueError):
                continue
            exp = S('r') - S('sin(alpharad)') * S('a') * (e1 + e2 + C(2)) * C(Fr(1, 4))
            if d.close(exp):
                self.rloc = cand
                self.checked.append('%s = rbot - sin(alpha)*(x1+x2)/2' % cand)
        if self.rloc is None:
            defs = {}
            for cand in rloc:
                try:
                    defs[cand] = repr(expand_frame(fr, cand))
                except Exception as e:
                    defs[cand] = str(e)
            self.problems.append(('section radius', 'a local r = rbot - sin(alpharad)*(x1+x2)/2 used by the emits', defs))

    def _atoms_all(self):
        out = set()
        for es in self.k.blocks.values():
            for e in es:
                out |= e.resolved.atoms()
        return out

    def _rowcol(self):
        out = set()
        for es in self.k.blocks.values():
            for e in es:
                out.add(e.rbase)
                out.add(e.cbase)
        return out

    def geo(self):
        if self.model in ('plate', 'plate_w'):
            return spec.Geo()
        if self.model == 'cpanel':
            return spec.Geo(r=S('r'))
        if self.model == 'kpanel':
            r = S(self.rloc) if getattr(self, 'rloc', None) else S('$r')
            return spec.Geo(b=r * S('b') / S('r'), r=r, sina=S('sin(alpharad)'), cosa=S('cos(alpharad)'))
        raise ValueError(self.model)


def kern_frame(k):
    """frame definitions reaching the emits (union; later definitions win)"""
    fr = {}
    for es in k.blocks.values():
        for e in es:
            fr.update(e.frame)
    return fr


def index_map_problems(k, num, one_panel=True):
    """R02.5: row = row0 + num*(j*m + i), col = col0 + num*(l*m + k) with i,k
    x-indices (bound m) and j,l y-indices (bound n); guard row>col -> skip"""
    probs = []
    w = k.w
    seen = set()
    for (rbase, rdef, cbase, cdef, mapping, e) in k.row_defs:
        for base, d, off in ((rbase, rdef, 'row0'), (cbase, cdef, 'col0')):
            key = (base, repr(d))
            if key in seen:
                continue
            seen.add(key)
            toks = sorted(w.loop_tokens(d))
            xs = [t for t in toks if _bound_atom(w, t) and _bound_atom(w, t)[0] == 'm']
            ys = [t for t in toks if _bound_atom(w, t) and _bound_atom(w, t)[0] == 'n']
            if len(xs) != 1 or len(ys) != 1 or len(toks) != 2:
                probs.append((e.line, base, 'one x-index and one y-index', 'loop indices %s' % [(_var(w, t), _bound_atom(w, t)) for t in toks]))
                continue
            mname = _bound_atom(w, xs[0])
            offs = [p for p in w.params if p == off]
            exp = S(off) + C(num) * (S(ys[0]) * S(mname) + S(xs[0]))
            got = d.n if isinstance(d, Rat) else d
            if not (isinstance(d, Rat) and d.d == P.const(1) and got == exp):
                probs.append((e.line, base, '%s + %d*(j*m + i)' % (off, num), repr(d)))
    return probs


def _bound_atom(w, tok):
    lp = next(l for l in w.all_loops if l.tok == tok)
    if lp.bound is not None and len(lp.bound.t) == 1:
        (mono, c), = lp.bound.t.items()
        if c == 1 and len(mono) == 1 and mono[0][1] == 1:
            return mono[0][0]
    return None


def _var(w, tok):
    return next(l.var for l in w.all_loops if l.tok == tok)


def guards_of(k):
    """set of guard tuples seen on the value emits"""
    return {e.guards for es in k.blocks.values() for e in es}


def swap_roles(p, atoms):
    """role-swap automorphism A<->B on all semantic atoms"""
    cache = {}

    def fn(a):
        if a not in cache:
            cache[a] = atoms.retok(a, {'A': 'B', 'B': 'A'})
        return cache[a]
    return p.rename(fn)


def compare_blocks(chk, rule, k, rel, got_blocks, exp_blocks, what, ref_atoms=None):
    """one obligation per (P,Q) of the union"""
    n = 0
    for pq in sorted(set(got_blocks) | set(exp_blocks)):
        g = got_blocks.get(pq, P())
        x = exp_blocks.get(pq, P())
        ok = g.close(x, ref=x if x.t else None)
        line = 0
        es = k.blocks.get(pq)
        if es:
            line = es[0].line
        chk.ob(rule, ok, rel, k.fname, 'block(%d,%d)' % pq, line=line,
               expected=('%s: %r' % (what, x)), got=repr(g),
               detail='; '.join(g.diffterms(x, limit=3)) if not ok else '',
               sample=('%s block %s == %r' % (k.fname, pq, x)) if pq == (0, 0) or len(exp_blocks) == 1 else None)
        n += 1
    return n


def issue_obligations(chk, rule, k, rel):
    """alias-discipline issues found by the walker become violations; one
    passing obligation records that the discipline was checked"""
    for iss in k.issues:
        chk.ob(rule, False, rel, k.fname, '%s@%s' % (iss.kind, _stmt_key(k, iss.line)), line=iss.line, detail=iss.msg)
    if not k.issues:
        n = sum(1 for a, info in k.w.atoms.reg.items() if not a.startswith('BAD'))
        chk.ob(rule, True, rel, k.fname, 'alias discipline', sample='%d semantic atoms resolved by callee/index/flag set' % n)


def _stmt_key(k, line):
    try:
        return k.unit.lines[line - 1].strip().split('=')[0].strip()[:40]
    except Exception:
        return str(line)


# --------------------------------------------------------------------------
# generic driver for one analytic coo kernel


def load_kernel(chk, rel, fname):
    from . import pyxast
    from .report import repo_path, REPO, AnalysisError
    u = pyxast.parse(repo_path(rel), REPO)
    chk.need(u.func(fname) is not None, 'anchor vanished: %s in %s' % (fname, rel))
    try:
        return MatrixKernel(u, fname)
    except KeyError as e:
        raise AnalysisError(str(e))


def check_matrix_kernel(chk, R, model, rel, fname, sub, num, spec_fn, what, swap=True, transform=None,
                        single_emit=True):
    """R: rule ids {'hess','alias','frame','index'[,'swap']}.  spec_fn(frame, kernel)
    -> {(P,Q): polynomial}.  Returns (kernel, blocks, frame, mismatching blocks)."""
    k = load_kernel(chk, rel, fname)
    issue_obligations(chk, R['alias'], k, rel)
    fr = Frame(model, k, sub)
    for construct, exp, got in fr.problems:
        chk.ob(R['frame'], False, rel, fname, construct, expected=exp, got=got, detail='integration frame')
    for c in fr.checked:
        chk.ob(R['frame'], True, rel, fname, c, sample=c)
    got = {pq: canon_F(k.block(pq)) for pq in k.blocks}
    exp = spec_fn(fr, k)
    # hoisted loop-invariant scalars (rot = d*d + h*h/12 computed once before the loops) are opaque '$name' atoms with their
    # definition in the frame: those that are not geometry atoms of the specification are put back in
    spec_atoms = {a for v in exp.values() for a in v.atoms()}
    kf = kern_frame(k)
    for _ in range(4):
        extra = sorted({a for v in got.values() for a in v.atoms() if a.startswith('$') and a not in spec_atoms and a in kf})
        if not extra:
            break
        mp = {}
        for a in extra:
            try:
                mp[a] = canon_F(expand_frame(kf, a))
            except (ValueError, KeyError):
                pass
        if not mp:
            break
        got = {pq: v.subs(mp) for pq, v in got.items()}
    cmp_got = {pq: transform(v, k) for pq, v in got.items()} if transform else got
    bad = []
    for pq in sorted(set(cmp_got) | set(exp)):
        g = cmp_got.get(pq, P())
        x = exp.get(pq, P())
        if not g.close(x, ref=x if x.t else None):
            bad.append(pq)
    compare_blocks(chk, R['hess'], k, rel, cmp_got, exp, what)
    if single_emit:
        for pq, es in k.blocks.items():
            chk.ob(R['hess'], len(es) == 1, rel, fname, 'single emit (%d,%d)' % pq, line=es[0].line,
                   detail='block written %d times per iteration' % len(es))
    chk.ob(R['hess'], not k.other_arrays, rel, fname, 'no other array written', got=sorted(k.other_arrays))
    stray = sorted({a for v in got.values() for a in v.atoms() if a in ('m', 'n') or re.match(r'^L\d+$', a)})
    chk.ob(R['hess'], not stray, rel, fname, 'values independent of m, n and raw indices', got=stray)
    probs = index_map_problems(k, num)
    for line, base, e, g_ in probs:
        chk.ob(R['index'], False, rel, fname, 'index map ' + base, line=line, expected=e, got=g_)
    if not probs:
        chk.ob(R['index'], True, rel, fname, 'index maps', sample='row = row0 + %d*(j*m+i), col = col0 + %d*(l*m+k)' % (num, num))
    guards = guards_of(k)
    okg = bool(guards) and all(gs == ('skip-if row > col',) for gs in guards)
    chk.ob(R['index'], okg, rel, fname, 'upper-triangle guard',
           expected='every emit guarded by: if row > col: continue (and nothing else)',
           got=sorted({g for gs in guards for g in gs}))
    unit_num = k.unit.module_consts().get('num')
    chk.ob(R['index'], unit_num == num, rel, fname, 'num', expected='cdef int num == modelDB num == %s' % num, got=unit_num)
    if swap and 'swap' in R:
        for pq in sorted(got):
            qp = (pq[1], pq[0])
            sw = swap_roles(got.get(qp, P()), k.w.atoms)
            chk.ob(R['swap'], got[pq].close(sw), rel, fname, 'role-swap (%d,%d)' % pq,
                   expected='E_PQ(A,B) == E_QP(B,A)', detail='; '.join(got[pq].diffterms(sw, 3)))
    for pq, v in sorted(got.items()):
        degs = v.degree_in(lambda a: a.startswith('Iy['))
        chk.ob(R['alias'], degs <= {1}, rel, fname, 'y-degree (%d,%d)' % pq, expected='degree exactly 1 in y-integrals', got=sorted(degs))
        degs = v.degree_in(lambda a: a.startswith('Ix['))
        chk.ob(R['alias'], degs <= {1}, rel, fname, 'x-degree (%d,%d)' % pq, expected='degree exactly 1 in x-integrals', got=sorted(degs))
    return k, got, fr, bad


def strip_ylimits(p, atoms):
    cache = {}

    def fn(a):
        if a in cache:
            return cache[a]
        info = atoms.reg.get(a)
        r = a
        if info and info[0] == 'I' and info[1] == 'y' and info[4]:
            r = atoms.integral('y', 'full', info[3][0], info[3][1], None)
        cache[a] = r
        return r
    return p.rename(fn)


def sibling_check(chk, rule, model, fname_full, fname_sub, gf, gs, ks, nlead=2):
    """sub-interval kernel == full kernel under the atom map (y limits dropped);
    leading y1,y2 parameters do not appear elsewhere"""
    for pq in sorted(set(gf) | set(gs)):
        a = strip_ylimits(gs.get(pq, P()), ks.w.atoms)
        b = gf.get(pq, P())
        chk.ob(rule, a.close(b), MODELS[model], fname_sub, 'sibling %s (%d,%d)' % ((fname_full,) + pq),
               expected='same polynomial as %s under full->sub atom map' % fname_full,
               detail='; '.join(a.diffterms(b, 3)))
