"""Python-orchestration rules shared by several properties (dispatch, call
binding, symmetrisation).  Built on E6 (pyflow)."""
import ast
import os
import re

from . import pyflow, pyxast
from .pyflow import module, Sig, bind, CFG, dotted, callee_name
from .report import repo_path, REPO, AnalysisError

PANEL = 'compmech/panel/_panel.py'
SPARSE = 'compmech/sparse.py'
MODELDB = 'compmech/panel/modelDB.py'
SHORT = {'plate_clt_donnell_bardell': 'plate', 'plate_clt_donnell_bardell_w': 'plate_w',
         'cpanel_clt_donnell_bardell': 'cpanel', 'kpanel_clt_donnell_bardell': 'kpanel'}


def modeldb(chk=None):
    """panel/modelDB.py: {model: {key: value-or-name}}"""
    m = module(MODELDB)
    for st in m.tree.body:
        if isinstance(st, ast.Assign) and getattr(st.targets[0], 'id', '') == 'db' and isinstance(st.value, ast.Dict):
            out = {}
            for k, v in zip(st.value.keys, st.value.values):
                if isinstance(k, ast.Constant) and isinstance(v, ast.Dict):
                    d = {}
                    for kk, vv in zip(v.keys, v.values):
                        if isinstance(kk, ast.Constant):
                            d[kk.value] = vv.value if isinstance(vv, ast.Constant) else ast.unparse(vv)
                    out[k.value] = d
            return out
    raise AnalysisError('modelDB.db literal not found')


def modeldb_nums(chk=None):
    db = modeldb()
    return {SHORT.get(k, k): v.get('num') for k, v in db.items()}


# --------------------------------------------------------------------------
# small helpers


def norm(node):
    return ast.unparse(node).replace(' ', '') if node is not None else None


def default_idiom(node):
    """``x if x is not None else d`` or ``d if x is None else x`` -> (x-text, d-text) ; else None"""
    if isinstance(node, ast.IfExp) and isinstance(node.test, ast.Compare) and len(node.test.ops) == 1 \
            and isinstance(node.test.comparators[0], ast.Constant) and node.test.comparators[0].value is None:
        if isinstance(node.test.ops[0], ast.IsNot) and norm(node.test.left) == norm(node.body):
            return norm(node.body), norm(node.orelse)
        if isinstance(node.test.ops[0], ast.Is) and norm(node.test.left) == norm(node.orelse):
            return norm(node.orelse), norm(node.body)
    return None


def expr_poly(node):
    """arithmetic expression -> polynomial with attributes / calls / subscripts as opaque atoms
    (call arguments are normalised recursively); None when it is not arithmetic"""
    from .poly import P, from_ast, nfs

    def leaf(n):
        if isinstance(n, ast.Call):
            args = []
            for a in n.args:
                pa = expr_poly(a)
                args.append(nfs(pa) if pa is not None else norm(a))
            kws = ['%s=%s' % (k.arg, norm(k.value)) for k in n.keywords]
            return P.sym('%s(%s)' % (dotted(n.func) or norm(n.func), ','.join(sorted(args) if (dotted(n.func) or '') in ('min', 'max') else args + kws)))
        return P.sym(norm(n))
    try:
        return from_ast(node, {}, leaf)
    except Exception:
        return None


def same_expr(node, text):
    """semantic comparison of an expression with an expected formula (text)"""
    if node is None:
        return False
    a = expr_poly(node)
    try:
        b = expr_poly(ast.parse(text, mode='eval').body)
    except SyntaxError:
        return False
    if a is None or b is None:
        return norm(node) == text.replace(' ', '')
    return a.close(b)


def local_defs(fn):
    """name -> list of value nodes assigned to it (simple ``name = expr``)"""
    out = {}
    for n in ast.walk(fn):
        if isinstance(n, ast.Assign) and len(n.targets) == 1 and isinstance(n.targets[0], ast.Name):
            out.setdefault(n.targets[0].id, []).append(n.value)
        elif isinstance(n, ast.AugAssign) and isinstance(n.target, ast.Name):
            out.setdefault(n.target.id, []).append(None)
        elif isinstance(n, (ast.For,)):
            for t in ast.walk(n.target):
                if isinstance(t, ast.Name):
                    out.setdefault(t.id, []).append(None)
    return out


def resolve(fn, node, defs=None, depth=3):
    """text of an argument with single-definition locals substituted; the
    ``x if x is not None else d`` idiom is written ``x|d``"""
    defs = defs if defs is not None else local_defs(fn)
    params = {a.arg for a in fn.args.args + fn.args.kwonlyargs}

    def rec(n, d):
        di = default_idiom(n)
        if di:
            return '%s|%s' % di
        if isinstance(n, ast.Name) and n.id not in params and d > 0:
            vs = defs.get(n.id, [])
            if len(vs) == 1 and vs[0] is not None:
                return rec(vs[0], d - 1)
        return norm(n)
    return rec(node, depth)


def attr_calls(fn, attr):
    return [c for c in pyflow.calls_in(fn) if isinstance(c.func, ast.Attribute) and c.func.attr == attr]


def enclosing_tests(fn, target):
    """list of (test node, polarity) of the if-statements enclosing ``target``"""
    path = []

    def rec(body, acc):
        for st in body:
            if st is target or any(n is target for n in ast.walk(st)) and not isinstance(st, (ast.If, ast.For, ast.While, ast.With, ast.Try)):
                path.extend(acc)
                return True
            if isinstance(st, ast.If):
                if any(n is target for n in ast.walk(st.test)):
                    path.extend(acc)
                    return True
                if rec(st.body, acc + [(st.test, True)]):
                    return True
                if rec(st.orelse, acc + [(st.test, False)]):
                    return True
            elif isinstance(st, (ast.For, ast.While, ast.With)):
                if rec(st.body, acc):
                    return True
                if getattr(st, 'orelse', None) and rec(st.orelse, acc):
                    return True
            elif isinstance(st, ast.Try):
                for b in [st.body, st.orelse, st.finalbody] + [h.body for h in st.handlers]:
                    if rec(b, acc):
                        return True
        return False
    rec(fn.body, [])
    return path


def stmt_of(fn, target):
    """innermost simple statement containing the node"""
    best = None
    for st in ast.walk(fn):
        if isinstance(st, ast.stmt) and not isinstance(st, (ast.If, ast.For, ast.While, ast.With, ast.Try, ast.FunctionDef)):
            if any(n is target for n in ast.walk(st)):
                best = st
    return best


def check_binding(chk, rule, rel, fn, fname, call, sig, expected, construct, defs=None):
    """bind a call against a signature and compare resolved argument texts.
    expected: {param: text or set of texts}"""
    mp, probs = bind(call, sig)
    ok = not probs
    detail = '; '.join(probs)
    got = {}
    for p, want in expected.items():
        a = mp.get(p)
        txt = resolve(fn, a, defs) if a is not None else None
        got[p] = txt
        wants = want if isinstance(want, (set, frozenset, list, tuple)) else {want}
        alts = {txt}
        if txt and '|' in txt:
            # default idiom written inline: `d if x is None else x` is shown as x|d by resolve()
            x_, d_ = txt.split('|', 1)
            alts |= {'%sif%sisNoneelse%s' % (d_, x_, x_), '%sif%sisnotNoneelse%s' % (x_, x_, d_)}
        if not (alts & set(wants)):
            ok = False
            detail += '; parameter %s receives %s, expected %s' % (p, txt, sorted(wants))
    chk.ob(rule, ok, rel, fname, construct, line=call.lineno, expected=expected, got=got, detail=detail.strip('; '),
           sample='%s binds %s' % (construct, got))
    return ok


def kernel_sig(model_rel, fname):
    u = pyxast.parse(repo_path(model_rel), REPO)
    fn = u.func(fname)
    if fn is None:
        raise AnalysisError('anchor vanished: kernel %s in %s' % (fname, model_rel))
    return Sig(fn)


# --------------------------------------------------------------------------
# mirror functions of sparse.py: tiny term evaluator


def _term(node, env):
    if isinstance(node, ast.Name):
        return env.get(node.id, ('name', node.id))
    if isinstance(node, ast.Constant):
        return ('const', node.value)
    if isinstance(node, ast.Attribute):
        b = _term(node.value, env)
        return ('attr', b, node.attr)
    if isinstance(node, ast.Compare) and len(node.ops) == 1:
        l, r = _term(node.left, env), _term(node.comparators[0], env)
        op = type(node.ops[0]).__name__
        if op == 'LtE':
            op, l, r = 'GtE', r, l
        if op == 'Lt':
            op, l, r = 'Gt', r, l
        return ('cmp', op, l, r)
    if isinstance(node, ast.Subscript):
        return ('sel', _term(node.value, env), _term(node.slice, env))
    if isinstance(node, ast.BinOp):
        return ('bin', type(node.op).__name__, _term(node.left, env), _term(node.right, env))
    if isinstance(node, ast.UnaryOp):
        return ('un', type(node.op).__name__, _term(node.operand, env))
    if isinstance(node, ast.Tuple):
        return ('tuple',) + tuple(_term(e, env) for e in node.elts)
    if isinstance(node, ast.Call):
        return ('call', dotted(node.func) or '?') + tuple(_term(a, env) for a in node.args)
    return ('other', ast.dump(node)[:60])


def mirror_semantics(fn):
    """evaluate make_symmetric / make_skew_symmetric over index terms (abstract interpretation, no execution).
    -> dict with the terms of the final (r, c, v) and the scatter stores"""
    env = {}
    stores = []
    mparam = fn.args.args[0].arg
    ret = None
    for st in fn.body:
        if isinstance(st, ast.Assign) and len(st.targets) == 1:
            t = st.targets[0]
            if isinstance(t, ast.Tuple) and isinstance(st.value, ast.Tuple):
                vals = [_term(v, env) for v in st.value.elts]
                for tt, vv in zip(t.elts, vals):
                    env[tt.id] = vv
            elif isinstance(t, ast.Name):
                if t.id == mparam:
                    continue       # m = coo_matrix(m) normalisation
                env[t.id] = _term(st.value, env)
            elif isinstance(t, ast.Subscript) and isinstance(t.value, ast.Name):
                stores.append((t.value.id, _term(t.slice, env), _term(st.value, env), st.lineno))
        elif isinstance(st, ast.Return):
            ret = st.value
    return env, stores, ret, mparam


def check_mirror(chk, rule, fname, sign):
    """R02.6 / R19.2: keep c>=r, mirror c>r with (r,c,v)->(c,r,sign*v)"""
    m = module(SPARSE)
    fn = m.function(fname)
    # 1. meaning-based decision: abstract interpretation over the elementwise segment domain (coosem.py);
    #    the verdict is about the (row, col, value) contributions per ordering of row and col, so any spelling of the
    #    filter / concatenate / scatter steps (np.where + offset, boolean masks, slice views, a shared helper) is accepted
    from . import coosem
    try:
        with open(repo_path(SPARSE)) as fh:
            tree = ast.parse(fh.read())
        got, shape_ok = coosem.contributions(tree, fname)
    except coosem.Unsupported as e:
        got = None
        chk.note('%s: outside the elementwise segment domain (%s); deciding %s on the statement structure instead'
                 % (fname, e, rule))
    if got is not None:
        want = coosem.expected(sign)
        chk.ob(rule, shape_ok, SPARSE, fname, 'result', line=fn.lineno,
               expected='coo_matrix((v, (r, c)), shape=m.shape[, dtype=m.dtype]) returned for every square argument',
               got=('the function raises for a square argument' if any(len(t) == 1 for t in got['lt']) else 'shape is not m.shape, or a dtype / keyword other than the argument\'s own') if not shape_ok else 'ok')
        keep = ('R', 'C', ('D', 1))
        ok_keep = got['eq'] == want['eq'] and got['gt'] == want['gt'] and got['lt'].count(keep) == 1
        chk.ob(rule, ok_keep, SPARSE, fname, 'kept part', line=fn.lineno,
               expected='row=col: %s, row>col: {}, row<col contains (row, col, val) once' % coosem.show(want['eq']),
               got='row=col: %s, row>col: %s, row<col: %s' % tuple(coosem.show(got[o]) for o in ('eq', 'gt', 'lt')),
               sample='%s keeps col>=row entries once and drops col<row (decided per ordering of row and col)' % fname)
        rest = list(got['lt'])
        if keep in rest:
            rest.remove(keep)
        wantm = ('C', 'R', ('D', sign))
        for k, pos in (('r', 0), ('c', 1), ('v', 2)):
            ok = len(rest) == 1 and len(rest[0]) == 3 and rest[0][pos] == wantm[pos]
            chk.ob(rule, ok, SPARSE, fname, 'mirror ' + k, line=fn.lineno,
                   expected='row<col: %s' % coosem.show(want['lt']), got='row<col: %s' % coosem.show(got['lt']),
                   sample='%s mirrors strictly-upper entries with sign %+d (contributions per stored entry)' % (fname, sign))
        return
    env, stores, ret, mp = mirror_semantics(fn)
    R, Cc, V = ('attr', ('name', mp), 'row'), ('attr', ('name', mp), 'col'), ('attr', ('name', mp), 'data')
    keep = ('cmp', 'GtE', Cc, R)
    r1, c1, v1 = ('sel', R, keep), ('sel', Cc, keep), ('sel', V, keep)

    def cat(x):
        return ('call', 'np.concatenate', ('tuple', x, ('bin', 'Mult', x, ('const', 0))))
    r2, c2, v2 = cat(r1), cat(c1), cat(v1)
    off = ('sel', ('call', 'np.where', ('cmp', 'Gt', c2, r2)), ('const', 0))
    pos = ('sel', ('attr', r1, 'shape'), ('const', 0))
    tgt = ('bin', 'Add', off, pos)
    want = {'r': (tgt, ('sel', c2, off)), 'c': (tgt, ('sel', r2, off)),
            'v': (tgt, ('sel', v2, off) if sign > 0 else ('un', 'USub', ('sel', v2, off)))}
    # which local holds which vector: by the final coo_matrix((v,(r,c))) in the return
    ok_ret = False
    names = {}
    if isinstance(ret, ast.Call) and callee_name(ret) == 'coo_matrix' and ret.args and isinstance(ret.args[0], ast.Tuple):
        t = ret.args[0]
        if len(t.elts) == 2 and isinstance(t.elts[1], ast.Tuple) and len(t.elts[1].elts) == 2:
            names = {'v': t.elts[0].id, 'r': t.elts[1].elts[0].id, 'c': t.elts[1].elts[1].id}
            kw = {k.arg: norm(k.value) for k in ret.keywords}
            ok_ret = kw.get('shape') == '%s.shape' % mp
    chk.ob(rule, ok_ret, SPARSE, fname, 'result', line=getattr(ret, 'lineno', 0),
           expected='coo_matrix((v, (r, c)), shape=m.shape)', got=norm(ret))
    if not names:
        return
    finals = {'r': env.get(names['r']), 'c': env.get(names['c']), 'v': env.get(names['v'])}
    chk.ob(rule, finals == {'r': r2, 'c': c2, 'v': v2}, SPARSE, fname, 'kept part',
           expected='entries with col >= row kept once, second half zero-initialised',
           got='filter/concatenate structure differs' if finals != {'r': r2, 'c': c2, 'v': v2} else 'ok',
           sample='%s keeps col>=row and appends a zero block of equal length' % fname)
    # stores: the r-store changes r before the c-store reads r[off]: r[off] with off < pos is unchanged.
    got = {}
    for arr, idx, val, line in stores:
        for k, nm in names.items():
            if nm == arr:
                got.setdefault(k, []).append((idx, val, line))
    for k in ('r', 'c', 'v'):
        g = got.get(k, [])
        ok = len(g) == 1 and (g[0][0], g[0][1]) == want[k]
        chk.ob(rule, ok, SPARSE, fname, 'mirror ' + k, line=g[0][2] if g else fn.lineno,
               expected={'r': 'r[where(c>r)+pos] = c[where(c>r)]', 'c': 'c[...] = r[...]',
                         'v': 'v[...] = %sv[...]' % ('' if sign > 0 else '-')}[k],
               got='%d store(s); structure differs' % len(g) if not ok else 'ok',
               sample='%s mirrors strictly-upper entries with sign %+d' % (fname, sign))


def check_finalize(chk, rule):
    m = module(SPARSE)
    fn = m.function('finalize_symmetric_matrix')
    rets = [n for n in ast.walk(fn) if isinstance(n, ast.Return)]
    ok = len(rets) == 1 and any(callee_name(c) == 'make_symmetric' and norm(c.args[0]) == fn.args.args[0].arg
                                for c in pyflow.calls_in(rets[0]))
    chk.ob(rule, ok, SPARSE, 'finalize_symmetric_matrix', 'returns make_symmetric(M)',
           line=fn.lineno, got=norm(rets[0].value) if rets else None,
           sample='finalize_symmetric_matrix -> csr_matrix(make_symmetric(M))')


def check_finalize_path(chk, rule, rel, cls, meth, attr, fin='finalize_symmetric_matrix', allow_after=()):
    """on the finalize=True path the value stored in self.<attr> passed through
    finalize_symmetric_matrix exactly once, after the last accumulation"""
    m = module(rel)
    fn = m.method(cls, meth)
    cfg = CFG(fn)
    stores = cfg.ids_where(lambda i, n: isinstance(n, ast.Assign) and any(dotted(t) == 'self.' + attr for t in n.targets))
    chk.need(stores, '%s.%s no longer stores self.%s' % (cls, meth, attr))
    ok = True
    detail = ''
    for s in stores:
        var = norm(cfg.nodes[s].value)
        def is_fin(n):
            if not (isinstance(n, ast.Assign) and norm(n.targets[0]) == var and isinstance(n.value, ast.Call)):
                return False
            c = n.value
            if callee_name(c) == fin and c.args and norm(c.args[0]) == var:
                return True
            # the helper written out: csr_matrix(make_symmetric(x)) is what finalize_symmetric_matrix returns
            if fin == 'finalize_symmetric_matrix' and callee_name(c) == 'csr_matrix' and c.args and isinstance(c.args[0], ast.Call) \
                    and callee_name(c.args[0]) == 'make_symmetric' and c.args[0].args and norm(c.args[0].args[0]) == var:
                return True
            return False
        fins = cfg.ids_where(lambda i, n: is_fin(n))
        if not fins:
            ok = False
            detail = 'no %s = %s(%s) before the store' % (var, fin, var)
            continue
        # assume finalize is true: cut the false edges of `if finalize`
        cut = set()
        for i, n in cfg.nodes.items():
            if isinstance(n, ast.If) and norm(n.test) == 'finalize':
                body_ids = {cfg.node_of_stmt(b) for b in n.body}
                for y in list(cfg.succ[i]):
                    if y not in body_ids:
                        cut.add((i, y))
        reach = _reach(cfg, 0, avoid=set(fins), cut=cut)
        if s in reach:
            ok = False
            detail = 'a path with finalize=True reaches the store without symmetrisation'
        # nothing modifies var between finalize and store
        for f in fins:
            between = _reach(cfg, f, avoid={s}, cut=set()) - {f}
            for b in between:
                nb = cfg.nodes[b]
                if isinstance(nb, (ast.AugAssign,)) and norm(nb.target) == var and s in cfg.reachable(b) \
                        and norm(nb.value) not in allow_after:
                    ok = False
                    detail = 'value modified after symmetrisation (line %d)' % nb.lineno
    chk.ob(rule, ok, rel, '%s.%s' % (cls, meth), 'finalize path of self.' + attr, line=fn.lineno, detail=detail,
           expected='self.%s = finalize_symmetric_matrix(...) on the finalize=True path' % attr,
           sample='%s.%s: store of self.%s dominated by %s when finalize' % (cls, meth, attr, fin))


def _reach(cfg, start, avoid, cut):
    seen = set()
    todo = [start]
    while todo:
        x = todo.pop()
        if x in seen or x in avoid:
            continue
        seen.add(x)
        for y in cfg.succ[x]:
            if (x, y) not in cut:
                todo.append(y)
    return seen


def rebuild_first(chk, rule, rel, cls, meth, kernel_attrs):
    """self._rebuild() is executed on every path before any kernel call"""
    m = module(rel)
    fn = m.method(cls, meth)
    cfg = CFG(fn)
    reb = cfg.ids_where(lambda i, n: any(dotted(c.func) == 'self._rebuild' for c in pyflow.stmt_calls(cfg, i)))
    kcalls = cfg.ids_where(lambda i, n: any(isinstance(c.func, ast.Attribute) and c.func.attr in kernel_attrs for c in pyflow.stmt_calls(cfg, i)))
    chk.need(kcalls, '%s.%s calls none of %s' % (cls, meth, sorted(kernel_attrs)))
    ok = bool(reb) and all(cfg.must_pass(k, reb) for k in kcalls)
    chk.ob(rule, ok, rel, '%s.%s' % (cls, meth), '_rebuild before kernels', line=fn.lineno,
           expected='self._rebuild() on every path to %s' % sorted(kernel_attrs),
           got='%d _rebuild call(s), %d kernel call site(s)' % (len(reb), len(kcalls)),
           sample='%s.%s: %d kernel call sites dominated by self._rebuild()' % (cls, meth, len(kcalls)))
    return fn, cfg


# --------------------------------------------------------------------------
# R02 python side


def r02_python(chk):
    check_mirror(chk, 'R02.6', 'make_symmetric', +1)
    check_finalize(chk, 'R02.6')
    check_finalize_path(chk, 'R02.6', PANEL, 'Panel', 'calc_k0', 'k0')
    fn, cfg = rebuild_first(chk, 'R02.7', PANEL, 'Panel', 'calc_k0', {'fk0', 'fk0y1y2', 'fkL_num', 'fkG0', 'fkG0y1y2'})
    defs = local_defs(fn)
    fname = 'Panel.calc_k0'
    # laminate built from the panel definition, with the panel's offset, before the kernels
    rs = attr_calls(fn, 'read_stack')
    chk.need(len(rs) == 1, 'Panel.calc_k0: expected one read_stack call')
    lam_mod = module('compmech/composite/laminate.py')
    check_binding(chk, 'R02.7', PANEL, fn, fname, rs[0], Sig(lam_mod.function('read_stack')),
                  {'stack': 'self.stack', 'plyts': 'self.plyts', 'laminaprops': 'self.laminaprops',
                   'offset': 'self.offset'}, 'read_stack call', defs)
    # self.lam = lam stored before every kernel call (stack is truthy after _rebuild)
    lamstore = cfg.ids_where(lambda i, n: isinstance(n, ast.Assign) and any(dotted(t) == 'self.lam' for t in n.targets))
    kcalls = cfg.ids_where(lambda i, n: any(isinstance(c.func, ast.Attribute) and c.func.attr in ('fk0', 'fk0y1y2', 'fkL_num') for c in pyflow.stmt_calls(cfg, i)))
    cut = set()
    for i, n in cfg.nodes.items():
        if isinstance(n, ast.If) and norm(n.test) == 'self.stackisnotNone':
            body_ids = {cfg.node_of_stmt(b) for b in n.body}
            for y in list(cfg.succ[i]):
                if y not in body_ids:
                    cut.add((i, y))
    reach = _reach(cfg, 0, avoid=set(lamstore), cut=cut)
    ok = bool(lamstore) and not any(k in reach for k in kcalls)
    lam_from = [norm(cfg.nodes[i].value) for i in lamstore]
    ok = ok and all(resolve(fn, cfg.nodes[i].value, defs).startswith('laminate.read_stack(') for i in lamstore)
    chk.ob('R02.7', ok, PANEL, fname, 'laminate before kernel', expected='self.lam = read_stack(...) dominates fk0/fk0y1y2/fkL_num',
           got=lam_from, sample='self.lam assigned from read_stack before %d kernel calls' % len(kcalls))
    # dispatch + binding of the analytic kernels
    from .panelk import MODELS
    sub_cond = {'self.y1isnotNoneandself.y2isnotNone'}
    for kname, exp in (('fk0y1y2', {'y1': 'self.y1', 'y2': 'self.y2', 'panel': 'self', 'size': {'size', 'self.get_size()'}, 'row0': 'row0', 'col0': 'col0'}),
                       ('fk0', {'panel': 'self', 'size': 'size', 'row0': 'row0', 'col0': 'col0'}),
                       ('fkG0y1y2', {'y1': 'self.y1', 'y2': 'self.y2', 'Nxx': 'self.Nxx_cte|0.0', 'Nyy': 'self.Nyy_cte|0.0', 'Nxy': 'self.Nxy_cte|0.0', 'panel': 'self', 'size': 'size', 'row0': 'row0', 'col0': 'col0'}),
                       ('fkG0', {'Nxx': 'self.Nxx_cte|0.0', 'Nyy': 'self.Nyy_cte|0.0', 'Nxy': 'self.Nxy_cte|0.0', 'panel': 'self', 'size': 'size', 'row0': 'row0', 'col0': 'col0'})):
        calls = attr_calls(fn, kname)
        chk.need(len(calls) == 1, 'Panel.calc_k0: expected exactly one %s call' % kname)
        call = calls[0]
        for model, rel in MODELS.items():
            check_binding(chk, 'R02.7', PANEL, fn, fname, call, kernel_sig(rel, kname), exp, '%s call vs %s signature' % (kname, model), defs)
        tests = enclosing_tests(fn, call)
        conds = [(norm(t), pol) for t, pol in tests]
        want_sub = kname.endswith('y1y2')
        ok = implied_value(fn, call, 'self.y1 is not None and self.y2 is not None') is want_sub
        chk.ob('R02.7', ok, PANEL, fname, '%s branch' % kname, line=call.lineno,
               expected='called iff (self.y1 is not None and self.y2 is not None) is %s' % want_sub, got=conds,
               sample='%s under %s' % (kname, conds))
    # the guard of the pre-load term tests every load component that is passed on
    for kname in ('fkG0', 'fkG0y1y2'):
        call = attr_calls(fn, kname)[0]
        loads = [norm(a) for a in call.args if norm(a).endswith('_cte')]
        tests = enclosing_tests(fn, call)
        guard = [t for t, pol in tests if pol and any(l in norm(t) for l in loads)]
        tested = set()
        okg = len(guard) == 1 and isinstance(guard[0], ast.BoolOp) and isinstance(guard[0].op, ast.Or)
        if okg:
            for v in guard[0].values:
                mm = re.match(r'^(\w+)!=0\.0?$', norm(v))
                if mm:
                    tested.add(mm.group(1))
                else:
                    okg = False
        chk.ob('R02.7', okg and tested == set(loads) and len(loads) == 3, PANEL, fname, '%s pre-load guard' % kname, line=call.lineno,
               expected='added whenever any of %s is non-zero' % loads, got=sorted(tested),
               detail='' if tested == set(loads) else 'a pre-load with only %s non-zero adds no initial-stress matrix' % sorted(set(loads) - tested),
               sample='%s guarded by %s' % (kname, sorted(tested)))
    # the pre-load term is accumulated into the same matrix before symmetrisation
    for kname in ('fkG0', 'fkG0y1y2'):
        call = attr_calls(fn, kname)[0]
        st = stmt_of(fn, call)
        ok = isinstance(st, ast.AugAssign) and isinstance(st.op, ast.Add) and norm(st.target) == 'k0' and st.value is call
        chk.ob('R02.7', ok, PANEL, fname, '%s accumulation' % kname, line=call.lineno, expected='k0 += %s(...)' % kname, got=norm(st))


# --------------------------------------------------------------------------
# generic dispatch helper


def implied_value(fn, call, cond_text):
    """truth value of the condition `cond_text` (a boolean combination of `X is None` / `X is not None` atoms) that the tests enclosing
    `call` force: True / False when every assignment of the atoms that satisfies the enclosing tests gives that value, None when the
    tests do not decide it.  Local names bound once to a boolean expression (partial = y1 is not None and y2 is not None) are written
    out first, and `self.y1` / a local `y1 = self.y1` are the same atom, so the spelling of the dispatch does not matter."""
    import itertools
    defs = local_defs(fn)
    stores = {}
    for n in ast.walk(fn):
        if isinstance(n, ast.Name) and isinstance(n.ctx, (ast.Store, ast.Del)):
            stores[n.id] = stores.get(n.id, 0) + 1

    def expand(e, depth=0):
        if isinstance(e, ast.Name) and stores.get(e.id) == 1 and len(defs.get(e.id, [])) == 1 and defs[e.id][0] is not None and depth < 4:
            v = defs[e.id][0]
            if isinstance(v, (ast.BoolOp, ast.Compare, ast.UnaryOp, ast.Name, ast.Attribute)):
                return expand(v, depth + 1)
        if isinstance(e, ast.BoolOp):
            return ast.BoolOp(op=e.op, values=[expand(v, depth) for v in e.values])
        if isinstance(e, ast.UnaryOp) and isinstance(e.op, ast.Not):
            return ast.UnaryOp(op=e.op, operand=expand(e.operand, depth))
        if isinstance(e, ast.Compare) and len(e.ops) == 1:
            return ast.Compare(left=expand(e.left, depth), ops=e.ops, comparators=[expand(e.comparators[0], depth)])
        return e
    atoms = {}

    def form(e):
        if isinstance(e, ast.BoolOp):
            return ('and' if isinstance(e.op, ast.And) else 'or', [form(v) for v in e.values])
        if isinstance(e, ast.UnaryOp) and isinstance(e.op, ast.Not):
            return ('not', form(e.operand))
        if isinstance(e, ast.Compare) and len(e.ops) == 1 and isinstance(e.ops[0], (ast.Is, ast.IsNot)) and isinstance(e.comparators[0], ast.Constant) and e.comparators[0].value is None:
            key = norm(e.left).replace('self.', '')
            atoms.setdefault(key, len(atoms))
            return ('atom', key) if isinstance(e.ops[0], ast.Is) else ('not', ('atom', key))
        key = '?' + norm(e)
        atoms.setdefault(key, len(atoms))
        return ('atom', key)

    def ev(f, asg):
        if f[0] == 'atom':
            return asg[f[1]]
        if f[0] == 'not':
            return not ev(f[1], asg)
        vals = [ev(x, asg) for x in f[1]]
        return all(vals) if f[0] == 'and' else any(vals)
    target = form(expand(ast.parse(cond_text, mode='eval').body))
    ctx = [(form(expand(t)), pol) for t, pol in enclosing_tests(fn, call)]
    if len(atoms) > 12:
        return None
    keys = sorted(atoms)
    seen = set()
    for combo in itertools.product((False, True), repeat=len(keys)):
        asg = dict(zip(keys, combo))
        if all(ev(f, asg) == pol for f, pol in ctx):
            seen.add(ev(target, asg))
    return seen.pop() if len(seen) == 1 else None


def branch_polarity(fn, call, cond_texts):
    """polarity list of the enclosing tests whose text is in cond_texts; for the sub-interval condition: the truth value the enclosing
    tests force on `y1 is not None and y2 is not None` (implied_value), however the dispatch is spelled"""
    if cond_texts is SUB_COND:
        v = implied_value(fn, call, 'self.y1 is not None and self.y2 is not None')
        return [] if v is None else [v]
    if cond_texts == {'cisNone'}:
        v = implied_value(fn, call, 'c is None')
        return [] if v is None else [v]
    return [pol for t, pol in enclosing_tests(fn, call) if norm(t) in cond_texts]


SUB_COND = {'self.y1isnotNoneandself.y2isnotNone', 'y1isnotNoneandy2isnotNone'}


def r03_python(chk):
    from .panelk import MODELS, NUM_MODELS
    check_finalize_path(chk, 'R03.3', PANEL, 'Panel', 'calc_kG0', 'kG0')
    fn, cfg = rebuild_first(chk, 'R03.3', PANEL, 'Panel', 'calc_kG0', {'fkG0', 'fkG0y1y2', 'fkG_num'})
    defs = local_defs(fn)
    fname = 'Panel.calc_kG0'
    N = {'Nxx': 'self.Nxx|0.0', 'Nyy': 'self.Nyy|0.0', 'Nxy': 'self.Nxy|0.0'}
    base = {'panel': 'self', 'size': 'size', 'row0': 'row0', 'col0': 'col0'}
    for kname, exp in (('fkG0y1y2', dict(base, y1='self.y1', y2='self.y2', **N)), ('fkG0', dict(base, **N))):
        calls = attr_calls(fn, kname)
        chk.need(len(calls) == 1, '%s: expected exactly one %s call' % (fname, kname))
        for model, rel in MODELS.items():
            check_binding(chk, 'R03.3', PANEL, fn, fname, calls[0], kernel_sig(rel, kname), exp,
                          '%s call vs %s signature' % (kname, model), defs)
        pol = branch_polarity(fn, calls[0], SUB_COND)
        chk.ob('R03.3', pol == [kname.endswith('y1y2')], PANEL, fname, '%s branch' % kname, line=calls[0].lineno,
               expected='sub-interval kernel iff y1 and y2 are set', got=[(norm(t), p) for t, p in enclosing_tests(fn, calls[0])])
        polc = branch_polarity(fn, calls[0], {'cisNone'})
        chk.ob('R03.3', polc == [True], PANEL, fname, '%s analytic branch' % kname, line=calls[0].lineno,
               expected='analytic kernel iff c is None', got=polc)
    calls = attr_calls(fn, 'fkG_num')
    chk.need(len(calls) == 1, '%s: expected exactly one fkG_num call' % fname)
    for model, rel in NUM_MODELS.items():
        check_binding(chk, 'R03.3', PANEL, fn, fname, calls[0], kernel_sig(rel, 'fkG_num'),
                      {'cs': {'c', 'np.ascontiguousarray(c,dtype=DOUBLE)'}, 'Finput': 'Fnxny', 'panel': 'self', 'size': 'size', 'row0': 'row0',
                       'col0': 'col0', 'nx': {'nx', 'self.nxifnxisNoneelsenx'}, 'ny': {'ny', 'self.nyifnyisNoneelseny'}, 'NLgeom': 'int(NLgeom)'},
                      'fkG_num call vs %s signature' % model, defs)
    polc = branch_polarity(fn, calls[0], {'cisNone'})
    chk.ob('R03.3', polc == [False], PANEL, fname, 'fkG_num branch', line=calls[0].lineno, expected='numeric kernel iff c is given', got=polc)
    # the numeric kernel comes from the matrices_num table, the analytic ones from matrices
    mats = [(norm(v), [p for t, p in enclosing_tests(fn, v) if norm(t) == 'cisNone']) for v in defs.get('matrices', []) if v is not None]
    want = {("modelDB.db[self.model]['matrices']", True), ("modelDB.db[self.model]['matrices_num']", False)}
    got = {(m, p[0] if p else None) for m, p in mats}
    chk.ob('R03.3', got == want, PANEL, fname, 'kernel table selection', expected=sorted(want), got=sorted(got, key=str))
    # Panel.lb forwards c, nx, ny, Fnxny
    m = module(PANEL)
    lb = m.method('Panel', 'lb')
    calls = [c for c in attr_calls(lb, 'calc_kG0')]
    chk.need(len(calls) == 1, 'Panel.lb: expected one calc_kG0 call')
    check_binding(chk, 'R03.3', PANEL, lb, 'Panel.lb', calls[0], Sig(fn, drop_self=True),
                  {'c': 'c', 'nx': {'nx', 'self.nxifnxisNoneelsenx'}, 'ny': {'ny', 'self.nyifnyisNoneelseny'}, 'Fnxny': 'Fnxny'}, 'calc_kG0 call', local_defs(lb))


def laminate_offset_sign(chk):
    """+1 if a positive offset moves the laminate to z in [d-t/2, d+t/2]"""
    from .poly import from_ast, P
    m = module('compmech/composite/laminate.py')
    fn = m.method('Laminate', 'calc_constitutive_matrix')
    for st in fn.body:
        if isinstance(st, ast.Assign) and isinstance(st.targets[0], ast.Name) and st.targets[0].id == 'h0':
            v = from_ast(st.value, {})
            c = v.coeff_of('self.offset')
            if c == P.const(1):
                return 1
            if c == P.const(-1):
                return -1
    raise AnalysisError('cannot read the offset convention of Laminate.calc_constitutive_matrix')


def r04_python(chk, conv):
    from .panelk import MODELS
    check_finalize_path(chk, 'R04.4', PANEL, 'Panel', 'calc_kM', 'kM')
    m = module(PANEL)
    fn = m.method('Panel', 'calc_kM')
    defs = local_defs(fn)
    fname = 'Panel.calc_kM'
    s_lam = laminate_offset_sign(chk)
    # the laminate offset of calc_k0 is the same attribute
    k0 = m.method('Panel', 'calc_k0')
    rs = attr_calls(k0, 'read_stack')
    lam_off = None
    if rs:
        mp, _ = bind(rs[0], Sig(module('compmech/composite/laminate.py').function('read_stack')))
        lam_off = resolve(k0, mp.get('offset')) if mp.get('offset') is not None else None
    base = {'panel': 'self', 'size': {'size', 'self.get_size()'}, 'row0': 'row0', 'col0': 'col0'}
    for kname, exp in (('fkMy1y2', dict(base, y1='self.y1', y2='self.y2')), ('fkM', dict(base))):
        calls = attr_calls(fn, kname)
        chk.need(len(calls) == 1, '%s: expected exactly one %s call' % (fname, kname))
        call = calls[0]
        pol = branch_polarity(fn, call, SUB_COND)
        chk.ob('R04.4', pol == [kname.endswith('y1y2')], PANEL, fname, '%s branch' % kname, line=call.lineno,
               expected='sub-interval kernel iff y1 and y2 are set', got=pol)
        for model, rel in MODELS.items():
            sig = kernel_sig(rel, kname)
            check_binding(chk, 'R04.4', PANEL, fn, fname, call, sig, exp, '%s call vs %s signature' % (kname, model), defs)
            mp, _ = bind(call, sig)
            dpar = sig.names[2 if kname.endswith('y1y2') else 0]
            darg = mp.get(dpar)
            txt = resolve(fn, darg, defs) if darg is not None else None
            s_arg = None
            if txt == lam_off:
                s_arg = 1
            elif txt is not None and lam_off is not None and txt in ('-' + lam_off, '-(%s)' % lam_off, '-1*' + lam_off, '-1.0*' + lam_off):
                s_arg = -1
            s_k = conv.get((model, kname))
            if s_k is None:
                ok = False
                detail = 'kernel is not a kinetic-energy Hessian under either sign convention (see R04.1)'
            elif s_k == 0:
                ok = True
                detail = ''
            else:
                ok = s_arg is not None and s_k * s_arg == s_lam
                detail = ('kernel %s.%s is the kinetic energy of a plate at z in [%+d*d - h/2, %+d*d + h/2]; the call passes d = %s '
                          'while the laminate built from offset=%s lies at z in [%+d*offset - t/2, ...]' % (model, kname, s_k, s_k, txt, lam_off, s_lam))
            chk.ob('R04.2', ok, PANEL, fname, '%s offset convention (%s)' % (kname, model), line=call.lineno,
                   expected='mass kernel and laminate use the same sign of the reference-surface offset',
                   got='kernel sign %s, argument %s, laminate sign %+d' % (s_k, txt, s_lam), detail=detail,
                   sample='%s(%s): kernel convention %s, laminate %+d' % (kname, txt, s_k, s_lam))


def r08_python(chk):
    """R08.7: orchestration of the tangent / internal force"""
    from .panelk import NUM_MODELS
    m = module(PANEL)
    kt = m.method('Panel', 'calc_kT')
    sig0 = Sig(m.method('Panel', 'calc_k0'), drop_self=True)
    sigG = Sig(m.method('Panel', 'calc_kG0'), drop_self=True)
    c0 = attr_calls(kt, 'calc_k0')
    cG = attr_calls(kt, 'calc_kG0')
    chk.need(len(c0) == 1 and len(cG) == 1, 'Panel.calc_kT: expected one calc_k0 and one calc_kG0 call')
    b0, p0 = bind(c0[0], sig0)
    bG, pG = bind(cG[0], sigG)
    g0 = {k: norm(v) for k, v in b0.items()}
    gG = {k: norm(v) for k, v in bG.items()}
    common = ['size', 'row0', 'col0', 'finalize', 'c', 'nx', 'ny', 'Fnxny', 'NLgeom']
    ok = not p0 and not pG and all(g0.get(k) == gG.get(k) for k in common) and g0.get('NLgeom') == 'True' and \
        all(g0.get(k) == k for k in common[:-1])
    chk.ob('R08.7', ok, PANEL, 'Panel.calc_kT', 'kL and kG evaluated with the same state, quadrature, laminate table and placement',
           expected={k: k for k in common[:-1]}, got={'calc_k0': g0, 'calc_kG0': gG}, detail='; '.join(p0 + pG),
           sample='calc_kT: calc_k0(%s) + calc_kG0(%s)' % (sorted(g0), sorted(gG)))
    txt = [norm(n) for n in ast.walk(kt) if isinstance(n, ast.Assign)]
    chk.ob('R08.7', 'kT=kL+kG' in txt and 'kL=%s' % norm(c0[0]) in txt and 'kG=%s' % norm(cG[0]) in txt, PANEL, 'Panel.calc_kT', 'kT = kL + kG', got=[t[:30] for t in txt])
    # defaults `p = self.q if p is None else p`: the attribute is the parameter's own namesake
    table = {'nx': 'self.nx', 'ny': 'self.ny', 'Fnxny': {'self.F', 'self._get_lam_F()'}}
    nd = 0
    for meth in ('calc_k0', 'calc_kG0', 'calc_fint', 'lb'):
        fn = m.method('Panel', meth)
        for n in ast.walk(fn):
            if isinstance(n, ast.Assign) and isinstance(n.targets[0], ast.Name) and isinstance(n.value, ast.IfExp):
                v = n.value
                tgt = n.targets[0].id
                t = norm(v.test)
                if t == '%sisNone' % tgt and norm(v.orelse) == tgt and tgt in table:
                    want = table[tgt] if isinstance(table[tgt], set) else {table[tgt]}
                    chk.ob('R08.7', norm(v.body) in want, PANEL, 'Panel.' + meth, 'default of ' + tgt, line=n.lineno,
                           expected='%s defaults to %s' % (tgt, sorted(want)), got=norm(v.body),
                           detail='' if norm(v.body) in want else 'the internal force and the tangent would be integrated with different rules / laminates',
                           sample='Panel.%s: %s defaults to %s' % (meth, tgt, norm(v.body)))
                    nd += 1
    chk.floor('R08.7 default idioms', nd, 6)
    # kernel bindings
    fi = m.method('Panel', 'calc_fint')
    from .symval import Flow
    _fl = Flow(fi)
    _fin = _fl.run()
    # the kernel is looked up by name (getattr(matrices_num, 'calc_fint', None)) and called through a local: whatever the local is called
    calls = [c for c in pyflow.calls_in(fi) if isinstance(c.func, ast.Name) and
             (c.func.id == 'calc_fint' or any("'calc_fint'" in v and 'getattr(' in v for v in _fin.get(c.func.id, ())))]
    chk.need(len(calls) == 1, 'Panel.calc_fint: kernel call vanished')
    for model, rel in NUM_MODELS.items():
        check_binding(chk, 'R08.7', PANEL, fi, 'Panel.calc_fint', calls[0], kernel_sig(rel, 'calc_fint'),
                      {'cs': {'c', 'np.ascontiguousarray(c,dtype=DOUBLE)'}, 'Finput': {'Fnxny', 'self.FifFnxnyisNoneelseFnxny'}, 'panel': 'self', 'size': {'size', 'self.get_size()'},
                       'col0': 'col0', 'nx': {'nx', 'self.nxifnxisNoneelsenx'}, 'ny': {'ny', 'self.nyifnyisNoneelseny'}}, 'calc_fint kernel call vs %s signature' % model)
    k0 = m.method('Panel', 'calc_k0')
    calls = attr_calls(k0, 'fkL_num')
    chk.need(len(calls) == 1, 'Panel.calc_k0: fkL_num call vanished')
    for model, rel in NUM_MODELS.items():
        check_binding(chk, 'R08.7', PANEL, k0, 'Panel.calc_k0', calls[0], kernel_sig(rel, 'fkL_num'),
                      {'cs': {'c', 'np.ascontiguousarray(c,dtype=DOUBLE)'}, 'Finput': {'Fnxny', 'self.FifFnxnyisNoneelseFnxny'}, 'panel': 'self', 'size': 'size', 'row0': 'row0', 'col0': 'col0',
                       'nx': {'nx', 'self.nxifnxisNoneelsenx'}, 'ny': {'ny', 'self.nyifnyisNoneelseny'}, 'NLgeom': 'int(NLgeom)'}, 'fkL_num call vs %s signature' % model)
    # assemblies: tangent and internal force leave the quadrature to the same panel defaults
    am = module('compmech/panel/assembly/assembly.py')
    quad = {}
    for meth, callees in (('calc_kT', ('calc_k0', 'calc_kG0')), ('calc_fint', ('calc_fint',))):
        fn = am.method('PanelAssembly', meth)
        for cal in callees:
            for c in attr_calls(fn, cal):
                quad[(meth, cal)] = sorted((k.arg, norm(k.value)) for k in c.keywords if k.arg in ('nx', 'ny', 'Fnxny'))
    chk.ob('R08.7', len({str(v) for v in quad.values()}) == 1, 'compmech/panel/assembly/assembly.py', 'PanelAssembly.calc_kT/calc_fint',
           'same quadrature and laminate arguments for tangent and internal force', got={str(k): v for k, v in quad.items()},
           sample='assembly kT/fint quadrature kwargs: %s' % sorted({str(v) for v in quad.values()}))


check_finalize_path_uncond = check_finalize_path


# --------------------------------------------------------------------------
# remove_null_cols: the active set is the sparsity structure of the first matrix

NULLCOL_IDIOMS = {
    'np.unique(m.nonzero()[1])': 'column indices of the structurally non-zero entries',
    'np.unique(m.indices)': 'CSR column indices',
    'np.flatnonzero(m.getnnz(axis=0))': 'columns with stored entries',
    'np.where(m.getnnz(axis=0)>0)[0]': 'columns with stored entries',
    'np.nonzero(m.getnnz(axis=0))[0]': 'columns with stored entries',
}


def _null_cols_by_terms(m, fn):
    """remove_null_cols interpreted on the term domain of vcheck/termexec.py for 1, 2 and 3 matrices (every path of the
    undecidable isinstance tests): -> (index-set idiom accepted, same set everywhere and returned last, element k from
    argument k, idiom text, what was returned), or None when the interpreter met a construct it does not model or the
    function looks at the number of matrices (then the three lengths say nothing about a fourth)."""
    from .termexec import Exec, Term, Stop
    for n in ast.walk(fn):
        if isinstance(n, ast.Call) and dotted(n.func) == 'len':
            return None
        if isinstance(n, ast.Constant) and isinstance(n.value, int) and not isinstance(n.value, bool) and abs(n.value) > 1 \
                and not any(isinstance(p, ast.Call) and dotted(p.func) in ('log', 'msg', 'warn') and n in ast.walk(p) for p in ast.walk(fn)):
            return None
    helpers = {k: v for k, v in m.functions.items() if k != fn.name} if hasattr(m, 'functions') else {}
    ex = Exec(fn, helpers=helpers)
    squash = lambda t: t.replace(' ', '')
    ok = ok2 = ok3 = True
    idioms, shown = set(), None
    pats = [re.compile(r'^A(\d)\[(.+),:\]\[:,(.+)\]$'), re.compile(r'^A(\d)\[:,(.+)\]\[(.+),:\]$'), re.compile(r'^A(\d)\[(.+)\]\[:,(.+)\]$')]
    for N in (1, 2, 3):
        args = [Term(ast.Name(id='A%d' % k, ctx=ast.Load())) for k in range(N)]
        for choices, val, tests in ex.results(args, {'silent': Term(ast.Name(id='SILENT', ctx=ast.Load()))}):
            if isinstance(val, Stop) or not isinstance(val, (list, tuple)):
                return None
            items = val if isinstance(val, list) else val[1]
            try:
                texts = [squash(ast.unparse(ex.term(x))) for x in items]
            except Stop:
                return None
            if shown is None or N == 2:
                shown = texts
            if len(texts) != N + 1:
                ok2 = False
                continue
            last = texts[-1]
            idioms.add(last.replace('A0', 'm'))
            for k, t in enumerate(texts[:-1]):
                mt = None
                for pt in pats:
                    mt = mt or pt.match(t)
                if not mt:
                    ok3 = False
                    continue
                if int(mt.group(1)) != k:
                    ok3 = False
                if not (mt.group(2) == mt.group(3) == last):
                    ok2 = False
    idiom = sorted(idioms)[0] if len(idioms) == 1 else None
    ok = idiom in NULLCOL_IDIOMS
    return ok, ok2 and len(idioms) == 1, ok3, idiom or sorted(idioms), shown


def check_remove_null_cols(chk, rule):
    """the index set kept by remove_null_cols is read from the structure of the first matrix (accepted idioms
    enumerated above), never from values (sums cancel, tolerances depend on units); every matrix is reduced by
    that same set in rows and columns - each one built from its own argument - and the set is returned last.
    Decided on flow-sensitive value sets (vcheck/symval.py): temporaries, helper functions, the if/else that skips
    the CSR conversion and the container idiom (overwrite args[i] / build a new list) do not matter."""
    from .symval import Flow, strip_conversions
    m = module('compmech/sparse.py')
    fn = m.function('remove_null_cols')
    tv = _null_cols_by_terms(m, fn)
    if tv is not None:
        ok, ok2, ok3, idiom, shown = tv
        chk.ob(rule, ok, 'compmech/sparse.py', 'remove_null_cols', 'active amplitudes = columns of the first matrix with stored entries',
               expected=sorted(NULLCOL_IDIOMS), got=idiom,
               detail='' if ok else 'an active set computed from values drops columns whose entries cancel or fall under a tolerance (and depends on the units of the matrix)',
               sample='remove_null_cols: used_cols = %s' % idiom)
        chk.ob(rule, ok2, 'compmech/sparse.py', 'remove_null_cols', 'same index set for rows and columns of every matrix, returned last', got=shown)
        chk.ob(rule, ok3, 'compmech/sparse.py', 'remove_null_cols', 'each reduced matrix is built from its own argument', line=fn.lineno,
               expected='element i = (conversion of) the i-th argument sliced by used_cols in rows and columns', got=shown,
               detail='' if ok3 else 'a matrix built from another argument silently replaces the mass / geometric matrix by the stiffness matrix',
               sample='remove_null_cols: element i = ITEM(args)[used,:][:,used]')
        return ok and ok2 and ok3
    fl = Flow(fn)
    fl.run()
    loops = [n for n in ast.walk(fn) if isinstance(n, ast.For)]
    inloop = {id(x) for lp in loops for x in ast.walk(lp)}
    # element values: what is stored at position i / appended inside the loop over the arguments
    elems, containers = set(), set()
    for tgt, vals, node in fl.stores:
        if id(node) in inloop and tgt.endswith('[INDEX]'):
            elems |= {strip_conversions(v).replace(' ', '') for v in vals}
            containers.add(norm(node.value) if isinstance(node, ast.Subscript) else tgt)
    for kind, recv, rvals, args, st in fl.events:
        if id(st) in inloop and kind == 'append' and len(args) == 1:
            elems |= {strip_conversions(v).replace(' ', '') for v in args[0]}
            containers.add(recv.replace(' ', ''))
    pat = re.compile(r'^ITEM\((args)\)\[(.+),:\]\[:,(.+)\]$')
    pat2 = re.compile(r'^ITEM\((args)\)\[:,(.+)\]\[(.+),:\]$')
    used = set()
    ok3 = bool(elems)
    for e in elems:
        mt = pat.match(e) or pat2.match(e)
        if not mt or mt.group(2) != mt.group(3):
            ok3 = False
        else:
            used.add(mt.group(2))
    got = sorted(used)[0] if len(used) == 1 else None
    idiom = got.replace('args[0]', 'm') if got else None
    ok = idiom in NULLCOL_IDIOMS
    chk.ob(rule, ok, 'compmech/sparse.py', 'remove_null_cols', 'active amplitudes = columns of the first matrix with stored entries',
           expected=sorted(NULLCOL_IDIOMS), got=idiom or sorted(used) or sorted(elems)[:3],
           detail='' if ok else 'an active set computed from values drops columns whose entries cancel or fall under a tolerance (and depends on the units of the matrix)',
           sample='remove_null_cols: used_cols = %s' % idiom)
    # the same set appended last to the container that is returned
    tail = [(recv.replace(' ', ''), {strip_conversions(v).replace(' ', '') for v in args[0]}) for kind, recv, rvals, args, st in fl.events if id(st) not in inloop and kind == 'append' and len(args) == 1]
    rets = [norm(r.value) for r in ast.walk(fn) if isinstance(r, ast.Return) and r.value is not None]
    ok2 = len(used) == 1 and len(containers) == 1 and len(tail) == 1 and tail[0][0] in containers and tail[0][1] == used and rets == [tail[0][0]]
    chk.ob(rule, ok2, 'compmech/sparse.py', 'remove_null_cols', 'same index set for rows and columns of every matrix, returned last',
           got={'containers': sorted(containers), 'appended after the loop': [(r, sorted(v)) for r, v in tail], 'returned': rets})
    chk.ob(rule, ok3, 'compmech/sparse.py', 'remove_null_cols', 'each reduced matrix is built from its own argument', line=loops[-1].lineno if loops else 0,
           expected='element i = (conversion of) the i-th argument sliced by used_cols in rows and columns', got=sorted(elems)[:4],
           detail='' if ok3 else 'a matrix built from another argument silently replaces the mass / geometric matrix by the stiffness matrix',
           sample='remove_null_cols: element i = ITEM(args)[used,:][:,used]')
    return ok and ok2 and ok3


def check_unconditional_recompute(chk, rule, rel, cls, meth, floor):
    """every request recomputes the matrices it hands to the solver: the self.calc_* calls of the entry point
    are not guarded by the state of a cached result"""
    m = module(rel)
    fn = m.method(cls, meth)
    n = 0
    for c in pyflow.calls_in(fn):
        if isinstance(c.func, ast.Attribute) and dotted(c.func.value) == 'self' and c.func.attr.startswith('calc_'):
            bad = [norm(t) for t, pol in enclosing_tests(fn, c) if re.search(r'self\.(k0|kM|kG0|kA|cA|kT|k0_conn|fext)(is|==|!=|\b)', norm(t))]
            n += 1
            chk.ob(rule, not bad, rel, '%s.%s' % (cls, meth), 'self.%s recomputed on every request' % c.func.attr, line=c.lineno,
                   expected='not guarded by a test on a cached matrix', got=bad,
                   detail='' if not bad else 'a second request after the definition changed (density, thickness, loads) reuses the stale matrix',
                   sample='%s.%s: self.%s() unconditional w.r.t. cached results' % (cls, meth, c.func.attr))
    chk.floor('%s calc calls of %s.%s' % (rule, cls, meth), n, floor)


def check_conn_cache(chk, rule):
    """PanelAssembly.get_k0_conn caches whatever it builds; the cache is what calc_k0, calc_kT and calc_fint add.
    It therefore has to hold the finalized (symmetric) matrix: inside the class get_k0_conn is never asked for the
    raw upper triangle (no finalize argument other than a literal True)"""
    rel = 'compmech/panel/assembly/assembly.py'
    m = module(rel)
    n = 0
    for name, fn in m.classes['PanelAssembly'].items():
        for c in pyflow.calls_in(fn):
            if isinstance(c.func, ast.Attribute) and c.func.attr == 'get_k0_conn' and dotted(c.func.value) == 'self':
                mp, probs = bind(c, Sig(m.method('PanelAssembly', 'get_k0_conn'), drop_self=True))
                fz = mp.get('finalize')
                ok = fz is None or (isinstance(fz, ast.Constant) and fz.value is True)
                n += 1
                chk.ob(rule, ok and not probs, rel, 'PanelAssembly.' + name, 'connection matrix requested finalized', line=c.lineno,
                       expected='self.get_k0_conn(conn=conn) (finalize left at its default True)', got=norm(c),
                       detail='' if ok else 'get_k0_conn stores its result in self.k0_conn whatever the flag: after one raw request every later calc_kT / calc_fint / calc_k0 adds the upper triangle only',
                       sample='PanelAssembly.%s: %s' % (name, norm(c)))
    chk.floor(rule + ' get_k0_conn call sites', n, 2)
    # ... and what get_k0_conn stores in the cache is the finalized matrix
    check_finalize_path(chk, rule, rel, 'PanelAssembly', 'get_k0_conn', 'k0_conn')


def check_assembly_fint_accumulator(chk, rule):
    """the numeric kernels return their internal-force vector as a typed memoryview and Panel.calc_fint hands it on
    unwrapped; a memoryview supports no arithmetic of its own, so whoever sums panel vectors must start from an
    ndarray (ndarray += memoryview is fine, 0 + memoryview is a TypeError)"""
    from .panelk import NUM_MODELS
    mv = []
    for model, rel in NUM_MODELS.items():
        src = pyxast.parse(repo_path(rel), REPO).src
        if re.search(r'cdef\s+double\s*\[\s*:\s*\][^\n]*\bfint\b', src) and re.search(r'^\s*return\s+fint\s*$', src, re.M):
            mv.append(model)
    pm = module(PANEL)
    pf = pm.method('Panel', 'calc_fint')
    rets = [norm(n.value) for n in ast.walk(pf) if isinstance(n, ast.Return) and n.value is not None]
    defs = local_defs(pf)
    wrapped = all(re.match(r'^np\.(asarray|array|ascontiguousarray)\(', norm(v)) for v in defs.get('fint', []) if v is not None) if defs.get('fint') else False
    passthrough = rets == ['fint'] and not wrapped
    rel = 'compmech/panel/assembly/assembly.py'
    am = module(rel)
    af = am.method('PanelAssembly', 'calc_fint')
    init = [n for n in af.body if isinstance(n, ast.Assign) and norm(n.targets[0]) == 'fint']
    got = norm(init[0].value) if init else None
    nd = bool(init) and re.match(r'^np\.(zeros|zeros_like|empty|array)\(', got or '') is not None
    ok = nd or not (mv and passthrough)
    chk.ob(rule, ok, rel, 'PanelAssembly.calc_fint', 'accumulator of the panel internal-force vectors is an ndarray', line=init[0].lineno if init else 0,
           expected='fint = np.zeros(size, ...) before `fint += p.calc_fint(...)` (the panels return typed memoryviews: %s)' % mv, got='fint = %s' % got,
           detail='' if ok else 'int 0 += memoryview raises TypeError: PanelAssembly.calc_fint fails for every input',
           sample='PanelAssembly.calc_fint: fint = %s, then += per panel' % got)


def check_forwarding(chk, rule, rel, cls, param, methods=None, floor=1, why=''):
    """a method of ``cls`` that receives ``param`` and calls another method of the class whose signature has the
    same parameter hands its own value on (the callee's default would silently evaluate another state)"""
    m = module(rel)
    klass = m.classes[cls]
    n = 0
    for name, fn in klass.items():
        if methods is not None and name not in methods:
            continue
        if param not in [a.arg for a in fn.args.args]:
            continue
        for c in pyflow.calls_in(fn):
            if isinstance(c.func, ast.Attribute) and dotted(c.func.value) == 'self' and c.func.attr in klass:
                callee = klass[c.func.attr]
                if param not in [a.arg for a in callee.args.args]:
                    continue
                mp, probs = bind(c, Sig(callee, drop_self=True))
                v = mp.get(param)
                ok = v is not None and any(isinstance(x, ast.Name) and x.id == param for x in ast.walk(v)) and not probs
                n += 1
                chk.ob(rule, ok, rel, '%s.%s' % (cls, name), '%s forwarded to self.%s #%d' % (param, c.func.attr, sum(1 for c2 in pyflow.calls_in(fn) if isinstance(c2.func, ast.Attribute) and c2.func.attr == c.func.attr and c2.lineno <= c.lineno)),
                       line=c.lineno, expected='self.%s(..., %s=%s)' % (c.func.attr, param, param), got=norm(c)[:100],
                       detail='' if ok else ('the callee falls back to its default %s' % param) + (': ' + why if why else ''),
                       sample='%s.%s -> self.%s(%s=%s)' % (cls, name, c.func.attr, param, norm(v) if v is not None else None))
    chk.floor('%s %s forwarding call sites' % (rule, param), n, floor)


def check_derive_order(chk, rule, rel, cls, meth, floor=1, only=None):
    """inside a rebuild routine a derived quantity - ``self.X = f(other attributes)`` assigned unconditionally at the
    top level of the routine - is not read by an earlier statement of the same routine (that read sees the value the
    previous rebuild left behind: a changed definition takes effect one request late)"""
    m = module(rel)
    fn = m.method(cls, meth)
    fname = '%s.%s' % (cls, meth)
    n = 0
    for k, st in enumerate(fn.body):
        if not isinstance(st, ast.Assign):
            continue
        for t in st.targets:
            if not (isinstance(t, ast.Attribute) and dotted(t.value) == 'self'):
                continue
            x = t.attr
            if only is not None and x not in only:
                continue
            if any(isinstance(y, ast.Attribute) and dotted(y.value) == 'self' and y.attr == x for y in ast.walk(st.value)):
                continue
            if not any(isinstance(y, ast.Attribute) and dotted(y.value) == 'self' for y in ast.walk(st.value)):
                continue
            early = [y for prev in fn.body[:k] for y in ast.walk(prev)
                     if isinstance(y, ast.Attribute) and dotted(y.value) == 'self' and y.attr == x and isinstance(y.ctx, ast.Load)]
            n += 1
            chk.ob(rule, not early, rel, fname, 'derived self.%s assigned before it is read' % x, line=st.lineno,
                   expected='no statement of %s before line %d reads self.%s' % (fname, st.lineno, x), got=['line %d' % y.lineno for y in early],
                   detail='' if not early else 'the read at line %d uses the self.%s of the previous rebuild; after the definition changes, the quantities derived from it disagree with each other' % (early[0].lineno, x),
                   sample='%s: self.%s = %s precedes all its reads' % (fname, x, norm(st.value)[:50]))
    chk.floor('%s derived quantities of %s' % (rule, fname), n, floor)


def check_one_laminate_matrix(chk, rule):
    """the analytic kernels (fk0, fkG0, ...) read the laminate matrix from panel.lam.ABD, the numeric ones (fkL_num,
    fkG_num, calc_fint) receive what Panel._get_lam_F returns.  _get_lam_F edits its matrix in place (forced
    orthotropy, shear correction): the two families see the same numbers only while it edits the laminate's own
    array, i.e. F is bound to self.lam.ABD / self.lam.ABDE itself and not to a copy"""
    readers = []
    for rel in sorted(pyxast.built_sources(REPO)):
        if not rel.startswith('compmech/panel/models/') or rel.endswith('_num.pyx'):
            continue
        src = pyxast.parse(repo_path(rel), REPO).src
        for mt in re.finditer(r'^\s*F\s*=\s*panel\.lam\.(\w+)\s*$', src, re.M):
            readers.append((rel, mt.group(1)))
    m = module(PANEL)
    fn = m.method('Panel', '_get_lam_F')
    stores = [n for n in ast.walk(fn) if isinstance(n, (ast.Assign, ast.AugAssign)) and
              isinstance(n.targets[0] if isinstance(n, ast.Assign) else n.target, ast.Subscript) and
              norm((n.targets[0] if isinstance(n, ast.Assign) else n.target).value) == 'F']
    defs = [n for n in ast.walk(fn) if isinstance(n, ast.Assign) and norm(n.targets[0]) == 'F']
    chk.need(defs, 'Panel._get_lam_F: no definition of F found')
    for d in defs:
        alias = isinstance(d.value, ast.Attribute) and norm(d.value) in ('self.lam.ABD', 'self.lam.ABDE')
        ok = alias or not stores or not readers
        chk.ob(rule, ok, PANEL, 'Panel._get_lam_F', 'F = %s is the laminate\'s own array' % norm(d.value)[:40], line=d.lineno,
               expected='F bound to self.lam.ABD / self.lam.ABDE itself (the %d in-place edits that follow must reach the array that %d analytic kernels read as panel.lam.ABD)' % (len(stores), len(readers)),
               got=norm(d.value),
               detail='' if ok else 'with force_orthotropic_laminate (or the shear correction) the numeric kernels get the edited copy while fk0 keeps the unedited laminate: kT(0) != K0 and fint does not reduce to K0.c',
               sample='_get_lam_F: F = %s (alias), %d in-place edits, %d analytic readers of panel.lam.ABD' % (norm(d.value), len(stores), len(readers)))
    chk.floor(rule + ' analytic kernels reading panel.lam.ABD', len(readers), 6)


class TextAlt(str):
    """text of a bound argument that also compares equal to its form with single-definition locals substituted
    (`col0` where `col0 = p.col_start` is equal to both 'col0' and 'p.col_start')"""
    def __new__(cls, plain, resolved):
        o = str.__new__(cls, plain)
        o.alt = resolved
        return o

    def __eq__(self, other):
        return str.__eq__(self, other) or (isinstance(other, str) and self.alt == str(other))

    def __ne__(self, other):
        return not self.__eq__(other)

    def __hash__(self):
        return str.__hash__(self)


def unrolled(fn):
    """a copy of fn in which every loop over a literal sequence / range(<literal>) / enumerate or zip of literals is written out
    (vcheck/equiv.py unroll, substitution mode only: the elements are stable in the loop body); rules about per-index tables look at
    this view, so it does not matter whether the table is written as six lines or as a loop"""
    import copy
    from . import equiv
    f = copy.deepcopy(fn)
    nz = equiv.Normalizer(f, {})

    def walk(stmts):
        out = []
        for st in stmts:
            for fld in ('body', 'orelse', 'finalbody'):
                b = getattr(st, fld, None)
                if isinstance(b, list) and b and isinstance(b[0], ast.stmt) and not isinstance(st, (ast.FunctionDef, ast.ClassDef)):
                    setattr(st, fld, walk(b))
            if isinstance(st, ast.Try):
                for h in st.handlers:
                    h.body = walk(h.body)
            if isinstance(st, ast.For):
                try:
                    un = nz.unroll(st)
                except Exception:
                    un = None
                if un is not None and not any(isinstance(x, ast.Assign) and isinstance(x.targets[0], ast.Name) and x.targets[0].id.startswith('seq__u') for x in un):
                    for x in un:
                        for y in ast.walk(x):
                            if isinstance(y, (ast.stmt, ast.expr)) and not hasattr(y, 'lineno'):
                                y.lineno = y.end_lineno = st.lineno
                                y.col_offset = y.end_col_offset = 0
                    out += un
                    continue
            out.append(st)
        return out
    saved = equiv._KERNEL_ALIASES
    equiv._KERNEL_ALIASES = equiv.find_kernel_aliases(f)
    try:
        f.body = walk(f.body)
    finally:
        equiv._KERNEL_ALIASES = saved
    ast.fix_missing_locations(f)
    return f


def bound_texts(fn, mp):
    defs = local_defs(fn)
    return {p_: TextAlt(norm(a), resolve(fn, a, defs)) for p_, a in mp.items()}


# --------------------------------------------------------------------------
# geometry closure of ConeCyl._rebuild on every call, not only the first (sixth wave, C16_w6A)


def check_geometry_closure(chk, rule, rel='compmech/conecyl/conecyl.py', cls='ConeCyl', meth='_rebuild'):
    """r1, r2, L and sin(alpha) all reach the kernels.  Whatever the truthiness of (r1, r2, L, H) on entry -- first call
    with one radius given, or a later call on an object whose derived radius is already set -- every path through
    _rebuild that does not raise must execute, after the store of self.sina, one of the two closure stores
    self.r1 = self.r2 + self.L*self.sina / self.r2 = self.r1 - self.L*self.sina (their right-hand sides are decided
    by R18.4).  A compute-once guard (`elif not self.r1`) leaves r1 at the value of the previous angle / length.
    Decided by a syntax-directed walk of the method over the finite domain truthiness(r1, r2, L, H) x flags."""
    m = module(rel)
    fn = m.method(cls, meth)
    ATTRS = ('r1', 'r2', 'L', 'H')

    def truth(test, st):
        """-> True / False / None under the truthiness facts st (dict attr -> bool)"""
        if isinstance(test, ast.UnaryOp) and isinstance(test.op, ast.Not):
            v = truth(test.operand, st)
            return None if v is None else (not v)
        if isinstance(test, ast.BoolOp):
            vals = [truth(v, st) for v in test.values]
            if isinstance(test.op, ast.And):
                if any(v is False for v in vals):
                    return False
                return True if all(v is True for v in vals) else None
            if any(v is True for v in vals):
                return True
            return False if all(v is False for v in vals) else None
        d = dotted(test)
        if d and d.startswith('self.') and d[5:] in ATTRS:
            return st[d[5:]]
        if isinstance(test, ast.Compare) and len(test.ops) == 1 and isinstance(test.comparators[0], ast.Constant) \
                and test.comparators[0].value is None:
            d = dotted(test.left)
            if d and d.startswith('self.') and d[5:] in ATTRS and st[d[5:]]:
                return isinstance(test.ops[0], ast.IsNot)       # truthy => not None
        return None

    def freeze(st):
        return tuple(sorted(st.items()))

    def block(stmts, states):
        """states: set of frozen states -> set of frozen states that fall through; raising / returning paths are collected"""
        cur = set(states)
        for s in stmts:
            nxt = set()
            for fs in cur:
                nxt |= stmt(s, dict(fs))
            cur = nxt
        return cur

    exits = set()

    def stmt(s, st):
        if isinstance(s, ast.Raise):
            return set()
        if isinstance(s, ast.Return):
            exits.add(freeze(st))
            return set()
        if isinstance(s, ast.If):
            t = truth(s.test, st)
            out = set()
            if t is not False:
                out |= block(s.body, {freeze(st)})
            if t is not True:
                out |= block(s.orelse, {freeze(st)})
            return out
        if isinstance(s, (ast.For, ast.While)):
            once = block(s.body, {freeze(st)})
            twice = block(s.body, once) if once else set()
            return {freeze(st)} | once | twice | block(s.orelse, {freeze(st)})
        if isinstance(s, ast.Try):
            out = block(s.body, {freeze(st)})
            for h in s.handlers:
                out |= block(h.body, {freeze(st)})
            return block(s.finalbody, out) if s.finalbody else out
        if isinstance(s, ast.With):
            return block(s.body, {freeze(st)})
        if isinstance(s, (ast.Assign, ast.AugAssign)):
            tgts = s.targets if isinstance(s, ast.Assign) else [s.target]
            for t in tgts:
                d = dotted(t)
                if d == 'self.sina':
                    st['sina'] = True
                    st['closed'] = False
                elif d in ('self.r1', 'self.r2'):
                    txt = norm(s.value) if isinstance(s, ast.Assign) else ''
                    other = 'self.r2' if d == 'self.r1' else 'self.r1'
                    if other in txt and 'self.sina' in txt and 'self.L' in txt:
                        st['closed'] = bool(st['sina'])
                        st[d[5:]] = True
                    else:
                        st['closed'] = False
                        st[d[5:]] = True if not (isinstance(s.value, ast.Constant) and not s.value.value) else False
                elif d in ('self.L', 'self.H'):
                    st[d[5:]] = True
                    if d == 'self.L':
                        st['closed'] = False
        return {freeze(st)}

    nstates = 0
    bad = []
    for bits in range(16):
        st = {a: bool(bits >> k & 1) for k, a in enumerate(ATTRS)}
        st['sina'] = False
        st['closed'] = False
        entry = dict(st)
        exits.clear()
        done = block(fn.body, {freeze(st)}) | set(exits)
        nstates += 1
        for fs in done:
            if not dict(fs)['closed']:
                bad.append(', '.join('%s %s' % (a, 'set' if entry[a] else 'unset') for a in ATTRS))
                break
    chk.floor(rule + ' entry states of %s.%s' % (cls, meth), nstates, 16)
    chk.ob(rule, not bad, rel, '%s.%s' % (cls, meth), 'r1 = r2 + L sin(alpha) re-established on every call', line=fn.lineno,
           expected='a closure store of self.r1 or self.r2 after the store of self.sina on every non-raising path, for every truthiness of (r1, r2, L, H) on entry',
           got=('no closure store on a path entered with ' + '; or with '.join(bad[:3])) if bad else 'ok',
           detail='' if not bad else 'an object that was rebuilt once keeps the derived radius of the previous angle / length: k0 (edge terms use r1), kG0 and the '
                                     'loads are computed for a geometry that is not the one defined now, and differ from those of a fresh object with the same definition',
           sample='%s.%s: 16 entry states, closure store on every non-raising path' % (cls, meth))


# --------------------------------------------------------------------------
# no compute-once guard on derived state (seventh wave: C20_w7A, C17_w7A, C18_w7A)

# (class, attribute): stores of self.<attribute> that are control-dependent on a test reading self.<attribute> itself, as
# confirmed by reading the pinned tree.  All of them fill in a default for, or normalise, an attribute of the user-facing
# definition that the user left unset / gave in another form; none caches a quantity derived from other definition attributes
# that can be edited later -- except MLA (see DESIGN 9.10: candidate, not examined further).
SELF_GUARDED_OK = {
    ('ConeCyl', 'H'): 'alternative definition H | L | (r1, r2)',
    ('ConeCyl', 'L'): 'alternative definition H | L',
    ('ConeCyl', 'r2'): 'alternative definition r1 | r2 (refresh of the other radius: R16.9)',
    ('ConeCyl', 'laminaprops'): 'default: one laminaprop for every ply',
    ('ConeCyl', 'plyts'): 'default: one plyt for every ply',
    ('ConeCyl', 'Nxxtop'): 'normalisation of a scalar / missing load definition to the coefficient vector',
    ('ConeCyl', 'MLA'): 'alternative definition MLA | xiLA (computed once from xiLA*Fc; candidate staleness, DESIGN 9.10)',
    ('ConeCyl', 'Fc'): 'default reference load of lb / eigen when no load is defined (R05.7)',
    ('ConeCyl', 'pdC'): 'default of an unset flag',
    ('StiffPanelBay', 'model'): 'default taken from the first panel',
    ('StiffPanelBay', 'Mach'): 'regularisation of Mach <= 1 (R19.3)',
    ('Panel', 'model'): 'default model by geometry',
    ('Panel', 'laminaprops'): 'default: one laminaprop for every ply',
    ('Panel', 'plyts'): 'default: one plyt for every ply',
    ('Panel', 'Mach'): 'regularisation of Mach <= 1 (R19.3)',
    ('MatLamina', 'nu21'): 'reciprocal relation fills the Poisson ratio that was not given',
    ('MatLamina', 'nu12'): 'reciprocal relation fills the Poisson ratio that was not given',
}


def check_no_compute_once(chk, rule):
    """A store self.X = <expression that reads something> that only runs when a test *reading self.X itself* allows it is a
    compute-once cache: after the first call X is not refreshed when the attributes its right-hand side reads are edited,
    so the next result depends on the call history (and differs from that of a fresh object with the same definition).
    Every such store in the package must be one of the confirmed default-filling instances of SELF_GUARDED_OK."""
    root = repo_path('compmech')
    found = {}
    bad = []
    nfiles = 0
    for dp, dn, fns in os.walk(root):
        if os.sep + 'tests' in dp:
            continue
        for f in sorted(fns):
            if not f.endswith('.py'):
                continue
            path = os.path.join(dp, f)
            rel = os.path.relpath(path, REPO)
            try:
                tree = ast.parse(open(path, encoding='utf-8', errors='replace').read())
            except SyntaxError:
                continue
            nfiles += 1
            for cls in [n for n in ast.walk(tree) if isinstance(n, ast.ClassDef)]:
                for fn in [n for n in cls.body if isinstance(n, ast.FunctionDef)]:
                    def walk(stmts, tests):
                        for s in stmts:
                            if isinstance(s, ast.If):
                                walk(s.body, tests + [s.test])
                                walk(s.orelse, tests + [s.test])
                            elif isinstance(s, (ast.For, ast.While, ast.With, ast.Try)):
                                for fld in ('body', 'orelse', 'finalbody'):
                                    walk(getattr(s, fld, None) or [], tests)
                                for h in getattr(s, 'handlers', []):
                                    walk(h.body, tests)
                            elif isinstance(s, ast.Assign):
                                if isinstance(s.value, ast.Constant):
                                    continue
                                for tg in s.targets:
                                    if isinstance(tg, ast.Attribute) and isinstance(tg.value, ast.Name) and tg.value.id == 'self':
                                        for te in tests:
                                            reads = {a.attr for a in ast.walk(te) if isinstance(a, ast.Attribute)
                                                     and isinstance(a.value, ast.Name) and a.value.id == 'self'}
                                            if tg.attr in reads:
                                                key = (cls.name, tg.attr)
                                                found[key] = found.get(key, 0) + 1
                                                if key not in SELF_GUARDED_OK:
                                                    bad.append((rel, '%s.%s' % (cls.name, fn.name), s.lineno, tg.attr, norm(te)[:80], norm(s.value)[:60]))
                                                break
                    walk(fn.body, [])
    chk.floor(rule + ' confirmed default-filling stores found', len([k for k in found if k in SELF_GUARDED_OK]), 12)
    chk.ob(rule, True, 'compmech', '', 'self-guarded stores inventoried', sample='%d files, %d self-guarded attribute stores, %d confirmed kinds' % (nfiles, sum(found.values()), len(SELF_GUARDED_OK)))
    seen = set()
    for rel, func, line, attr, test, rhs in bad:
        if (func, attr) in seen:
            continue
        seen.add((func, attr))
        chk.ob(rule, False, rel, func, 'compute-once guard on self.' + attr, line=line,
               expected='self.%s re-derived on every call (or guarded by a test that does not read self.%s)' % (attr, attr),
               got='self.%s = %s only if %s' % (attr, rhs, test),
               detail='self.%s is kept from an earlier call when the attributes its right-hand side reads were edited in between: the next result '
                      'depends on the call history and differs from that of a freshly defined object' % attr)
