"""E6 - Python orchestration analysis: module/class tables, call binding,
statement CFG with reachability ("must pass through") queries, attribute
read/write sets."""
import ast
import os

from .report import repo_path, REPO, AnalysisError


class Module:
    def __init__(self, rel):
        self.rel = rel
        self.path = repo_path(rel)
        if not os.path.exists(self.path):
            raise AnalysisError('anchor file missing: ' + rel)
        self.src = open(self.path, encoding='utf-8', errors='replace').read()
        try:
            self.tree = ast.parse(self.src, filename=self.path)
        except SyntaxError as e:
            raise AnalysisError('cannot parse %s: %s' % (rel, e))
        self.classes = {}
        self.functions = {}
        self.raw_classes = {}
        self.raw_functions = {}
        for st in self.tree.body:
            if isinstance(st, ast.ClassDef):
                self.raw_classes[st.name] = {m.name: m for m in st.body if isinstance(m, ast.FunctionDef)}
            elif isinstance(st, ast.FunctionDef):
                self.raw_functions[st.name] = st
        # helpers that did not exist when the rules were confirmed (vcheck/inventory.json) are inlined into their callers
        from . import inline
        try:
            self.functions, self.classes, self.inlined = inline.expand_module(self.tree, rel)
        except Exception as e:      # the inliner must never decide a verdict: fall back to the functions as written
            self.functions, self.classes, self.inlined = dict(self.raw_functions), {k: dict(v) for k, v in self.raw_classes.items()}, []
            self.inline_error = '%s: %s' % (type(e).__name__, e)
        # translation validation (vcheck/equiv.py): a function that differs from the version the rules were confirmed on
        # but is PROVED equivalent to it is analysed through that confirmed version
        self.substituted = {}
        self.unproved = {}
        if os.environ.get('VERIF_NO_EQUIV') != '1':
            try:
                self._validate_against_reference()
            except Exception as e:
                self.equiv_error = '%s: %s' % (type(e).__name__, e)

    def _validate_against_reference(self):
        from . import inline, equiv
        refp = os.path.join(os.path.dirname(os.path.abspath(__file__)), 'reference', self.rel + '.ref')
        if not os.path.exists(refp):
            return
        ref_src = open(refp, encoding='utf-8', errors='replace').read()
        if ref_src == self.src:
            return
        ref_tree = ast.parse(ref_src)
        ref_funcs = {st.name: st for st in ref_tree.body if isinstance(st, ast.FunctionDef)}
        ref_classes = {st.name: {m.name: m for m in st.body if isinstance(m, ast.FunctionDef)} for st in ref_tree.body if isinstance(st, ast.ClassDef)}
        cur_exp = inline.Expander(self.tree, self.rel)
        ref_exp = inline.Expander(ref_tree, self.rel)
        extra = equiv_global_sigs()
        todo = [(None, n, f, ref_funcs.get(n)) for n, f in self.raw_functions.items()]
        for c, ms in self.raw_classes.items():
            todo += [(c, n, f, ref_classes.get(c, {}).get(n)) for n, f in ms.items()]
        for cls, name, cur, ref in todo:
            if ref is None or ast.dump(cur) == ast.dump(ref):
                continue
            q = (cls + '.' if cls else '') + name
            cur_sig = equiv.build_sigdb(self.raw_functions, self.raw_classes, cls, extra)
            ref_sig = equiv.build_sigdb(ref_funcs, ref_classes, cls, extra)
            for tree_, sig_ in ((self.tree, cur_sig), (ref_tree, ref_sig)):
                for nm_, val_ in module_constants(tree_).items():
                    sig_[('modconst', nm_)] = val_
            if cls and ('rebuild', cls) in cur_sig:
                cur_sig[('rebuild', cls)] = cur_exp.expand(cur_sig[('rebuild', cls)], cls=cls)
            ok, ta, tb = equiv.equivalent(cur, ref, cur_exp, ref_exp, cls, cur_sig, ref_sig)
            if ok:
                self.substituted[q] = ref
                if cls:
                    self.classes[cls][name] = ref
                else:
                    self.functions[name] = ref
            else:
                self.unproved[q] = (ta, tb)
                try:
                    tgt0 = self.classes[cls][name] if cls else self.functions[name]
                    present(tgt0)
                    present_tables(tgt0, cur_sig, ref)
                except Exception:
                    pass
                # not proved: the rules look at the current version.  Branch polarity is brought to the spelling the confirmed
                # version uses (`if not NLgeom: A else: B` -> `if NLgeom: B else: A` when the confirmed version tests `NLgeom`)
                try:
                    tgt = self.classes[cls][name] if cls else self.functions[name]
                    ref_tests = {ast.dump(equiv.canon_test(n.test)) for n in ast.walk(ref) if isinstance(n, (ast.If, ast.IfExp))}
                    for n in ast.walk(tgt):
                        if isinstance(n, ast.If) and n.orelse:
                            t1 = ast.dump(equiv.canon_test(n.test))
                            neg = equiv.canon_test(equiv.negate(n.test))
                            if t1 not in ref_tests and ast.dump(neg) in ref_tests:
                                n.test, n.body, n.orelse = ast.copy_location(neg, n.test), n.orelse, n.body
                                ast.fix_missing_locations(n)
                except Exception:
                    pass

    def method(self, cls, name):
        m = self.classes.get(cls, {}).get(name)
        if m is None:
            raise AnalysisError('anchor vanished: %s.%s in %s' % (cls, name, self.rel))
        return m

    def function(self, name):
        f = self.functions.get(name)
        if f is None:
            raise AnalysisError('anchor vanished: %s in %s' % (name, self.rel))
        return f


_mods = {}
_gsigs = None


def present(fn):
    """local, semantics-preserving rewrites applied to a changed function before the rules look at it (spelling only):
    f(*t) / f(**d) with t / d a tuple / dict literal bound once in the function -> the arguments written out;
    a = b = v -> a = v; b = v  (v a name or constant)"""
    single = {}
    counts = {}
    for n in ast.walk(fn):
        if isinstance(n, ast.Name) and isinstance(n.ctx, ast.Store):
            counts[n.id] = counts.get(n.id, 0) + 1
    for n in ast.walk(fn):
        if isinstance(n, ast.Assign) and len(n.targets) == 1 and isinstance(n.targets[0], ast.Name) and counts.get(n.targets[0].id) == 1:
            single[n.targets[0].id] = n.value

    def lit_seq(v, depth=0):
        if isinstance(v, ast.Name) and v.id in single and depth < 3:
            return lit_seq(single[v.id], depth + 1)
        if isinstance(v, (ast.Tuple, ast.List)) and not any(isinstance(e, ast.Starred) for e in v.elts):
            return list(v.elts)
        if isinstance(v, ast.BinOp) and isinstance(v.op, ast.Add):
            a, b = lit_seq(v.left, depth + 1), lit_seq(v.right, depth + 1)
            return a + b if a is not None and b is not None else None
        return None

    def lit_map(v, depth=0):
        if isinstance(v, ast.Name) and v.id in single and depth < 3:
            return lit_map(single[v.id], depth + 1)
        if isinstance(v, ast.Dict) and all(isinstance(k, ast.Constant) and isinstance(k.value, str) for k in v.keys):
            return [(k.value, x) for k, x in zip(v.keys, v.values)]
        if isinstance(v, ast.Call) and dotted(v.func) == 'dict' and not v.args and all(k.arg for k in v.keywords):
            return [(k.arg, k.value) for k in v.keywords]
        return None
    import copy as _copy
    for c in [n for n in ast.walk(fn) if isinstance(n, ast.Call)]:
        if any(isinstance(a, ast.Starred) for a in c.args):
            new, ok = [], True
            for a in c.args:
                if isinstance(a, ast.Starred):
                    seq = lit_seq(a.value)
                    if seq is None:
                        ok = False
                        break
                    new += [_copy.deepcopy(e) for e in seq]
                else:
                    new.append(a)
            if ok:
                c.args = new
        if any(k.arg is None for k in c.keywords):
            new, ok = [], True
            for k in c.keywords:
                if k.arg is None:
                    mp = lit_map(k.value)
                    if mp is None:
                        ok = False
                        break
                    new += [ast.keyword(arg=a, value=_copy.deepcopy(x)) for a, x in mp]
                else:
                    new.append(k)
            if ok and len({k.arg for k in new}) == len(new):
                c.keywords = new

    def split_blocks(stmts):
        out = []
        for st in stmts:
            for f in ('body', 'orelse', 'finalbody'):
                b = getattr(st, f, None)
                if isinstance(b, list) and b and isinstance(b[0], ast.stmt) and not isinstance(st, (ast.FunctionDef, ast.ClassDef)):
                    setattr(st, f, split_blocks(b))
            if isinstance(st, ast.Try):
                for h in st.handlers:
                    h.body = split_blocks(h.body)
            if isinstance(st, ast.Assign) and len(st.targets) > 1 and isinstance(st.value, (ast.Name, ast.Constant)):
                for t in st.targets:
                    out.append(ast.copy_location(ast.Assign(targets=[t], value=_copy.deepcopy(st.value)), st))
            else:
                out.append(st)
        return out
    fn.body = split_blocks(fn.body)
    ast.fix_missing_locations(fn)


def module_constants(tree):
    """module-level NAME = <literal tuple / dict of constants, possibly naming other such constants>, NAME bound once in the module:
    -> {NAME: literal with the inner names written out}.  Rows built with a module-level namedtuple type (T = namedtuple('T', 'a b');
    TABLE = (T(1, 2), ...)) are written record__(a=1, b=2): vcheck/equiv.py reads `.a` / `[0]` of such a record."""
    import copy as _copy

    def bound_once(nm):
        return sum(1 for z in ast.walk(tree) if isinstance(z, ast.Name) and z.id == nm and isinstance(z.ctx, (ast.Store, ast.Del))) == 1
    ntypes = {}
    for st in tree.body:
        if isinstance(st, ast.Assign) and len(st.targets) == 1 and isinstance(st.targets[0], ast.Name) and isinstance(st.value, ast.Call) \
                and dotted(st.value.func) in ('namedtuple', 'collections.namedtuple') and len(st.value.args) == 2 and not st.value.keywords and bound_once(st.targets[0].id):
            f = st.value.args[1]
            fields = None
            if isinstance(f, ast.Constant) and isinstance(f.value, str):
                fields = f.value.replace(',', ' ').split()
            elif isinstance(f, (ast.Tuple, ast.List)) and all(isinstance(e, ast.Constant) and isinstance(e.value, str) for e in f.elts):
                fields = [e.value for e in f.elts]
            if fields and all(x.isidentifier() for x in fields) and len(set(fields)) == len(fields):
                ntypes[st.targets[0].id] = fields

    def literalish(v):
        for x in ast.walk(v):
            if isinstance(x, ast.Call):
                if not (isinstance(x.func, ast.Name) and x.func.id in ntypes and not any(isinstance(a_, ast.Starred) for a_ in x.args) and all(k.arg for k in x.keywords)):
                    return False
            elif not isinstance(x, (ast.Dict, ast.Tuple, ast.Constant, ast.Name, ast.expr_context, ast.keyword)):
                return False
        return True
    cand = {}
    for st in tree.body:
        if isinstance(st, ast.Assign) and len(st.targets) == 1 and isinstance(st.targets[0], ast.Name) and isinstance(st.value, (ast.Dict, ast.Tuple)) and literalish(st.value):
            nm = st.targets[0].id
            if bound_once(nm):
                cand[nm] = st.value

    def records(v):
        class RC(ast.NodeTransformer):
            def visit_Call(self, n):
                self.generic_visit(n)
                fields = ntypes[n.func.id]
                kws = {}
                if len(n.args) > len(fields):
                    raise ValueError('too many fields')
                for f_, a_ in zip(fields, n.args):
                    kws[f_] = a_
                for k in n.keywords:
                    if k.arg in kws or k.arg not in fields:
                        raise ValueError('bad field')
                    kws[k.arg] = k.value
                if set(kws) != set(fields):
                    raise ValueError('missing field')
                return ast.Call(func=ast.Name(id='record__', ctx=ast.Load()), args=[], keywords=[ast.keyword(arg=f_, value=kws[f_]) for f_ in fields])
        return RC().visit(_copy.deepcopy(v))
    for k in list(cand):
        try:
            cand[k] = records(cand[k])
        except Exception:
            del cand[k]

    def inner_names(v):
        return {x.id for x in ast.walk(v) if isinstance(x, ast.Name) and x.id != 'record__'}
    done = {k: v for k, v in cand.items() if not inner_names(v)}
    for _ in range(4):
        for k, v in cand.items():
            if k in done:
                continue
            if inner_names(v) <= set(done):
                class R(ast.NodeTransformer):
                    def visit_Name(self, n):
                        return _copy.deepcopy(done[n.id]) if n.id in done else n
                done[k] = R().visit(_copy.deepcopy(v))
    return done


def present_tables(fn, sigdb, ref=None):
    """more spelling-only rewrites for a changed function the prover could not match: a loop over a literal table (or a module
    constant that is one) is unrolled - including the search loop `for row in TABLE: if key == row[0]: ...; break` -, and
    getattr(obj, 'name') is written obj.name.  Names and statement kinds are kept, so the rules see the if / elif chain again."""
    import copy as _copy
    from . import equiv, inline
    nz = equiv.Normalizer(fn, sigdb)

    def const_iter(it):
        if isinstance(it, ast.Name) and ('modconst', it.id) in sigdb and not any(
                isinstance(n, ast.Name) and n.id == it.id and isinstance(n.ctx, ast.Store) for n in ast.walk(fn)):
            v = sigdb[('modconst', it.id)]
            if isinstance(v, ast.Dict):
                return None
            return _copy.deepcopy(v)
        if isinstance(it, ast.Call) and dotted(it.func) in ('enumerate',) and len(it.args) == 1 and not it.keywords:
            inner = const_iter(it.args[0])
            if inner is not None:
                return ast.Call(func=it.func, args=[inner], keywords=[])
        return None

    class G(ast.NodeTransformer):
        def visit_Call(self, n):
            self.generic_visit(n)
            if dotted(n.func) == 'getattr' and len(n.args) == 2 and not n.keywords and isinstance(n.args[1], ast.Constant) \
                    and isinstance(n.args[1].value, str) and n.args[1].value.isidentifier():
                return ast.copy_location(ast.Attribute(value=n.args[0], attr=n.args[1].value, ctx=ast.Load()), n)
            return n

    def fold(stmts):
        # if True: S -> S ; if False: S else: T -> T   (left behind by the substitution of a literal flag)
        res = []
        for x in stmts:
            for f in ('body', 'orelse', 'finalbody'):
                b = getattr(x, f, None)
                if isinstance(b, list) and b and isinstance(b[0], ast.stmt) and not isinstance(x, (ast.FunctionDef, ast.ClassDef)):
                    setattr(x, f, fold(b) or ([ast.copy_location(ast.Pass(), x)] if f == 'body' else []))
            if isinstance(x, ast.If) and isinstance(x.test, ast.Constant) and isinstance(x.test.value, bool):
                res += [y for y in (x.body if x.test.value else x.orelse) if not isinstance(y, ast.Pass)]
            else:
                res.append(x)
        return res

    def local_literal(stmts, k):
        """stmts[k] is `for T in NAME` and stmts[k-1] is `NAME = <tuple / list literal>`, NAME bound nowhere else and read nowhere else"""
        st = stmts[k]
        if k == 0 or not isinstance(st.iter, ast.Name):
            return None
        prev = stmts[k - 1]
        nm = st.iter.id
        if not (isinstance(prev, ast.Assign) and len(prev.targets) == 1 and isinstance(prev.targets[0], ast.Name) and prev.targets[0].id == nm
                and isinstance(prev.value, (ast.Tuple, ast.List))):
            return None
        if sum(1 for n in ast.walk(fn) if isinstance(n, ast.Name) and n.id == nm) != 2:
            return None
        return prev.value

    def walk(stmts):
        out = []
        for k_, st in enumerate(stmts):
            for f in ('body', 'orelse', 'finalbody'):
                b = getattr(st, f, None)
                if isinstance(b, list) and b and isinstance(b[0], ast.stmt) and not isinstance(st, (ast.FunctionDef, ast.ClassDef)):
                    setattr(st, f, walk(b))
            if isinstance(st, ast.Try):
                for h in st.handlers:
                    h.body = walk(h.body)
            if isinstance(st, ast.For):
                ci = const_iter(st.iter)
                loc = None
                if ci is None:
                    loc = local_literal(stmts, k_)
                    ci = _copy.deepcopy(loc) if loc is not None else None
                cand = ast.For(target=st.target, iter=ci if ci is not None else st.iter, body=st.body, orelse=st.orelse)
                un = None
                try:
                    un = nz.unroll(cand)
                except Exception:
                    un = None
                if un is not None and loc is not None:
                    if any(isinstance(x, ast.Assign) and isinstance(x.targets[0], ast.Name) and x.targets[0].id.startswith('seq__u') for x in un):
                        un = None       # the elements could not be written where the loop variable stands
                    else:
                        out.pop()       # the table itself is no longer read
                if un is not None:
                    un = fold(un)
                    for x in un:
                        for y in ast.walk(x):
                            if isinstance(y, (ast.stmt, ast.expr)) and not hasattr(y, 'lineno'):
                                y.lineno = y.end_lineno = st.lineno
                                y.col_offset = y.end_col_offset = 0
                        out.append(G().visit(x))
                    continue
            out.append(st)
        return out
    saved = equiv._KERNEL_ALIASES
    equiv._KERNEL_ALIASES = equiv.find_kernel_aliases(fn)
    try:
        fn.body = walk(fn.body)
    finally:
        equiv._KERNEL_ALIASES = saved
    # [getattr(o, n) for n in TABLE] -> [o.a, o.b, ...]
    canon = equiv.ExprCanon(nz, arith=False)

    class LC(ast.NodeTransformer):
        def visit_ListComp(self, n):
            self.generic_visit(n)
            g = n.generators[0] if len(n.generators) == 1 else None
            if g is not None:
                ci = const_iter(g.iter)
                if ci is not None:
                    n = ast.ListComp(elt=n.elt, generators=[ast.comprehension(target=g.target, iter=ci, ifs=g.ifs, is_async=g.is_async)])
            try:
                un = canon.unroll_comp(n)
            except Exception:
                un = None
            if un is None:
                return n
            return ast.copy_location(G().visit(un), n)
    fn.body = [LC().visit(b) for b in fn.body]

    # a, b = [x, y] / (x, y) with pure elements that do not read a or b -> a = x; b = y
    def split_unpack(stmts):
        out = []
        for st in stmts:
            for f in ('body', 'orelse', 'finalbody'):
                b = getattr(st, f, None)
                if isinstance(b, list) and b and isinstance(b[0], ast.stmt) and not isinstance(st, (ast.FunctionDef, ast.ClassDef)):
                    setattr(st, f, split_unpack(b))
            if isinstance(st, ast.Try):
                for h in st.handlers:
                    h.body = split_unpack(h.body)
            if isinstance(st, ast.Assign) and len(st.targets) == 1 and isinstance(st.targets[0], (ast.Tuple, ast.List)) and isinstance(st.value, (ast.Tuple, ast.List)) \
                    and len(st.targets[0].elts) == len(st.value.elts) and all(isinstance(t, ast.Name) for t in st.targets[0].elts) \
                    and not any(isinstance(e, ast.Starred) for e in st.value.elts) and all(equiv.is_pure(e) for e in st.value.elts):
                tn = {t.id for t in st.targets[0].elts}
                if not any(isinstance(x, ast.Name) and x.id in tn for e in st.value.elts for x in ast.walk(e)):
                    for t, e in zip(st.targets[0].elts, st.value.elts):
                        out.append(ast.copy_location(ast.Assign(targets=[t], value=e), st))
                    continue
            out.append(st)
        return out
    fn.body = split_unpack(fn.body)
    # a local name for an attribute chain (flange = self.flange), bound once, the chain never stored to in this function: written out
    counts = {}
    for n in ast.walk(fn):
        if isinstance(n, ast.Name) and isinstance(n.ctx, (ast.Store, ast.Del)):
            counts[n.id] = counts.get(n.id, 0) + 1
    params = {a.arg for a in fn.args.posonlyargs + fn.args.args + fn.args.kwonlyargs}
    stored = {dotted(n) for n in ast.walk(fn) if isinstance(n, ast.Attribute) and isinstance(n.ctx, (ast.Store, ast.Del)) and dotted(n)}
    aliases = {}
    ref_aliases = set()
    if ref is not None:
        # the confirmed version's own local names for attribute chains are the spelling the rules know: kept
        ref_aliases = {(n.targets[0].id, dotted(n.value)) for n in ast.walk(ref) if isinstance(n, ast.Assign) and len(n.targets) == 1
                       and isinstance(n.targets[0], ast.Name) and isinstance(n.value, ast.Attribute) and dotted(n.value)}
    for n in ast.walk(fn):
        if isinstance(n, ast.Assign) and len(n.targets) == 1 and isinstance(n.targets[0], ast.Name) and counts.get(n.targets[0].id) == 1 \
                and n.targets[0].id not in params and isinstance(n.value, ast.Attribute):
            d = dotted(n.value)
            if d and d.split('.')[0] == 'self' and d.count('.') <= 2 and not any(sd == d or d.startswith(sd + '.') for sd in stored) \
                    and (n.targets[0].id, d) not in ref_aliases:
                aliases[n.targets[0].id] = (n, n.value)
    if aliases:
        class AL(ast.NodeTransformer):
            def visit_Name(self, n):
                if isinstance(n.ctx, ast.Load) and n.id in aliases:
                    return ast.copy_location(_copy.deepcopy(aliases[n.id][1]), n)
                return n

        def strip(stmts):
            out = []
            for st in stmts:
                if any(st is a[0] for a in aliases.values()):
                    continue
                for f in ('body', 'orelse', 'finalbody'):
                    b = getattr(st, f, None)
                    if isinstance(b, list) and b and isinstance(b[0], ast.stmt) and not isinstance(st, (ast.FunctionDef, ast.ClassDef)):
                        setattr(st, f, strip(b) or ([ast.copy_location(ast.Pass(), st)] if f == 'body' else []))
                if isinstance(st, ast.Try):
                    for h in st.handlers:
                        h.body = strip(h.body) or [ast.copy_location(ast.Pass(), st)]
                out.append(AL().visit(st))
            return out
        fn.body = strip(fn.body)
    ast.fix_missing_locations(fn)
    present(fn)


def equiv_global_sigs():
    """('any', name) -> parameter names, for method / function names whose parameter list is the same in every reference file that
    defines them (used for keyword normal form of calls through other objects, e.g. p.calc_k0(...))"""
    global _gsigs
    if _gsigs is not None:
        return _gsigs
    base = os.path.join(os.path.dirname(os.path.abspath(__file__)), 'reference')
    seen = {}
    for root, _, files in os.walk(base):
        for f in files:
            if not f.endswith('.ref'):
                continue
            try:
                t = ast.parse(open(os.path.join(root, f), encoding='utf-8', errors='replace').read())
            except SyntaxError:
                continue
            for st in t.body:
                fs = [(st, False)] if isinstance(st, ast.FunctionDef) else [(m, True) for m in st.body if isinstance(m, ast.FunctionDef)] if isinstance(st, ast.ClassDef) else []
                for fn, meth in fs:
                    if fn.args.vararg or fn.args.kwarg:
                        seen.setdefault(fn.name, set()).add(None)
                        continue
                    ps = [a.arg for a in fn.args.posonlyargs + fn.args.args]
                    if meth and ps and ps[0] in ('self', 'cls'):
                        ps = ps[1:]
                    allp = fn.args.posonlyargs + fn.args.args
                    dfl = tuple(sorted((a.arg, ast.dump(d, annotate_fields=False)) for a, d in zip(allp[len(allp) - len(fn.args.defaults):], fn.args.defaults)))
                    seen.setdefault(fn.name, set()).add((tuple(ps), dfl))
    _gsigs = {}
    # effect summaries of every class of the reference files, merged by method name (for calls through other objects)
    try:
        from . import equiv as _eq
        geff, gret = {}, {}
        for root, _, files in os.walk(base):
            for f in files:
                if not f.endswith('.ref'):
                    continue
                try:
                    t = ast.parse(open(os.path.join(root, f), encoding='utf-8', errors='replace').read())
                except SyntaxError:
                    continue
                for st in t.body:
                    if isinstance(st, ast.ClassDef):
                        ms = {m.name: m for m in st.body if isinstance(m, ast.FunctionDef)}
                        own = {x.attr for m in ms.values() for x in ast.walk(m) if isinstance(x, ast.Attribute) and isinstance(x.value, ast.Name) and x.value.id == 'self'}
                        for name, w in _eq.class_effects(ms).items():
                            geff.setdefault(name, []).append((st.name, own, set(w)))
        _gsigs[('effects_any',)] = geff
    except Exception:
        pass
    for k, v in seen.items():
        if len(v) == 1 and None not in v:
            ps, dfl = next(iter(v))
            _gsigs[('any', k)] = list(ps)
            _gsigs[('defaults', 'any', k)] = dict(dfl)
    # compiled kernels: `def name(typed parameters):` of the .pyx sources, when every definition of that name has the same parameter
    # names (and no defaults that differ); read from the current tree - a kernel whose parameters were renamed is a different matter
    # and is decided by the binding rules, not here
    try:
        import re as _re
        from .report import REPO
        kseen = {}
        for root, _, files in os.walk(os.path.join(REPO, 'compmech')):
            for f in files:
                if not f.endswith('.pyx'):
                    continue
                src = open(os.path.join(root, f), encoding='utf-8', errors='replace').read()
                for mm in _re.finditer(r'^def\s+(\w+)\s*\(', src, _re.M):
                    name = mm.group(1)
                    depth, j = 1, mm.end()
                    while j < len(src) and depth:
                        depth += src[j] in '([' 
                        depth -= src[j] in ')]'
                        j += 1
                    body = src[mm.end():j - 1]
                    parts, cur, dep = [], '', 0
                    for ch in body:
                        if ch in '([':
                            dep += 1
                        elif ch in ')]':
                            dep -= 1
                        if ch == ',' and dep == 0:
                            parts.append(cur)
                            cur = ''
                        else:
                            cur += ch
                    if cur.strip():
                        parts.append(cur)
                    names, dfl = [], []
                    ok = True
                    for pt in parts:
                        pt = pt.strip()
                        if not pt or pt.startswith('*'):
                            ok = False
                            break
                        left, _, default = pt.partition('=')
                        ident = _re.findall(r'[A-Za-z_]\w*', left)
                        if not ident:
                            ok = False
                            break
                        names.append(ident[-1])
                        if default.strip():
                            dfl.append((ident[-1], default.strip()))
                    kseen.setdefault(name, set()).add((tuple(names), tuple(dfl)) if ok else None)
        for k, v in kseen.items():
            if len(v) == 1 and None not in v and ('any', k) not in _gsigs and k not in seen:
                ps, dfl = next(iter(v))
                if not dfl:
                    _gsigs[('any', k)] = list(ps)
                    _gsigs[('defaults', 'any', k)] = {}
    except Exception:
        pass
    return _gsigs


def module(rel):
    if rel not in _mods:
        _mods[rel] = Module(rel)
    return _mods[rel]


# --------------------------------------------------------------------------
# call binding


class Sig:
    def __init__(self, fn, drop_self=False):
        a = fn.args
        self.names = [x.arg for x in a.posonlyargs + a.args]
        if drop_self and self.names and self.names[0] in ('self', 'cls'):
            self.names = self.names[1:]
        nd = len(a.defaults)
        allpos = [x.arg for x in a.posonlyargs + a.args]
        self.defaults = set(allpos[len(allpos) - nd:]) if nd else set()
        self.kwonly = [x.arg for x in a.kwonlyargs]
        for x, d in zip(a.kwonlyargs, a.kw_defaults):
            if d is not None:
                self.defaults.add(x.arg)
        self.vararg = a.vararg is not None
        self.kwarg = a.kwarg is not None


def bind(call, sig):
    """-> (mapping param -> arg node, list of problems)"""
    probs = []
    mp = {}
    pos = [a for a in call.args if not isinstance(a, ast.Starred)]
    if any(isinstance(a, ast.Starred) for a in call.args) or any(k.arg is None for k in call.keywords):
        return mp, ['call uses * or ** (not bound)']
    if len(pos) > len(sig.names) and not sig.vararg:
        probs.append('%d positional arguments for %d parameters' % (len(pos), len(sig.names)))
    for name, a in zip(sig.names, pos):
        mp[name] = a
    for k in call.keywords:
        if k.arg in mp:
            probs.append('parameter %s given twice' % k.arg)
        elif k.arg not in sig.names and k.arg not in sig.kwonly and not sig.kwarg:
            probs.append('unknown keyword %s' % k.arg)
        else:
            mp[k.arg] = k.value
    for name in sig.names + sig.kwonly:
        if name not in mp and name not in sig.defaults:
            probs.append('required parameter %s not supplied' % name)
    return mp, probs


def calls_in(node, pred=None):
    out = []
    for n in ast.walk(node):
        if isinstance(n, ast.Call) and (pred is None or pred(n)):
            out.append(n)
    return out


def callee_name(call):
    f = call.func
    if isinstance(f, ast.Name):
        return f.id
    if isinstance(f, ast.Attribute):
        return f.attr
    return None


def dotted(node):
    parts = []
    while isinstance(node, ast.Attribute):
        parts.append(node.attr)
        node = node.value
    if isinstance(node, ast.Name):
        parts.append(node.id)
        return '.'.join(reversed(parts))
    if isinstance(node, ast.Call):
        d = dotted(node.func)
        return (d + '()') if d else None
    return None


# --------------------------------------------------------------------------
# statement CFG


class CFG:
    """nodes: simple statements and the tests/headers of compound statements.
    node id -> ast node; succ: id -> set(id). ENTRY = 0, EXIT = 1."""
    ENTRY, EXIT = 0, 1

    def __init__(self, fn):
        self.fn = fn
        self.nodes = {0: None, 1: None}
        self.kind = {0: 'entry', 1: 'exit'}
        self.succ = {0: set(), 1: set()}
        self.n = 2
        self.loop_stack = []
        ends = self._block(fn.body, {0})
        for e in ends:
            self.succ[e].add(1)
        self.pred = {k: set() for k in self.succ}
        for a, ss in self.succ.items():
            for b in ss:
                self.pred[b].add(a)

    def _new(self, node, kind):
        i = self.n
        self.n += 1
        self.nodes[i] = node
        self.kind[i] = kind
        self.succ[i] = set()
        return i

    def _link(self, froms, to):
        for f in froms:
            self.succ[f].add(to)

    def _block(self, body, ins):
        cur = set(ins)
        for st in body:
            cur = self._stmt(st, cur)
        return cur

    def _stmt(self, st, ins):
        if isinstance(st, ast.If):
            t = self._new(st, 'if')
            self._link(ins, t)
            a = self._block(st.body, {t})
            b = self._block(st.orelse, {t}) if st.orelse else {t}
            return a | b
        if isinstance(st, (ast.While, ast.For)):
            h = self._new(st, 'loop')
            self._link(ins, h)
            brk = set()
            self.loop_stack.append((h, brk))
            body_end = self._block(st.body, {h})
            self.loop_stack.pop()
            self._link(body_end, h)
            infinite = isinstance(st, ast.While) and isinstance(st.test, ast.Constant) and st.test.value is True
            outs = set() if infinite else {h}
            if st.orelse:
                outs = self._block(st.orelse, outs)
            return outs | brk
        if isinstance(st, ast.Try):
            start = self._new(st, 'try')
            self._link(ins, start)
            before = set(self.nodes)
            body_end = self._block(st.body, {start})
            inside = [i for i in self.nodes if i not in before]
            outs = set()
            if st.orelse:
                body_end = self._block(st.orelse, body_end)
            outs |= body_end
            for h in st.handlers:
                hn = self._new(h, 'except')
                self._link([start] + inside, hn)
                outs |= self._block(h.body, {hn})
            if st.finalbody:
                outs = self._block(st.finalbody, outs)
            return outs
        if isinstance(st, ast.With):
            w = self._new(st, 'with')
            self._link(ins, w)
            return self._block(st.body, {w})
        if isinstance(st, (ast.FunctionDef, ast.ClassDef)):
            return ins
        i = self._new(st, 'stmt')
        self._link(ins, i)
        if isinstance(st, (ast.Return, ast.Raise)):
            self.succ[i].add(1)
            return set()
        if isinstance(st, ast.Break):
            if self.loop_stack:
                self.loop_stack[-1][1].add(i)
            return set()
        if isinstance(st, ast.Continue):
            if self.loop_stack:
                self.succ[i].add(self.loop_stack[-1][0])
            return set()
        return {i}

    # ---- queries -----------------------------------------------------------
    def ids_where(self, pred):
        return [i for i, n in self.nodes.items() if n is not None and pred(i, n)]

    def node_of_stmt(self, st):
        for i, n in self.nodes.items():
            if n is st:
                return i
        return None

    def reachable(self, start, avoid=()):
        avoid = set(avoid)
        seen = set()
        todo = [start] if start not in avoid else []
        while todo:
            x = todo.pop()
            if x in seen:
                continue
            seen.add(x)
            for y in self.succ[x]:
                if y not in avoid and y not in seen:
                    todo.append(y)
        return seen

    def must_pass(self, target, through, start=0):
        """every path start -> target passes through a node of ``through``"""
        through = set(through)
        if target in through:
            return True
        return target not in self.reachable(start, avoid=through)

    def header_expr(self, i):
        """the expression evaluated at a node (test for if/while, iter for for,
        whole statement otherwise)"""
        n = self.nodes[i]
        if isinstance(n, ast.If):
            return n.test
        if isinstance(n, ast.While):
            return n.test
        if isinstance(n, ast.For):
            return n.iter
        if isinstance(n, (ast.Try, ast.With, ast.ExceptHandler)):
            return None
        return n


def stmt_calls(cfg, i):
    e = cfg.header_expr(i)
    if e is None:
        return []
    return calls_in(e)


def names_stored(node):
    """names (and dotted attributes) assigned by a simple statement"""
    out = []
    if isinstance(node, ast.Assign):
        tg = node.targets
    elif isinstance(node, (ast.AugAssign, ast.AnnAssign)):
        tg = [node.target]
    elif isinstance(node, ast.For):
        tg = [node.target]
    else:
        return out
    for t in tg:
        for n in ast.walk(t):
            if isinstance(n, ast.Name) and isinstance(n.ctx, ast.Store):
                out.append(n.id)
            elif isinstance(n, ast.Attribute) and isinstance(n.ctx, ast.Store):
                d = dotted(n)
                if d:
                    out.append(d)
    return out


# --------------------------------------------------------------------------
# attribute effects of methods


def self_attr_reads(fn, selfname='self'):
    out = []
    for n in ast.walk(fn):
        if isinstance(n, ast.Attribute) and isinstance(n.value, ast.Name) and n.value.id == selfname \
                and isinstance(n.ctx, ast.Load):
            out.append((n.attr, n.lineno))
    return out


def self_attr_writes(fn, selfname='self'):
    out = []
    for n in ast.walk(fn):
        if isinstance(n, ast.Attribute) and isinstance(n.value, ast.Name) and n.value.id == selfname \
                and isinstance(n.ctx, ast.Store):
            out.append((n.attr, n.lineno))
    return out


def kernel_sig(unit, fname):
    fn = unit.func(fname)
    if fn is None:
        raise AnalysisError('anchor vanished: kernel %s in %s' % (fname, unit.rel))
    return Sig(fn)
