"""Helper inlining: bring a refactored orchestration function back to the shape the rules were written for.

The rules of this checker were confirmed against the functions that exist on the tree today (the inventory in
vcheck/inventory.json: every function and method name per analysed Python file).  A later commit that merely
*extracts* part of such a function into a new private helper (a module-level function, a method of the same class,
a nested closure or a generator) must not change any verdict.  So before a rule looks at a function, every call to
a helper that is NOT in the inventory - and every call to a nested closure - is replaced by the helper's body:

  x = helper(a, b)            ->  body with parameters bound, `return e` turned into `x = e`
  helper(a, b)                ->  body (return values dropped)
  return helper(a, b)         ->  body with its returns
  x += helper(a)              ->  body, `return e` turned into `x += e`
  for t in gen(a): BODY       ->  body of the generator with every `yield v` turned into `t = v; BODY`
  x = [helper(e) for e in it] ->  x = []; for e in it: <body; r = ...>; x.append(r)
  f(..., helper(a), ...)      ->  tmp = helper(a) (inlined) ; f(..., tmp, ...)

Early returns of the helper become if/else chains (the statements after the `if` are copied into the branch that
falls through).  `if <constant>` left behind by binding a literal argument is folded.  Anything the inliner does not
understand (recursion, *args, return inside a loop, break in the body of an inlined generator loop) is left as a call:
the rules then see an unknown call and report what they cannot establish - never the other way round.
"""
import ast
import copy
import json
import os

_HERE = os.path.dirname(os.path.abspath(__file__))
_inv = None


def inventory():
    global _inv
    if _inv is None:
        p = os.path.join(_HERE, 'inventory.json')
        _inv = json.load(open(p)) if os.path.exists(p) else {}
    return _inv


class CannotInline(Exception):
    pass


def _names_assigned(node):
    out = set()
    for n in ast.walk(node):
        if isinstance(n, ast.Name) and isinstance(n.ctx, (ast.Store, ast.Del)):
            out.add(n.id)
        elif isinstance(n, ast.arg):
            out.add(n.arg)
    return out


def _contains(node, kinds):
    return any(isinstance(n, kinds) for n in ast.walk(node))


def _contains_own(stmts, kinds):
    """kinds occurring in stmts, not descending into nested function definitions"""
    def rec(n):
        if isinstance(n, kinds):
            return True
        if isinstance(n, (ast.FunctionDef, ast.Lambda, ast.ClassDef)):
            return False
        return any(rec(c) for c in ast.iter_child_nodes(n))
    return any(rec(s) for s in stmts)


def _always_returns(stmts):
    for st in stmts:
        if isinstance(st, (ast.Return, ast.Raise)):
            return True
        if isinstance(st, ast.If) and st.orelse and _always_returns(st.body) and _always_returns(st.orelse):
            return True
    return False


def _lower_returns(stmts, sink):
    """single-exit form: every `return e` becomes sink(e); code after an `if` that may return is copied into
    the branches that fall through"""
    out = []
    for i, st in enumerate(stmts):
        if isinstance(st, ast.Return):
            out += sink(st.value)
            return out
        if isinstance(st, ast.If) and _contains_own([st], ast.Return):
            rest = stmts[i + 1:]
            br = _always_returns(st.body)
            er = _always_returns(st.orelse)
            nb = _lower_returns(list(st.body) + ([] if br else copy.deepcopy(rest)), sink)
            ne = _lower_returns(list(st.orelse) + ([] if er else copy.deepcopy(rest)), sink)
            out.append(ast.copy_location(ast.If(test=st.test, body=nb or [ast.Pass()], orelse=ne), st))
            return out
        if isinstance(st, (ast.For, ast.While, ast.With, ast.Try)) and _contains_own([st], ast.Return):
            raise CannotInline('return inside a loop / with / try')
        out.append(st)
    return out


class _Subst(ast.NodeTransformer):
    def __init__(self, mapping, rename):
        self.mapping = mapping
        self.rename = rename

    def visit_Name(self, n):
        if n.id in self.mapping and isinstance(n.ctx, ast.Load):
            return ast.copy_location(copy.deepcopy(self.mapping[n.id]), n)
        if n.id in self.rename:
            return ast.copy_location(ast.Name(id=self.rename[n.id], ctx=n.ctx), n)
        return n

    def visit_FunctionDef(self, n):
        return n

    def visit_Lambda(self, n):
        return n


def _simple_arg(a):
    if isinstance(a, (ast.Constant, ast.Name)):
        return True
    if isinstance(a, ast.Attribute):
        return _simple_arg(a.value)
    if isinstance(a, ast.UnaryOp) and isinstance(a.operand, ast.Constant):
        return True
    return False


def _bind(call, callee, drop_self):
    a = callee.args
    if a.vararg or a.kwarg or any(isinstance(x, ast.Starred) for x in call.args) or any(k.arg is None for k in call.keywords):
        raise CannotInline('star arguments')
    params = [x.arg for x in a.posonlyargs + a.args]
    if drop_self:
        params = params[1:]
    defaults = dict(zip([x.arg for x in (a.posonlyargs + a.args)][len(a.posonlyargs + a.args) - len(a.defaults):], a.defaults))
    kwonly = [x.arg for x in a.kwonlyargs]
    for x, d in zip(a.kwonlyargs, a.kw_defaults):
        if d is not None:
            defaults[x.arg] = d
    bound = {}
    if len(call.args) > len(params):
        raise CannotInline('too many positional arguments')
    for p, v in zip(params, call.args):
        bound[p] = v
    for k in call.keywords:
        if k.arg in bound or k.arg not in params + kwonly:
            raise CannotInline('bad keyword ' + str(k.arg))
        bound[k.arg] = k.value
    for p in params + kwonly:
        if p not in bound:
            if p not in defaults:
                raise CannotInline('missing argument ' + p)
            bound[p] = defaults[p]
    return bound


_counter = [0]


def _fresh(base):
    _counter[0] += 1
    return '%s__i%d' % (base, _counter[0])


def _instantiate(call, callee, drop_self, caller_names):
    """-> (prologue statements, body statements) of the callee with parameters bound and colliding locals renamed"""
    bound = _bind(call, callee, drop_self)
    body = copy.deepcopy(callee.body)
    if body and isinstance(body[0], ast.Expr) and isinstance(body[0].value, ast.Constant) and isinstance(body[0].value.value, str):
        body = body[1:]
    assigned = set()
    for st in body:
        assigned |= _names_assigned(st)
    params = set(bound)
    mapping, prologue = {}, []
    for p, v in bound.items():
        if p not in assigned and _simple_arg(v):
            mapping[p] = v
        else:
            nm = p if p not in caller_names else _fresh(p)
            if nm != p:
                mapping[p] = ast.Name(id=nm, ctx=ast.Load())
            prologue.append(ast.copy_location(ast.Assign(targets=[ast.Name(id=nm, ctx=ast.Store())], value=copy.deepcopy(v)), call))
    rename = {}
    for nm in assigned - params:
        if nm in caller_names:
            rename[nm] = _fresh(nm)
    # a rebinding of a parameter inside the callee that collides is renamed through the prologue name
    for p in params & assigned:
        if p in mapping and isinstance(mapping[p], ast.Name):
            rename[p] = mapping[p].id
    sub = _Subst({k: v for k, v in mapping.items() if k not in (params & assigned)}, rename)
    body = [sub.visit(st) for st in body]
    for st in prologue + body:
        ast.fix_missing_locations(st)
    return prologue, body


def _effect_free(fn):
    for n in ast.walk(fn):
        if isinstance(n, (ast.Attribute, ast.Subscript)) and isinstance(n.ctx, (ast.Store, ast.Del)):
            return False
        if isinstance(n, ast.Name) and n.id == 'self':
            return False
        if isinstance(n, (ast.Global, ast.Nonlocal, ast.Yield, ast.YieldFrom, ast.Raise)):
            return False
    return True


def _restore_names(fn):
    """locals of an inlined helper that were renamed (v__iK) to avoid a clash get their own name back when nothing called v lives
    in the stretch of code they occupy (two inlined copies of one helper, one after the other, then read like the two original
    blocks did)"""
    import re
    order = []

    def rec(n):
        if isinstance(n, (ast.expr_context, ast.operator, ast.unaryop, ast.boolop, ast.cmpop)):
            return
        order.append(n)
        for c in ast.iter_child_nodes(n):
            rec(c)
    rec(fn)
    pos = {id(n): k for k, n in enumerate(order)}
    names = {}
    for n in order:
        if isinstance(n, ast.Name):
            names.setdefault(n.id, []).append(n)
    params = {a.arg for a in fn.args.posonlyargs + fn.args.args + fn.args.kwonlyargs}
    for nm in sorted(names, key=lambda x: min(pos[id(o)] for o in names[x])):
        m = re.match(r'^(\w+?)__i\d+$', nm)
        if not m:
            continue
        base = m.group(1)
        if base in params or base.startswith('ret'):
            continue
        lo = min(pos[id(o)] for o in names[nm])
        hi = max(pos[id(o)] for o in names[nm])
        # the renamed local must not be live outside a loop it is re-bound in... keep it simple: no occurrence of `base` (or of another
        # renamed copy of it) inside [lo, hi]
        clash = False
        for other, occ in names.items():
            if other == nm:
                continue
            if other == base or re.match(r'^%s__i\d+$' % re.escape(base), other):
                if any(lo <= pos[id(o)] <= hi for o in occ):
                    clash = True
        # and the stretch must not sit inside a loop that also contains occurrences of base outside the stretch (values carried around)
        if not clash:
            for lp in [x for x in order if isinstance(x, (ast.For, ast.While))]:
                inside = {id(y) for y in ast.walk(lp)}
                if any(id(o) in inside for o in names[nm]) and not all(id(o) in inside for o in names[nm]):
                    continue
                if any(id(o) in inside for o in names[nm]) and any(id(o) in inside for o in names.get(base, [])):
                    clash = True
        if clash:
            continue
        for o in names[nm]:
            o.id = base
        names.setdefault(base, []).extend(names[nm])
        names[nm] = []


class _Fold(ast.NodeTransformer):
    """fold `if <literal>` / `<a> if <literal> else <b>` / `not <literal>` left by binding literal arguments"""

    @staticmethod
    def _const(t):
        if isinstance(t, ast.Constant) and isinstance(t.value, (bool, int, type(None))):
            return True, bool(t.value)
        if isinstance(t, ast.UnaryOp) and isinstance(t.op, ast.Not):
            ok, v = _Fold._const(t.operand)
            if ok:
                return True, not v
        if isinstance(t, ast.Compare) and len(t.ops) == 1 and isinstance(t.left, ast.Constant) and isinstance(t.comparators[0], ast.Constant):
            l, r = t.left.value, t.comparators[0].value
            if isinstance(t.ops[0], ast.Is):
                return True, l is r
            if isinstance(t.ops[0], ast.IsNot):
                return True, l is not r
            if isinstance(t.ops[0], ast.Eq) and type(l) is type(r):
                return True, l == r
            if isinstance(t.ops[0], ast.NotEq) and type(l) is type(r):
                return True, l != r
        return False, None

    def visit_If(self, n):
        self.generic_visit(n)
        ok, v = self._const(n.test)
        if ok:
            return (n.body if v else n.orelse) or None
        return n

    def visit_IfExp(self, n):
        self.generic_visit(n)
        ok, v = self._const(n.test)
        if ok:
            return n.body if v else n.orelse
        return n


class Expander:
    def __init__(self, tree, rel):
        self.tree = tree
        self.rel = rel
        inv = inventory().get(rel)
        self.have_inventory = inv is not None
        inv = inv or {'functions': [], 'classes': {}, 'nested': {}}
        self.known_nested = {k: set(v) for k, v in inv.get('nested', {}).items()}
        self.known_funcs = set(inv['functions'])
        self.known_methods = {c: set(ms) for c, ms in inv['classes'].items()}
        self.mod_funcs = {st.name: st for st in tree.body if isinstance(st, ast.FunctionDef)}
        self.classes = {st.name: {m.name: m for m in st.body if isinstance(m, ast.FunctionDef)} for st in tree.body if isinstance(st, ast.ClassDef)}
        self.inlined = []
        if self.have_inventory:
            try:
                self.import_new_helpers()
            except Exception:
                pass

    def import_new_helpers(self):
        """`from .other import helper` where helper is a function of another analysed module that did not exist when the rules were
        confirmed (not in that module's inventory): its definition is fetched - with the literal module constants of ITS module
        written into it, and only if it then refers to nothing else of that module - and inlined like a local new helper"""
        import builtins
        from .report import REPO
        pkg = os.path.dirname(self.rel).split('/')
        for st in self.tree.body:
            if not isinstance(st, ast.ImportFrom):
                continue
            if st.level:
                base = pkg[:len(pkg) - (st.level - 1)] if st.level > 1 else list(pkg)
                parts = base + (st.module.split('.') if st.module else [])
            else:
                parts = st.module.split('.') if st.module else []
            srel = '/'.join(parts) + '.py'
            inv = inventory().get(srel)
            path = os.path.join(REPO, srel)
            if inv is None or not os.path.exists(path):
                continue
            wanted = [a for a in st.names if a.name != '*' and a.name not in inv['functions'] and (a.asname or a.name) not in self.mod_funcs]
            if not wanted:
                continue
            other = ast.parse(open(path, encoding='utf-8', errors='replace').read())
            funcs = {x.name: x for x in other.body if isinstance(x, ast.FunctionDef)}
            consts = {}
            for x in other.body:
                if isinstance(x, ast.Assign) and len(x.targets) == 1 and isinstance(x.targets[0], ast.Name) and isinstance(x.value, (ast.Tuple, ast.Dict, ast.Constant)) \
                        and all(isinstance(y, (ast.Dict, ast.Tuple, ast.Constant, ast.expr_context)) for y in ast.walk(x.value)):
                    nm = x.targets[0].id
                    if sum(1 for z in ast.walk(other) if isinstance(z, ast.Name) and z.id == nm and isinstance(z.ctx, ast.Store)) == 1:
                        consts[nm] = x.value
            mine = {n.id for n in ast.walk(self.tree) if isinstance(n, ast.Name)} | {a.asname or a.name for i in self.tree.body if isinstance(i, (ast.Import, ast.ImportFrom)) for a in i.names}
            for a in wanted:
                f = funcs.get(a.name)
                if f is None:
                    continue
                f = copy.deepcopy(f)
                local = _names_assigned(f) | {p.arg for p in f.args.posonlyargs + f.args.args + f.args.kwonlyargs} | \
                    ({f.args.vararg.arg} if f.args.vararg else set()) | ({f.args.kwarg.arg} if f.args.kwarg else set())
                sub_ = _Subst({k: v for k, v in consts.items() if k not in local}, {})
                f.body = [sub_.visit(b) for b in f.body]
                free = {n.id for n in ast.walk(f) if isinstance(n, ast.Name) and isinstance(n.ctx, ast.Load)} - local
                # what is left must mean the same thing here: builtins, or names this module imports under the same name
                other_imports = {x.asname or x.name: ast.dump(i) for i in other.body if isinstance(i, (ast.Import, ast.ImportFrom)) for x in i.names}
                my_imports = {x.asname or x.name: ast.dump(i) for i in self.tree.body if isinstance(i, (ast.Import, ast.ImportFrom)) for x in i.names}
                okf = all(hasattr(builtins, n) or (n in other_imports and n in my_imports and n.split('.')[0] in ('np', 'numpy', 'math')) for n in free)
                if not okf:
                    continue
                f.name = a.asname or a.name
                self.mod_funcs[f.name] = f

    def is_new_function(self, name):
        return self.have_inventory and name in self.mod_funcs and name not in self.known_funcs

    def is_new_method(self, cls, name):
        return self.have_inventory and cls in self.classes and name in self.classes[cls] and name not in self.known_methods.get(cls, set()) \
            and not (name.startswith('__') and name.endswith('__'))

    # ------------------------------------------------------------------
    def resolve(self, call, cls, closures):
        """-> (callee FunctionDef, drop_self) when the call goes to an inlinable helper"""
        f = call.func
        if isinstance(f, ast.Name):
            if f.id in closures:
                return closures[f.id], False
            if self.is_new_function(f.id):
                return self.mod_funcs[f.id], False
        if isinstance(f, ast.Attribute) and isinstance(f.value, ast.Name) and f.value.id == 'self' and cls and self.is_new_method(cls, f.attr):
            callee = self.classes[cls][f.attr]
            if any(isinstance(d, ast.Name) and d.id in ('staticmethod', 'classmethod', 'property') for d in callee.decorator_list):
                if any(isinstance(d, ast.Name) and d.id == 'staticmethod' for d in callee.decorator_list):
                    return callee, False
                return None
            return callee, True
        return None

    def expand(self, fn, cls=None, depth=0, stack=()):
        fn = copy.deepcopy(fn) if depth == 0 else fn
        closures = {}
        body = []
        known_inner = self.known_nested.get((cls + '.' if cls else '') + fn.name, set()) if depth == 0 and not getattr(self, 'inline_all_nested', False) else set()
        for st in fn.body:
            if isinstance(st, ast.FunctionDef) and st.name not in known_inner and self.have_inventory:
                closures[st.name] = st
            else:
                body.append(st)
        if closures:
            # a closure that is used other than by being called (passed around, returned) keeps its definition
            used_as_value = set()
            for n in ast.walk(ast.Module(body=body, type_ignores=[])):
                if isinstance(n, ast.Name) and n.id in closures and isinstance(n.ctx, ast.Load):
                    used_as_value.add(n.id)
            called = set()
            for n in ast.walk(ast.Module(body=body, type_ignores=[])):
                if isinstance(n, ast.Call) and isinstance(n.func, ast.Name) and n.func.id in closures:
                    called.add(n.func.id)
            ncalls = {k: sum(1 for n in ast.walk(ast.Module(body=body, type_ignores=[])) if isinstance(n, ast.Call) and isinstance(n.func, ast.Name) and n.func.id == k) for k in closures}
            nloads = {k: sum(1 for n in ast.walk(ast.Module(body=body, type_ignores=[])) if isinstance(n, ast.Name) and n.id == k and isinstance(n.ctx, ast.Load)) for k in closures}
            keep = {k for k in closures if nloads[k] != ncalls[k]}
            for k in keep:
                closures.pop(k)
            body = [st for st in fn.body if not (isinstance(st, ast.FunctionDef) and st.name in closures)]
        else:
            body = list(fn.body)
        caller_names = _names_assigned(fn)
        fn.body = self.block(body, cls, closures, caller_names, depth, stack + (fn.name,)) or [ast.Pass()]
        fn = _Fold().visit(fn)
        if not fn.body:
            fn.body = [ast.Pass()]
        if depth == 0:
            _restore_names(fn)
        ast.fix_missing_locations(fn)
        return fn

    # ------------------------------------------------------------------
    def inline_call(self, call, cls, closures, caller_names, depth, stack, sink):
        """statements replacing a call whose value goes to sink(expr) (None: dropped)"""
        r = self.resolve(call, cls, closures)
        if r is None:
            return None
        callee, drop_self = r
        if callee.name in stack or depth > 5 or _contains_own(callee.body, (ast.Yield, ast.YieldFrom)):
            return None
        try:
            pro, body = _instantiate(call, callee, drop_self, caller_names)
            body = _lower_returns(body, sink if sink is not None else (lambda e: []))
        except CannotInline:
            return None
        inner_closures = dict(closures)
        stmts = pro + body
        caller_names |= set().union(*[_names_assigned(s) for s in stmts]) if stmts else set()
        self.inlined.append(callee.name)
        # helpers called by the helper
        return self.block(stmts, cls, inner_closures, caller_names, depth + 1, stack + (callee.name,))

    def hoist(self, st, cls, closures, caller_names, depth, stack):
        """calls to helpers nested inside the expressions of a simple statement -> temporaries before it"""
        pre = []
        if isinstance(st, (ast.FunctionDef, ast.ClassDef)):
            return pre, st

        exp = self

        class H(ast.NodeTransformer):
            def visit_Lambda(self, n):
                return n

            def visit_ListComp(self, n):
                return n

            def visit_GeneratorExp(self, n):
                return n

            def visit_DictComp(self, n):
                return n

            def visit_SetComp(self, n):
                return n

            def visit_IfExp(self, n):
                n.test = self.visit(n.test)
                # a helper without effects (no attribute / subscript stores, no self) may be evaluated ahead of the choice
                for part in ('body', 'orelse'):
                    sub = getattr(n, part)
                    calls = [c for c in ast.walk(sub) if isinstance(c, ast.Call) and exp.resolve(c, cls, closures) is not None]
                    if calls and all(_effect_free(exp.resolve(c, cls, closures)[0]) for c in calls):
                        setattr(n, part, self.visit(sub))
                return n

            def visit_BoolOp(self, n):
                n.values[0] = self.visit(n.values[0])
                return n

            def visit_Call(self, n):
                self.generic_visit(n)
                if exp.resolve(n, cls, closures) is None:
                    return n
                tmp = _fresh('ret')
                got = exp.inline_call(n, cls, closures, caller_names, depth, stack,
                                      lambda e, tmp=tmp: [ast.Assign(targets=[ast.Name(id=tmp, ctx=ast.Store())], value=e if e is not None else ast.Constant(value=None))])
                if got is None:
                    return n
                for g in got:
                    ast.copy_location(g, n) if not hasattr(g, 'lineno') else None
                pre.extend(got)
                caller_names.add(tmp)
                return ast.copy_location(ast.Name(id=tmp, ctx=ast.Load()), n)
        return pre, H().visit(st)

    def block(self, stmts, cls, closures, caller_names, depth, stack):
        out = []
        for st in stmts:
            out += self.statement(st, cls, closures, caller_names, depth, stack)
        return out

    def statement(self, st, cls, closures, caller_names, depth, stack):
        B = lambda b: self.block(b, cls, closures, caller_names, depth, stack)
        IC = lambda call, sink: self.inline_call(call, cls, closures, caller_names, depth, stack, sink)
        if isinstance(st, ast.Expr) and isinstance(st.value, ast.Call):
            got = IC(st.value, None)
            if got is not None:
                return got
        if isinstance(st, ast.Assign) and isinstance(st.value, ast.Call):
            tg = st.targets
            got = IC(st.value, lambda e: [ast.copy_location(ast.Assign(targets=copy.deepcopy(tg), value=e if e is not None else ast.Constant(value=None)), st)])
            if got is not None:
                return got
        if isinstance(st, ast.AugAssign) and isinstance(st.value, ast.Call):
            got = IC(st.value, lambda e: [ast.copy_location(ast.AugAssign(target=copy.deepcopy(st.target), op=st.op, value=e), st)])
            if got is not None:
                return got
        if isinstance(st, ast.Return) and isinstance(st.value, ast.Call):
            got = IC(st.value, lambda e: [ast.copy_location(ast.Return(value=e), st)])
            if got is not None:
                return got
        # list comprehension over a helper call: x = [helper(e) for e in it]
        if isinstance(st, ast.Assign) and isinstance(st.value, ast.ListComp) and len(st.value.generators) == 1 and len(st.targets) == 1 \
                and any(isinstance(n, ast.Call) and self.resolve(n, cls, closures) is not None for n in ast.walk(st.value.elt)):
            g = st.value.generators[0]
            tgt = st.targets[0]
            acc = copy.deepcopy(tgt)
            init = ast.copy_location(ast.Assign(targets=[copy.deepcopy(tgt)], value=ast.List(elts=[], ctx=ast.Load())), st)
            load = copy.deepcopy(tgt)
            for n in ast.walk(load):
                if hasattr(n, 'ctx'):
                    n.ctx = ast.Load()
            app = ast.copy_location(ast.Expr(value=ast.Call(func=ast.Attribute(value=load, attr='append', ctx=ast.Load()), args=[st.value.elt], keywords=[])), st)
            body = [app]
            for cond in reversed(g.ifs):
                body = [ast.copy_location(ast.If(test=cond, body=body, orelse=[]), st)]
            loop = ast.copy_location(ast.For(target=g.target, iter=g.iter, body=body, orelse=[]), st)
            ast.fix_missing_locations(init)
            ast.fix_missing_locations(loop)
            return [init] + self.statement(loop, cls, closures, caller_names, depth, stack)
        if isinstance(st, ast.For) and isinstance(st.iter, ast.Call):
            r = self.resolve(st.iter, cls, closures)
            if r is not None and _contains_own(r[0].body, ast.Yield) and not st.orelse and r[0].name not in stack \
                    and not _contains_own(st.body, ast.Break) and not _contains_own(r[0].body, (ast.Return, ast.YieldFrom)):
                callee, drop_self = r
                try:
                    pro, body = _instantiate(st.iter, callee, drop_self, caller_names)
                except CannotInline:
                    pro = body = None
                if body is not None:
                    loop_body = st.body
                    target = st.target

                    class Y(ast.NodeTransformer):
                        def visit_FunctionDef(self, n):
                            return n

                        def visit_Expr(self, n):
                            if isinstance(n.value, ast.Yield):
                                v = n.value.value if n.value.value is not None else ast.Constant(value=None)
                                return [ast.copy_location(ast.Assign(targets=[copy.deepcopy(target)], value=v), n)] + copy.deepcopy(loop_body)
                            return n
                    # a yield that is not a statement of its own (x = yield ...) is not supported
                    nexpr = sum(1 for b in body for n in ast.walk(b) if isinstance(n, ast.Yield))
                    nstmt = sum(1 for b in body for n in ast.walk(b) if isinstance(n, ast.Expr) and isinstance(n.value, ast.Yield))
                    # `continue` of the consumer must continue the producer's innermost loop: fine when every yield sits in a loop
                    if nexpr == nstmt:
                        new = []
                        for b in pro + body:
                            r2 = Y().visit(b)
                            new += r2 if isinstance(r2, list) else [r2]
                        for b in new:
                            ast.fix_missing_locations(b)
                        self.inlined.append(callee.name)
                        caller_names |= set().union(*[_names_assigned(s) for s in new]) if new else set()
                        return self.block(new, cls, closures, caller_names, depth + 1, stack + (callee.name,))
        # compound statements: recurse
        if isinstance(st, ast.If):
            pre, st2 = self.hoist(ast.Expr(value=st.test), cls, closures, caller_names, depth, stack)
            st.test = st2.value
            st.body = B(st.body) or [ast.Pass()]
            st.orelse = B(st.orelse)
            return pre + [st]
        if isinstance(st, (ast.For, ast.While)):
            if isinstance(st, ast.For):
                pre, st2 = self.hoist(ast.Expr(value=st.iter), cls, closures, caller_names, depth, stack)
                st.iter = st2.value
            else:
                pre = []
            st.body = B(st.body) or [ast.Pass()]
            st.orelse = B(st.orelse)
            return pre + [st]
        if isinstance(st, ast.With):
            st.body = B(st.body) or [ast.Pass()]
            return [st]
        if isinstance(st, ast.Try):
            st.body = B(st.body) or [ast.Pass()]
            for h in st.handlers:
                h.body = B(h.body) or [ast.Pass()]
            st.orelse = B(st.orelse)
            st.finalbody = B(st.finalbody)
            return [st]
        if isinstance(st, (ast.FunctionDef, ast.ClassDef)):
            return [st]
        pre, st = self.hoist(st, cls, closures, caller_names, depth, stack)
        return pre + [st]


def expand_module(tree, rel):
    """-> ({function name: expanded def}, {class: {method: expanded def}}, names of the helpers that were inlined)"""
    ex = Expander(tree, rel)
    funcs = {}
    for name, f in ex.mod_funcs.items():
        try:
            funcs[name] = ex.expand(f)
        except RecursionError:
            funcs[name] = f
    classes = {}
    for cname, ms in ex.classes.items():
        classes[cname] = {}
        for name, f in ms.items():
            try:
                classes[cname][name] = ex.expand(f, cls=cname)
            except RecursionError:
                classes[cname][name] = f
    return funcs, classes, sorted(set(ex.inlined))
