"""E1 - Cython-subset front end.

Lowers the Cython dialect used by compmech's kernels (.pyx/.pxi) to Python
source that ``ast.parse`` accepts, *preserving line numbers*.  Only syntax is
touched; no semantics are invented:

* ``cdef extern ...:`` / ``cdef struct`` / ``ctypedef`` blocks, ``cimport`` and
  ``include`` lines                       -> ``pass``
* ``cdef T f(T a, T *b) nogil:``          -> ``def f(a, b):``
* ``def f(double [:] c, object p, int n=4)`` -> ``def f(c, p, n=4)``
* ``cdef T x = e``                        -> ``x = e``; declarations -> ``pass``
* ``with nogil:`` / ``with gil:``         -> ``if NOGIL:`` / ``if GIL:``
* casts ``<T>``                           -> removed
* ``&x[i, 0]``                            -> ``ADDR(x[i, 0])``
* ``sizeof(double)``                      -> ``SIZEOF``
"""
import ast
import os
import re


class PyxSyntaxError(Exception):
    pass


def _indent_of(s):
    return len(s) - len(s.lstrip())


def _split_top(a):
    parts, depth, cur = [], 0, ''
    for ch in a:
        if ch in '([':
            depth += 1
        if ch in ')]':
            depth -= 1
        if ch == ',' and depth == 0:
            parts.append(cur)
            cur = ''
        else:
            cur += ch
    parts.append(cur)
    return parts


def _clean_args(a):
    res = []
    for p in _split_top(a):
        p = p.strip()
        if not p:
            continue
        default = None
        if '=' in p:
            p, default = [x.strip() for x in p.split('=', 1)]
        # drop memoryview / pointer decorations
        p = re.sub(r'\[[^\]]*\]', ' ', p)
        names = re.findall(r'[A-Za-z_]\w*', p)
        if not names:
            raise PyxSyntaxError('cannot read parameter %r' % p)
        res.append(names[-1] + ('=' + default if default is not None else ''))
    return ', '.join(res)


_CAST = re.compile(r'<\s*(?:(?:unsigned|const)\s+)*[A-Za-z_]\w*\s*\**\s*>(?=\s*[\w(&])')


def _clean_stmt(s):
    code, sep, comment = s.partition('#')
    code = re.sub(r'\bwith\s+nogil\s*:', 'if NOGIL:', code)
    code = re.sub(r'\bwith\s+gil\s*:', 'if GIL:', code)
    code = re.sub(r'sizeof\(\s*\w+\s*\*?\s*\)', 'SIZEOF', code)
    code = _CAST.sub('', code)
    code = re.sub(r'&(\w+)((?:\[[^\]]*\])+)', r'ADDR(\1\2)', code)
    code = re.sub(r'&(\w+)', r'ADDR(\1)', code)
    return code + sep + comment


_FUNC = re.compile(
    r'(?:cdef|cpdef)\s+(?:inline\s+)?[\w\s\*\[\],:<>]*?\b(\w+)\s*\((.*)\)\s*'
    r'(?:nogil)?\s*(?:except\s*[^:]*)?(?:nogil)?\s*:\s*(#.*)?$')
_DEF = re.compile(r'def\s+(\w+)\s*\((.*)\)\s*:\s*(#.*)?$')
_CDEF_ASSIGN = re.compile(r'cdef\s+[\w\s\*\[\],:<>]*?\b(\w+)\s*=\s*(.*)$')


def lower(src):
    out = []
    lines = src.split('\n')
    i, n = 0, len(lines)
    while i < n:
        line = lines[i]
        s = line.strip()
        ind = line[:_indent_of(line)]
        start = i
        if re.match(r'(cdef|cpdef|def|ctypedef)\b', s):
            buf = line
            code = buf.split('#')[0]
            while (code.count('(') > code.count(')') or code.rstrip().endswith('\\')
                   or code.rstrip().endswith(',')):
                i += 1
                if i >= n:
                    raise PyxSyntaxError('unterminated declaration at line %d' % (start + 1))
                buf = code.rstrip().rstrip('\\') + ' ' + lines[i].strip()
                code = buf.split('#')[0]
            line = buf
            s = line.strip()
        pad = [''] * (i - start)
        if s.startswith('cdef extern') or re.match(r'(cdef|ctypedef)\s+(struct|enum|union)\b', s) \
                or re.match(r'cdef\s+class\b', s) and False:
            base = _indent_of(lines[start])
            out.append(ind + 'pass')
            out += pad
            i += 1
            while i < n and (lines[i].strip() == '' or _indent_of(lines[i]) > base):
                out.append('')
                i += 1
            continue
        if re.match(r'(ctypedef|cimport|include)\b', s) or (s.startswith('from') and ' cimport ' in s):
            out.append(ind + 'pass')
            out += pad
            i += 1
            continue
        m = _FUNC.match(s)
        if m and '=' not in s.split('(')[0]:
            out.append(ind + 'def %s(%s):' % (m.group(1), _clean_args(m.group(2))))
            out += pad
            i += 1
            continue
        m = _DEF.match(s)
        if m:
            out.append(ind + 'def %s(%s):' % (m.group(1), _clean_args(m.group(2))))
            out += pad
            i += 1
            continue
        if re.match(r'(cdef|cpdef)\b', s):
            code = s.split('#')[0].rstrip()
            m = _CDEF_ASSIGN.match(code)
            if m and not code.endswith(','):
                out.append(ind + '%s = %s' % (m.group(1), _clean_stmt(m.group(2))))
            else:
                out.append(ind + 'pass')
            out += pad
            i += 1
            continue
        out.append(ind + _clean_stmt(line[len(ind):]))
        i += 1
    return '\n'.join(out)


class Unit:
    """one parsed source file"""

    def __init__(self, path, relpath, tree, src):
        self.path = path
        self.rel = relpath
        self.tree = tree
        self.src = src
        self.lines = src.split('\n')
        self.funcs = {}
        for node in ast.walk(tree):
            if isinstance(node, (ast.FunctionDef, ast.AsyncFunctionDef)):
                self.funcs.setdefault(node.name, node)

    def func(self, name):
        return self.funcs.get(name)

    def module_consts(self):
        """module level ``name = <int literal>`` (cdef int num = 3)"""
        out = {}
        for st in self.tree.body:
            if isinstance(st, ast.Assign) and len(st.targets) == 1 \
                    and isinstance(st.targets[0], ast.Name) \
                    and isinstance(st.value, ast.Constant) \
                    and isinstance(st.value.value, (int, float)):
                out[st.targets[0].id] = st.value.value
        return out

    def includes(self):
        return re.findall(r"^\s*include\s+['\"]([^'\"]+)['\"]", self.src, re.M)


_cache = {}


def parse(path, root=None):
    key = os.path.abspath(path)
    if key in _cache:
        return _cache[key]
    with open(path, encoding='utf-8', errors='replace') as f:
        src = f.read()
    if path.endswith('.py'):
        lowered = src
    else:
        lowered = lower(src)
    try:
        tree = ast.parse(lowered, filename=path)
    except SyntaxError as e:
        raise PyxSyntaxError('%s:%s: %s' % (path, e.lineno, e.msg))
    rel = os.path.relpath(path, root) if root else path
    u = Unit(path, rel, tree, src)
    _cache[key] = u
    return u


def built_sources(repo):
    """the .pyx files the build compiles: read from setup.py's Extension list
    with ast (root_path + '/x/y.pyx' string concatenations)"""
    setup = os.path.join(repo, 'setup.py')
    tree = ast.parse(open(setup).read())
    out = []
    for node in ast.walk(tree):
        if isinstance(node, ast.BinOp) and isinstance(node.op, ast.Add) \
                and isinstance(node.right, ast.Constant) and isinstance(node.right.value, str) \
                and node.right.value.endswith('.pyx'):
            out.append('compmech' + node.right.value)
    # de-duplicate preserving order (depends= lists repeat files)
    seen, res = set(), []
    for p in out:
        if p not in seen:
            seen.add(p)
            res.append(p)
    return res
