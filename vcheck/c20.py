"""C20 - results depend on the model definition only (typestate + effect rules)."""
import ast
import os
import re

from . import pyflow, pyrules, pyxast, fieldk, panelk
from .kernel import Walker
from .pyflow import CFG, dotted, callee_name
from .pyrules import module, norm
from .report import repo_path, REPO, AnalysisError

LEVEL = 'other'
PANEL = 'compmech/panel/_panel.py'
BAY = 'compmech/stiffpanelbay/stiffpanelbay.py'
CLASSES = [(PANEL, 'Panel'), (BAY, 'StiffPanelBay'),
           ('compmech/stiffener/bladestiff1d.py', 'BladeStiff1D'), ('compmech/stiffener/bladestiff2d.py', 'BladeStiff2D'),
           ('compmech/stiffener/tstiff2d.py', 'TStiff2D')]
PUBLIC = re.compile(r'^(calc_\w+|get_size|lb|freq|static|uvw|uvw_skin|uvw_stiffener|strain|stress)$')


# --------------------------------------------------------------------------
# kernel attribute reads


_kreads = {}


def kernel_reads(fname):
    """attribute paths a compiled kernel function reads from its panel object
    (union over all .pyx modules defining a function of that name)"""
    if fname in _kreads:
        return _kreads[fname]
    out = set()
    rels = list(panelk.MODELS.values()) + list(panelk.NUM_MODELS.values()) + list(fieldk.FIELD.values())
    for rel in rels:
        u = pyxast.parse(repo_path(rel), REPO)
        fn = u.func(fname)
        if fn is None:
            continue
        w = Walker(u, fn)
        for node in ast.walk(fn):
            if isinstance(node, ast.Attribute) and isinstance(node.ctx, ast.Load):
                base = node
                parts = []
                while isinstance(base, ast.Attribute):
                    parts.append(base.attr)
                    base = base.value
                if isinstance(base, ast.Name) and base.id in w.obj_params:
                    out.add(parts[-1])
    _kreads[fname] = out
    return out


# --------------------------------------------------------------------------


class ClassInfo:
    def __init__(self, rel, cls):
        self.rel, self.cls = rel, cls
        self.mod = module(rel)
        self.methods = self.mod.classes.get(cls)
        if self.methods is None:
            raise AnalysisError('anchor vanished: class %s in %s' % (cls, rel))
        self.init_attrs = {}
        init = self.methods.get('__init__')
        if init:
            for n in ast.walk(init):
                if isinstance(n, ast.Assign):
                    for t in n.targets:
                        if isinstance(t, ast.Attribute) and dotted(t.value) == 'self':
                            self.init_attrs.setdefault(t.attr, n.value)
        # direct assignments per method
        self.assigns = {}
        for name, fn in self.methods.items():
            s = set()
            for n in ast.walk(fn):
                tg = n.targets if isinstance(n, ast.Assign) else [n.target] if isinstance(n, ast.AugAssign) else []
                for t in tg:
                    for x in ast.walk(t):
                        if isinstance(x, ast.Attribute) and dotted(x.value) == 'self' and isinstance(x.ctx, ast.Store):
                            s.add(x.attr)
            self.assigns[name] = s
        # transitive establishment through self.m() calls
        self.establish = {k: set(v) for k, v in self.assigns.items()}
        changed = True
        while changed:
            changed = False
            for name, fn in self.methods.items():
                for c in pyflow.calls_in(fn):
                    if isinstance(c.func, ast.Attribute) and dotted(c.func.value) == 'self' and c.func.attr in self.methods:
                        add = self.establish[c.func.attr] - self.establish[name]
                        if add:
                            self.establish[name] |= add
                            changed = True

    def derived(self):
        """lazily derived attributes: None/absent after __init__ and assigned by
        _rebuild / get_size / calc_* (not by the user-facing definition)"""
        cand = set()
        for meth in self.methods:
            if meth == '_rebuild' or meth == 'get_size' or meth.startswith('calc_'):
                cand |= self.assigns[meth]
        # `elif self.x == 1: self.x = 1.0001` regularises a user input, it derives nothing
        for a in list(cand):
            sites = []
            for mname, fn in self.methods.items():
                if mname == '__init__':
                    continue
                for n in ast.walk(fn):
                    if isinstance(n, ast.Assign) and any(isinstance(t, ast.Attribute) and dotted(t.value) == 'self' and t.attr == a for t in n.targets):
                        tests = [norm(t) for t, pol in pyrules.enclosing_tests(fn, n)]
                        sites.append(bool(tests) and ('self.%s==' % a) in tests[-1] and isinstance(n.value, ast.Constant))
            if sites and all(sites):
                cand.discard(a)
        out = set()
        for a in cand:
            iv = self.init_attrs.get(a, 'ABSENT')
            if iv == 'ABSENT' or (isinstance(iv, ast.Constant) and iv.value is None):
                out.add(a)
        # result caches are not derived definition state
        out = {a for a in out if not RESULT_ATTRS.match(a)}
        # attributes the class treats as user input: `if self.x is None: raise ValueError`
        return out - self.user_inputs()

    def user_inputs(self):
        ui = set()
        for fn in self.methods.values():
            for n in ast.walk(fn):
                if isinstance(n, ast.If) and any(isinstance(b, ast.Raise) and 'ValueError' in norm(b) for b in n.body):
                    tests = n.test.values if isinstance(n.test, ast.BoolOp) else [n.test]
                    for t in tests:
                        mm = re.match(r'^self\.(\w+)isNone$', norm(t)) or re.match(r'^notself\.(\w+)$', norm(t))
                        if mm:
                            ui.add(mm.group(1))
        return ui

    def truthy_after_rebuild(self):
        """attributes X for which _rebuild raises when `not self.X` / `self.X is None`"""
        out = set()
        reb = self.methods.get('_rebuild')
        if reb is None:
            return out
        for n in ast.walk(reb):
            if isinstance(n, ast.If) and any(isinstance(b, ast.Raise) for b in n.body):
                t = norm(n.test)
                mm = re.match(r'^notself\.(\w+)$', t) or re.match(r'^self\.(\w+)isNone$', t)
                if mm:
                    out.add(mm.group(1))
        return out


def guarded_read(fn, node):
    """reads that tolerate None: `x is None`, `x if x is not None else d`, `not x`, tests"""
    for p in ast.walk(fn):
        if isinstance(p, ast.Compare) and any(isinstance(c, ast.Constant) and c.value is None for c in p.comparators) and p.left is node:
            return True
        if isinstance(p, ast.IfExp) and pyrules.default_idiom(p) and (p.body is node or p.orelse is node) and pyrules.default_idiom(p)[0] == norm(node):
            return True
        if isinstance(p, ast.UnaryOp) and isinstance(p.op, ast.Not) and p.operand is node:
            return True
        if isinstance(p, (ast.If, ast.While)) and p.test is node:
            return True
        if isinstance(p, ast.BoolOp) and node in p.values and isinstance(getattr(p, '_parent_test', None), object):
            pass
    return False


RESULT_ATTRS = re.compile(r'^(k0|kG0|kM|kA|cA|kT|k0_conn|fext|fint|eigvals|eigvecs|u|v|w|phix|phiy|Xs|Ys|increments|cs|analysis)$')


def check_class(chk, ci, derived_extra=()):
    D = (ci.derived() | set(derived_extra))
    # results caches are not inputs of other evaluations unless read: keep them, reads decide
    n_methods = 0
    for name, fn in sorted(ci.methods.items()):
        if not PUBLIC.match(name):
            continue
        n_methods += 1
        cfg = CFG(fn)
        fname = '%s.%s' % (ci.cls, name)
        # branches made infeasible by _rebuild (it raises unless these attributes are set)
        reb_nodes = [i for i, n in cfg.nodes.items() if n is not None and cfg.header_expr(i) is not None and
                     any(dotted(c.func) == 'self._rebuild' for c in pyflow.calls_in(cfg.header_expr(i)))]
        truthy = ci.truthy_after_rebuild()
        for i, n in list(cfg.nodes.items()):
            if isinstance(n, ast.If):
                mm = re.match(r'^self\.(\w+)isnotNone$', norm(n.test))
                if mm and mm.group(1) in truthy and reb_nodes and cfg.must_pass(i, reb_nodes):
                    body_first = cfg.node_of_stmt(n.body[0])
                    for y in list(cfg.succ[i]):
                        if y != body_first:
                            cfg.succ[i].discard(y)
                            cfg.pred[y].discard(i)
        # deriver nodes per attribute
        deriver = {}
        for i, n in cfg.nodes.items():
            e = cfg.header_expr(i) if n is not None else None
            if e is None:
                continue
            for x in pyflow.names_stored(n) if not isinstance(n, (ast.If, ast.While)) else []:
                if x.startswith('self.'):
                    deriver.setdefault(x[5:].split('.')[0], set()).add(i)
            for c in pyflow.calls_in(e):
                if isinstance(c.func, ast.Attribute) and dotted(c.func.value) == 'self' and c.func.attr in ci.methods:
                    for a in ci.establish[c.func.attr]:
                        deriver.setdefault(a, set()).add(i)
        problems = {}
        # direct reads
        for i, n in cfg.nodes.items():
            e = cfg.header_expr(i) if n is not None else None
            if e is None:
                continue
            for x in ast.walk(e):
                if isinstance(x, ast.Attribute) and isinstance(x.ctx, ast.Load) and dotted(x.value) == 'self' and x.attr in D:
                    if guarded_read(fn, x):
                        continue
                    # the node that assigns the attribute reads nothing stale if the read is on its own rhs default idiom
                    if not cfg.must_pass(i, deriver.get(x.attr, set()) - {i}):
                        problems.setdefault(x.attr, []).append(('self.' + x.attr, x.lineno))
            # reads by kernels that receive self
            for c in pyflow.calls_in(e):
                cn = callee_name(c)
                if cn and (cn.startswith('fk') or cn in ('fcA', 'calc_fint', 'fuvw', 'fstrain', 'fg')) and any(norm(a) == 'self' for a in c.args):
                    for a in kernel_reads(cn) & D:
                        if not cfg.must_pass(i, deriver.get(a, set())):
                            problems.setdefault(a, []).append(('%s reads panel.%s' % (cn, a), c.lineno))
        for attr, sites in sorted(problems.items()):
            what, line = sites[0]
            chk.ob('R20.1', False, ci.rel, fname, 'derive-before-read of ' + attr, line=line,
                   expected='every read of the lazily derived attribute %s is preceded on all paths by its derivation (%s)' % (
                       attr, sorted(m for m, s in ci.assigns.items() if attr in s)[:4]),
                   got='%s at %d site(s) without a preceding derivation in %s' % (what, len(sites), fname),
                   detail='on a freshly defined %s, %s is still %s when %s uses it (%s)' % (
                       ci.cls, attr, 'None' if attr in ci.init_attrs else 'undefined', fname, what))
        if not problems:
            chk.ob('R20.1', True, ci.rel, fname, 'derive-before-read', sample='%s: every read of %s is preceded by its derivation' % (fname, sorted(D)[:6]))
    return n_methods, D


def run(chk):
    chk.level = LEVEL
    chk.trusted = ['python3 ast', 'statement CFG', 'E1 lowering for the attribute reads of the kernels']
    chk.assumptions = ['a method that assigns a derived attribute somewhere is treated as establishing it (may-assign as must-assign)',
                       'bit-identical floating point sums across thread counts are not decided',
                       'staleness after the user edits definition attributes between calls is outside the statement']
    total = 0
    for rel, cls in CLASSES:
        ci = ClassInfo(rel, cls)
        n, D = check_class(chk, ci)
        chk.analysed['derived attributes of ' + cls] = sorted(D)
        total += n
    chk.floor('public evaluation methods analysed', total, 25)
    r20_2(chk)
    r20_3(chk)
    r20_4(chk)
    r20_6(chk)
    # R20.7 what a request leaves in a cache does not depend on the flags of that request
    from . import pyrules
    pyrules.check_conn_cache(chk, 'R20.7')
    # R20.8 a second rebuild after an edit of the definition re-derives what the first one derived (no compute-once guard on a kernel input)
    pyrules.check_geometry_closure(chk, 'R20.8')
    # R20.9 no compute-once guard on derived state anywhere in the package (confirmed default-filling instances tabled)
    pyrules.check_no_compute_once(chk, 'R20.9')
    chk.explanation = ('derive-before-read typestate over the CFG of every public evaluation method (with kernel attribute reads), '
                       'effect analysis on caller-supplied arrays, in-place scalings, prange write-disjointness')


# --------------------------------------------------------------------------
# R20.2 caller inputs are not modified


PY_FILES = ['compmech/panel/_panel.py', 'compmech/panel/assembly/assembly.py', 'compmech/stiffpanelbay/stiffpanelbay.py',
            'compmech/analysis/linear_buckling.py', 'compmech/analysis/freq.py', 'compmech/analysis/static.py',
            'compmech/analysis/newton_raphson.py', 'compmech/sparse.py', 'compmech/conecyl/conecyl.py',
            'compmech/stiffener/bladestiff1d.py', 'compmech/stiffener/bladestiff2d.py', 'compmech/stiffener/tstiff2d.py',
            'compmech/composite/laminate.py']
INPLACE_METHODS = {'fill', 'sort', 'resize', 'put', 'itemset', 'setfield', 'partition', 'clip_', 'setdiag', 'eliminate_zeros', 'sum_duplicates', 'sort_indices'}
OUTPUT_PARAMS = {('fg', 'g'): 'documented output: the shape-function row matrix is filled for the caller',
                 ('cfg', 'g'): 'documented output (called by fg)'}


def param_mutations(fn, skip=('self', 'cls')):
    """in-place modifications of array-like parameters that were not rebound before"""
    params = [a.arg for a in fn.args.args + fn.args.kwonlyargs if a.arg not in skip]
    cfg = CFG(fn)
    rebind = {p: set() for p in params}
    for i, n in cfg.nodes.items():
        if isinstance(n, ast.Assign):
            for t in n.targets:
                for x in ([t] if isinstance(t, ast.Name) else t.elts if isinstance(t, ast.Tuple) else []):
                    if isinstance(x, ast.Name) and x.id in rebind:
                        v = n.value
                        # rebinding to a possible view/alias of itself does not protect the caller
                        txt = norm(v)
                        alias = txt == x.id or re.match(r'^np\.(asarray|ascontiguousarray|atleast_1d|ravel)\(%s[,)]' % x.id, txt) is not None \
                            or re.match(r'^%s\.(ravel|reshape|view)\(' % x.id, txt) is not None
                        if not alias or '.copy()' in txt or 'dtype=' in txt and False:
                            rebind[x.id].add(i)
    out = []
    for i, n in cfg.nodes.items():
        if n is None:
            continue
        e = cfg.header_expr(i)
        hits = []
        tg = n.targets if isinstance(n, ast.Assign) else [n.target] if isinstance(n, ast.AugAssign) else []
        for t in tg:
            if isinstance(t, ast.Subscript) and isinstance(t.value, ast.Name) and t.value.id in params:
                hits.append((t.value.id, 'element store'))
            if isinstance(n, ast.AugAssign) and isinstance(t, ast.Name) and t.id in params:
                hits.append((t.id, 'augmented assignment (in place for arrays)'))
        if e is not None:
            for c in pyflow.calls_in(e):
                if isinstance(c.func, ast.Attribute) and isinstance(c.func.value, ast.Name) and c.func.value.id in params and c.func.attr in INPLACE_METHODS:
                    hits.append((c.func.value.id, 'in-place method .%s()' % c.func.attr))
        for p, how in hits:
            if not rebind[p] or not cfg.must_pass(i, rebind[p]):
                out.append((p, how, n.lineno))
    # local names bound to a possible view of a parameter (c = np.ascontiguousarray(cu); c[dof] *= inc)
    def alias_src(v):
        txt = norm(v)
        for p_ in params:
            if txt == p_ or re.match(r'^np\.(asarray|ascontiguousarray|atleast_1d|ravel|asanyarray)\(%s[,)]' % re.escape(p_), txt) \
                    or re.match(r'^%s\.(ravel|reshape|view|squeeze)\(' % re.escape(p_), txt) or txt == p_ + '.T':
                if '.copy()' not in txt and 'copy=True' not in txt:
                    return p_
        return None
    al, nonal = {}, {}
    for i, n in cfg.nodes.items():
        if isinstance(n, ast.Assign) and len(n.targets) == 1 and isinstance(n.targets[0], ast.Name) and n.targets[0].id not in params:
            src = alias_src(n.value)
            (al if src else nonal).setdefault(n.targets[0].id, []).append((i, src))
    for i, n in cfg.nodes.items():
        tg = n.targets if isinstance(n, ast.Assign) else [n.target] if isinstance(n, ast.AugAssign) else []
        for t in tg:
            if isinstance(t, ast.Subscript) and isinstance(t.value, ast.Name) and t.value.id in al:
                L = t.value.id
                avoid = {j for j, _ in nonal.get(L, [])}
                for a, src in al[L]:
                    # the parameter itself not replaced by a copy before the alias was taken
                    if rebind.get(src) and cfg.must_pass(a, rebind[src]):
                        continue
                    if i in cfg.reachable(a, avoid=avoid):
                        out.append((src, 'element store through %s, a possible view of %s' % (L, src), n.lineno))
                        break
    return out


def r20_2(chk):
    nf = 0
    for rel in PY_FILES:
        mod = module(rel)
        fns = [(None, n, f) for n, f in mod.functions.items()]
        for cls, ms in mod.classes.items():
            fns += [(cls, n, f) for n, f in ms.items()]
        for cls, name, fn in fns:
            if name.startswith('plot') or name in ('__init__', 'save', 'load'):
                continue
            nf += 1
            muts = param_mutations(fn)
            fname = '%s.%s' % (cls, name) if cls else name
            # scalar accumulators (inc *= factor, total += inc ...) are not arrays: only parameters used with subscripts or numpy are arrays
            muts = [(p, how, line) for p, how, line in muts if _arrayish(fn, p)]
            for p, how, line in muts:
                chk.ob('R20.2', False, rel, fname, 'parameter %s modified in place' % p, line=line,
                       expected='caller-supplied arrays/matrices are never modified', got=how)
            if not muts and (name.startswith('calc_') or name in ('lb', 'freq', 'static', 'solve', 'uvw', 'strain', 'stress', '_solver_NR', 'remove_null_cols', 'make_symmetric', 'make_skew_symmetric')):
                chk.ob('R20.2', True, rel, fname, 'caller inputs untouched', sample='%s: no in-place operation on a parameter' % fname)
    chk.floor('functions scanned for parameter mutation', nf, 100)
    # kernels: memoryview / pointer parameters written
    for rel in list(fieldk.FIELD.values()) + list(panelk.MODELS.values()) + list(panelk.NUM_MODELS.values()):
        u = pyxast.parse(repo_path(rel), REPO)
        for name, fn in u.funcs.items():
            if not (name.startswith('f') or name.startswith('calc_')) or name.startswith('cf') and name != 'cfg':
                continue
            params = [a.arg for a in fn.args.args]
            for n in ast.walk(fn):
                tg = n.targets if isinstance(n, ast.Assign) else [n.target] if isinstance(n, ast.AugAssign) else []
                for t in tg:
                    if isinstance(t, ast.Subscript) and isinstance(t.value, ast.Name) and t.value.id in params:
                        ok = (name, t.value.id) in OUTPUT_PARAMS
                        chk.ob('R20.2', ok, rel, name, 'kernel writes parameter ' + t.value.id, line=n.lineno,
                               expected='kernels write only documented outputs', got=norm(t)[:40],
                               sample='%s writes %s: %s' % (name, t.value.id, OUTPUT_PARAMS.get((name, t.value.id))))
                        break


def _arrayish(fn, p):
    for n in ast.walk(fn):
        if isinstance(n, ast.Subscript) and isinstance(n.value, ast.Name) and n.value.id == p:
            return True
        if isinstance(n, ast.Attribute) and isinstance(n.value, ast.Name) and n.value.id == p and n.attr in ('shape', 'dot', 'toarray', 'copy', 'data', 'T', 'dtype'):
            return True
        if isinstance(n, ast.Call) and any(isinstance(a, ast.Name) and a.id == p for a in n.args) and (dotted(n.func) or '').startswith('np.'):
            return True
    return False


# --------------------------------------------------------------------------
# R20.3 idempotence of in-place scalings on attribute-held objects


def r20_3(chk):
    db_keys = list(pyrules.modeldb())
    for rel, cls in CLASSES[:2]:
        mod = module(rel)
        for name, fn in mod.classes[cls].items():
            fname = '%s.%s' % (cls, name)
            # aliases of attribute-held objects: X = self.a.b
            alias = {}
            for n in ast.walk(fn):
                if isinstance(n, ast.Assign) and isinstance(n.targets[0], ast.Name) and isinstance(n.value, ast.Attribute) and (dotted(n.value) or '').startswith('self.'):
                    alias[n.targets[0].id] = dotted(n.value)
            for n in ast.walk(fn):
                if isinstance(n, ast.AugAssign) and isinstance(n.op, (ast.Mult, ast.Div, ast.Add, ast.Sub)) and isinstance(n.target, ast.Subscript):
                    base = n.target.value
                    held = alias.get(base.id) if isinstance(base, ast.Name) else dotted(base) if (dotted(base) or '').startswith('self.') else None
                    if not held:
                        continue
                    # feasible for a registered model?
                    tests = [(t, pol) for t, pol in pyrules.enclosing_tests(fn, n)]
                    feasible = True
                    for t, pol in tests:
                        mm = re.match(r"^'(\w+)'inself\.model$", norm(t))
                        if mm and pol and not any(mm.group(1) in k for k in db_keys):
                            feasible = False
                    chk.ob('R20.3', not feasible, rel, fname, 'in-place scaling of ' + held, line=n.lineno,
                           expected='an evaluation method scales only objects it created in the same call',
                           got=norm(n)[:60] + (' (unreachable: no registered model satisfies the branch condition)' if not feasible else ''),
                           sample='%s: %s is unreachable for the registered models %s' % (fname, norm(n)[:40], db_keys) if not feasible else None)
    # definition attributes rewritten by evaluation methods other than with the None-default idiom
    for rel, cls in CLASSES[:2]:
        ci = ClassInfo(rel, cls)
        reb = ci.methods.get('_rebuild')
        reads = {a for a, l in pyflow.self_attr_reads(reb)} if reb else set()
        for name, fn in ci.methods.items():
            if not (name.startswith('calc_') or name in ('lb', 'freq', 'static')):
                continue
            for n in ast.walk(fn):
                if isinstance(n, ast.Assign) and isinstance(n.targets[0], ast.Attribute) and dotted(n.targets[0].value) == 'self':
                    a = n.targets[0].attr
                    if a in ('Mach',) or (a in reads and a in ci.init_attrs and a not in ci.derived()):
                        okidiom = pyrules.default_idiom(n.value) is not None and pyrules.default_idiom(n.value)[0] == 'self.' + a
                        if not okidiom:
                            chk.note('%s.%s rewrites the definition attribute %s: %s' % (cls, name, a, norm(n)[:60]))
    chk.ob('R20.3', True, PANEL, 'Panel/StiffPanelBay', 'definition attributes', sample='rewrites of definition attributes are listed in the notes: %d' % len(chk.notes))


# --------------------------------------------------------------------------
# R20.4 thread independence (structure)


def r20_4(chk):
    u3, rel3 = fieldk.load(chk, '3dof')
    u1, rel1 = fieldk.load(chk, '1dof')
    fieldk.prange_structure(chk, 'R20.4', u3, rel3, 'fuvw', {'cfuvw', 'cfwx', 'cfwy'})
    fieldk.prange_structure(chk, 'R20.4', u3, rel3, 'fstrain', {'cfstrain'})
    fieldk.prange_structure(chk, 'R20.4', u1, rel1, 'fuvw', {'cfw', 'cfwx', 'cfwy'})
    for h in ('cfuvw', 'cfwx', 'cfwy', 'cfstrain'):
        fieldk.helper_bounds(chk, 'R20.4', u3, rel3, h)
    from . import c17
    c17.integratev_structure(chk, 'R20.4')


# --------------------------------------------------------------------------
# R20.6 attribute accumulators start from a value set in the same call


def _self_target(t):
    base = t
    while isinstance(base, ast.Subscript):
        base = base.value
    d = dotted(base) or ''
    return d if d.startswith('self.') and d.count('.') == 1 else None


def r20_6(chk):
    """an attribute that a method accumulates into (``self.x += ...`` or ``self.x = self.x + ...``)
    must be given a fresh value by a plain assignment on every path to the accumulation within the
    same call; otherwise a second evaluation of the same object starts from the first one's total"""
    n_acc = 0
    for rel in PY_FILES:
        mod = module(rel)
        for cls, methods in mod.classes.items():
            for name, fn in methods.items():
                cfg = None
                for n in ast.walk(fn):
                    held = None
                    if isinstance(n, ast.AugAssign):
                        held = _self_target(n.target)
                    elif isinstance(n, ast.Assign) and len(n.targets) == 1 and isinstance(n.targets[0], ast.Attribute):
                        d = _self_target(n.targets[0])
                        if d and pyrules.default_idiom(n.value) is None and isinstance(n.value, ast.BinOp) and \
                                any((dotted(x) or '') == d for x in ast.walk(n.value) if isinstance(x, ast.Attribute)):
                            held = d
                    if not held:
                        continue
                    cfg = cfg or CFG(fn)
                    i = cfg.node_of_stmt(n)
                    if i is None:
                        continue

                    def fresh(j, m, held=held, me=n):
                        if m is me or not isinstance(m, ast.Assign):
                            return False
                        for t in m.targets:
                            for x in ([t] + (list(t.elts) if isinstance(t, (ast.Tuple, ast.List)) else [])):
                                if (dotted(x) or '') == held:
                                    # a fresh value: the right-hand side does not read the attribute itself
                                    return not any((dotted(y) or '') == held for y in ast.walk(m.value) if isinstance(y, ast.Attribute))
                        return False
                    ws = cfg.ids_where(fresh)
                    # the reset must also lie outside the innermost loop that accumulates (else nothing accumulates) - any dominating reset is accepted
                    ok = bool(ws) and cfg.must_pass(i, ws)
                    n_acc += 1
                    chk.ob('R20.6', ok, rel, '%s.%s' % (cls, name), 'accumulation into ' + held, line=n.lineno,
                           expected='%s is assigned a fresh value on every path from the entry of %s to this statement' % (held, name),
                           got=norm(n)[:70] + (' - no dominating plain assignment in this method; the total of an earlier call is carried over' if not ok else ''),
                           sample='%s.%s: %s starts from a value assigned in the same call' % (cls, name, held))
    chk.floor('R20.6 attribute accumulators', n_acc, 4)
