"""E4 - kernel walker: semantic atoms, emits, loop frame.

A ``Walker`` makes one symbolic pass over a (lowered) kernel function in
statement order.  Scalar temporaries are substituted by their reaching
definitions; calls of the Bardell integral / function tables become *semantic
atoms* decided by callee, loop-index instance and flag set (never by the name
of the temporary); every store ``XXv[c] += E`` is recorded as an *emit* together
with the row/column offsets stored just before it and the loop frame.

Loop-index roles (row side A / column side B / state series S) are assigned
per emit from the ``row = ...`` / ``col = ...`` definitions reaching it, so a
loop variable that is used outside its loop shows up as an unresolved role.
"""
import ast
import os
import re
from fractions import Fraction

from .poly import P, Rat, from_ast, Unsupported, NonMonomialDivision, fmt_poly, nfs

INTEGRALS = {
    # name: (d1, d2, kind) ; kind: full / sub (leading xi1, xi2) / mapped (leading c0, c1)
}
for _n, _d in (('ff', (0, 0)), ('ffxi', (0, 1)), ('ffxixi', (0, 2)), ('fxifxi', (1, 1)),
               ('fxifxixi', (1, 2)), ('fxixifxixi', (2, 2))):
    INTEGRALS['integral_' + _n] = _d + ('full',)
    INTEGRALS['integral_' + _n + '_12'] = _d + ('sub',)
for _n, _d in (('ff', (0, 0)), ('ffxi', (0, 1)), ('fxif', (1, 0)), ('fxifxi', (1, 1)),
               ('fxixifxixi', (2, 2))):
    INTEGRALS['integral_' + _n + '_c0c1'] = _d + ('mapped',)
POINTS = {'calc_f': 0, 'calc_fxi': 1, 'calc_fxixi': 2}
VECS = {'calc_vec_f': 0, 'calc_vec_fxi': 1, 'calc_vec_fxixi': 2}

FLAG = re.compile(r'^([uvw])([12])([tr])([xy])(\d*|[a-z])$')


class Issue:
    def __init__(self, kind, line, msg):
        self.kind, self.line, self.msg = kind, line, msg

    def __repr__(self):
        return '%s@%s: %s' % (self.kind, self.line, self.msg)


class Factor:
    """one basis-function factor: loop-index token, panel tag, field, derivative"""
    __slots__ = ('tok', 'tag', 'field', 'd')

    def __init__(self, tok, tag, field, d):
        self.tok, self.tag, self.field, self.d = tok, tag, field, d

    def s(self):
        return '%s.%s%s%d' % (self.tok, self.tag, self.field, self.d)

    def with_tok(self, tok):
        return Factor(tok, self.tag, self.field, self.d)


class Atoms:
    """registry of structured atoms"""

    def __init__(self):
        self.reg = {}

    def integral(self, direction, kind, f1, f2, limits=None):
        """kind: full/sub -> commutative product; mapped -> ordered (second mapped)"""
        if kind != 'mapped':
            fs = sorted([f1, f2], key=lambda f: f.s())
        else:
            fs = [f1, f2]
        name = ('J' if kind == 'mapped' else 'I') + direction + '[' + fs[0].s() + ',' + fs[1].s() + ']'
        if limits:
            name += '{' + limits[0] + ',' + limits[1] + '}'
        self.reg[name] = ('I', direction, kind, tuple(fs), limits)
        return name

    def point(self, direction, f, at):
        name = 'P' + direction + '[' + f.s() + ']@' + at
        self.reg[name] = ('P', direction, f, at)
        return name

    def retok(self, name, mapping, unresolved=None):
        """rename loop tokens (L<n>) to roles; returns new atom name"""
        info = self.reg.get(name)
        if info is None:
            return name

        def m(f):
            t = mapping.get(f.tok)
            if t is None:
                if unresolved is not None and f.tok.startswith('L'):
                    unresolved.add(f.tok)
                return f
            return f.with_tok(t)
        if info[0] == 'I':
            return self.integral(info[1], info[2], m(info[3][0]), m(info[3][1]), info[4])
        return self.point(info[1], m(info[2]), info[3])


class Loop:
    def __init__(self, lid, var, node, bound, parent, kind):
        self.id = lid
        self.var = var
        self.node = node
        self.bound = bound      # P or None (range(bound))
        self.parent = parent
        self.kind = kind        # 'range' / 'prange' / 'other'
        self.tok = 'L%d' % lid


class Emit:
    def __init__(self):
        self.array = None
        self.index = None        # P : index expression into the array (dense emits)
        self.row = None          # P : stored row expression (coo emits)
        self.col = None
        self.value = None        # P after substitution, loop tokens unresolved
        self.node = None
        self.line = 0
        self.loops = ()          # loop stack (outer..inner)
        self.guards = ()         # unparsed tests of enclosing/preceding guards
        self.env_row = None      # frame definitions reaching the emit
        self.frame = None
        self.kind = 'aug'        # aug (+=) / set (=)


_frame_names = None


def known_frame_name(name):
    global _frame_names
    if os.environ.get('VERIF_FRAME_ALL') == '1':
        return True
    if _frame_names is None:
        import json
        p = os.path.join(os.path.dirname(os.path.abspath(__file__)), 'frame_names.json')
        _frame_names = set(json.load(open(p))) if os.path.exists(p) else None
    return _frame_names is None or name in _frame_names


class Walker:
    def __init__(self, unit, fn, consts=None, state_arrays=()):
        self.unit = unit
        self.fn = fn
        self.consts = dict(consts if consts is not None else unit.module_consts())
        self.atoms = Atoms()
        self.env = {}
        self.frame = {}          # opaque local -> definition (Rat) at last assignment
        self.frame_lines = {}
        self.vecs = {}           # array name -> (deriv, point string, flags tuple, line)
        self.loops = []
        self.all_loops = []
        self.loopvar = {}        # var name -> Loop currently bound (last loop over that var)
        self.emits = []
        self.issues = []
        self.attr_reads = set()
        self.guards = []
        self.pending = {}        # array -> (index poly text, value P, line)
        self.params = [a.arg for a in fn.args.args]
        self.state_arrays = set(state_arrays)
        self.accum = {}          # name -> list of (value P, loops, line, frame snapshot)
        self.calls = []          # (callee, node, loops)
        self.stores = []         # generic subscript stores (array, index nodes, value node, loops, line)
        self.obj_params = self._object_params()
        self.nlid = 0
        self.ncount = 0
        self.tag_pairs = set()   # (tag of the series index' loop bound, tag of the flag set, line)
        self.state_reg = {}      # state atom -> (index base symbol, offset)
        self.lin = {}            # accumulator -> {dof offset: P (roles: S)}
        self.lin_lines = {}
        self.lin_maps = {}
        self.lin_g = {}          # accumulator -> {guards: {dof offset: P}}
        for k, v in self.consts.items():
            self.env[k] = P.const(Fraction(repr(v)))

    # ------------------------------------------------------------------
    def _object_params(self):
        objs = []
        for node in ast.walk(self.fn):
            if isinstance(node, ast.Attribute):
                base = node
                while isinstance(base, ast.Attribute):
                    base = base.value
                if isinstance(base, ast.Name) and base.id in self.params and base.id not in objs:
                    objs.append(base.id)
        return objs

    def tag_of(self, obj):
        m = re.search(r'(\d+)$', obj)
        return m.group(1) if m else ''

    def issue(self, kind, node, msg):
        self.issues.append(Issue(kind, getattr(node, 'lineno', 0), msg))

    # ------------------------------------------------------------------
    def run(self):
        self.walk(self.fn.body)
        # series indices of one panel must always be paired with flag sets of one (and the same) panel
        fwd, bwd = {}, {}
        for it, ft, line in sorted(self.tag_pairs, key=lambda x: x[2]):
            if fwd.setdefault(it, ft) != ft or bwd.setdefault(ft, it) != it:
                self.issues.append(Issue('panel', line, 'series index of panel %r paired with flags of panel %r (elsewhere %r <-> %r)' % (it, ft, it, fwd[it])))
        self.tag_map = fwd
        return self

    def walk(self, body):
        for st in body:
            self.stmt(st)

    def stmt(self, st):
        if isinstance(st, ast.For):
            return self.do_for(st)
        if isinstance(st, ast.If):
            return self.do_if(st)
        if isinstance(st, ast.While):
            self.walk(st.body)
            return
        if isinstance(st, ast.With):
            return self.walk(st.body)
        if isinstance(st, ast.Assign):
            return self.do_assign(st)
        if isinstance(st, ast.AugAssign):
            return self.do_aug(st)
        if isinstance(st, ast.Expr):
            if isinstance(st.value, ast.Call):
                self.do_call_stmt(st.value)
            return
        if isinstance(st, (ast.Pass, ast.Continue, ast.Break, ast.Return, ast.Raise,
                           ast.FunctionDef, ast.Import, ast.ImportFrom, ast.Global)):
            return
        if isinstance(st, ast.Try):
            self.walk(st.body)
            return

    # ---- loops / guards ---------------------------------------------------
    def do_for(self, st):
        it = st.iter
        kind, bound = 'other', None
        if isinstance(it, ast.Call) and isinstance(it.func, ast.Name) and it.func.id in ('range', 'prange'):
            kind = it.func.id
            try:
                if len(it.args) == 1:
                    bound = self.ev(it.args[0])
            except (Unsupported, NonMonomialDivision):
                bound = None
        targets = []
        if isinstance(st.target, ast.Name):
            targets = [st.target.id]
        elif isinstance(st.target, ast.Tuple):
            targets = [e.id for e in st.target.elts if isinstance(e, ast.Name)]
        loops = []
        saved = {}
        for v in targets:
            self.nlid += 1
            lp = Loop(self.nlid, v, st, bound, self.loops[-1] if self.loops else None, kind)
            loops.append(lp)
            self.all_loops.append(lp)
            self.loops.append(lp)
            saved[v] = self.env.get(v)
            self.loopvar[v] = lp
            self.env[v] = P.sym(lp.tok)
        nguards = len(self.guards)
        self.walk(st.body)
        del self.guards[nguards:]
        for lp in loops:
            self.loops.pop()
        # after the loop the variable keeps its last value: still the token of
        # that loop instance (uses outside are reported by the loop-scope rule
        # and show up as unresolved roles)

    def do_if(self, st):
        # canonical polarity: `if a != b: X else: Y` is walked as `if a == b: Y else: X` (same guard texts as the positive spelling)
        t = st.test
        pos = None
        if isinstance(t, ast.UnaryOp) and isinstance(t.op, ast.Not):
            pos = t.operand
        elif isinstance(t, ast.Compare) and len(t.ops) == 1 and isinstance(t.ops[0], (ast.NotEq, ast.IsNot)):
            pos = ast.Compare(left=t.left, ops=[ast.Eq() if isinstance(t.ops[0], ast.NotEq) else ast.Is()], comparators=t.comparators)
        if pos is not None and st.orelse and not (len(st.body) == 1 and isinstance(st.body[0], ast.Continue)):
            st = ast.If(test=pos, body=st.orelse, orelse=st.body)
            ast.copy_location(st, t)
            ast.fix_missing_locations(st)
        test = ast.unparse(st.test)
        # 'if cond: continue' guards the rest of the loop body
        if len(st.body) == 1 and isinstance(st.body[0], ast.Continue) and not st.orelse:
            self.guards.append('skip-if ' + test)
            return
        if isinstance(st.test, ast.Name) and st.test.id in ('NOGIL', 'GIL', 'True'):
            return self.walk(st.body)
        self.guards.append('if ' + test)
        self.walk(st.body)
        self.guards.pop()
        if st.orelse:
            self.guards.append('else-of ' + test)
            self.walk(st.orelse)
            self.guards.pop()

    # ---- expression evaluation --------------------------------------------
    def ev(self, node):
        return from_ast(node, self.env, self.leaf)

    def nf(self, node):
        """normal-form string of an expression (for limits / points / indices)"""
        try:
            return nfs(self.ev(node))
        except (Unsupported, NonMonomialDivision):
            return ast.unparse(node).replace(' ', '')

    def leaf(self, node):
        if isinstance(node, ast.Attribute):
            parts = []
            base = node
            while isinstance(base, ast.Attribute):
                parts.append(base.attr)
                base = base.value
            if isinstance(base, ast.Name) and base.id in self.obj_params:
                path = '.'.join(reversed(parts))
                self.attr_reads.add((base.id, path))
                return P.sym(path + self.tag_of(base.id))
            return None
        if isinstance(node, ast.Call):
            return self.leaf_call(node)
        if isinstance(node, ast.Subscript):
            return self.leaf_subscript(node)
        return None

    def _flagset(self, args, node):
        """four flag arguments -> (field, dir, tag) or None (issue recorded)"""
        vals = []
        for a in args:
            try:
                v = self.ev(a)
            except (Unsupported, NonMonomialDivision):
                v = None
            name = None
            if v is not None and len(v.t) == 1:
                (mono, c), = v.t.items()
                if c == 1 and len(mono) == 1 and mono[0][1] == 1:
                    name = mono[0][0]
            vals.append(name)
        ms = [FLAG.match(v) if v else None for v in vals]
        if not all(ms):
            self.issue('flags', node, 'flag arguments are not edge-flag attributes: %s' % [ast.unparse(a) for a in args])
            return None
        field = {m.group(1) for m in ms}
        dirs = {m.group(4) for m in ms}
        tags = {m.group(5) for m in ms}
        order = [(m.group(2), m.group(3)) for m in ms]
        if len(field) != 1 or len(dirs) != 1 or len(tags) != 1 or order != [('1', 't'), ('1', 'r'), ('2', 't'), ('2', 'r')]:
            self.issue('flags', node, 'inconsistent flag set %s (need 1t,1r,2t,2r of one field/direction/panel)' % vals)
            return None
        return field.pop(), dirs.pop(), tags.pop()

    def _index(self, arg, node):
        """index argument -> (loop token, direction from loop bound, tag) or None"""
        try:
            v = self.ev(arg)
        except (Unsupported, NonMonomialDivision):
            v = None
        tok = None
        if v is not None and len(v.t) == 1:
            (mono, c), = v.t.items()
            if c == 1 and len(mono) == 1 and mono[0][1] == 1 and mono[0][0].startswith('L'):
                tok = mono[0][0]
        if tok is None:
            self.issue('index', node, 'series index argument %s is not a loop variable' % ast.unparse(arg))
            return None
        lp = next(l for l in self.all_loops if l.tok == tok)
        direction, tag = None, None
        if lp.bound is not None and len(lp.bound.t) == 1:
            (mono, c), = lp.bound.t.items()
            if c == 1 and len(mono) == 1 and mono[0][1] == 1:
                m = re.match(r'^([mn])(\d*)$', mono[0][0])
                if m:
                    direction = 'x' if m.group(1) == 'm' else 'y'
                    tag = m.group(2)
        return tok, direction, tag

    def leaf_call(self, node):
        name = node.func.id if isinstance(node.func, ast.Name) else None
        if name is None:
            # method / module calls (np.zeros, np.ascontiguousarray, x.reshape ...)
            # produce arrays or objects, never scalars of the arithmetic
            raise Unsupported('object-valued call ' + ast.unparse(node.func))
        if name in INTEGRALS:
            d1, d2, kind = INTEGRALS[name]
            args = node.args
            lead = 0 if kind == 'full' else 2
            if len(args) != lead + 10:
                self.issue('arity', node, '%s called with %d arguments' % (name, len(args)))
                return P.sym('BAD(%s@%d)' % (name, node.lineno))
            limits = None
            if lead:
                limits = (self.nf(args[0]), self.nf(args[1]))
            i1 = self._index(args[lead], node)
            i2 = self._index(args[lead + 1], node)
            f1 = self._flagset(args[lead + 2:lead + 6], node)
            f2 = self._flagset(args[lead + 6:lead + 10], node)
            if not (i1 and i2 and f1 and f2):
                return P.sym('BAD(%s@%d)' % (name, node.lineno))
            if kind == 'mapped':
                # the two factors live on different panels/directions may agree
                dirs = {f1[1], f2[1]}
            else:
                dirs = {f1[1], f2[1]}
            if len(dirs) != 1:
                self.issue('direction', node, '%s mixes x and y flag sets' % name)
                return P.sym('BAD(%s@%d)' % (name, node.lineno))
            direction = dirs.pop()
            for (tok, idir, itag), (field, fdir, ftag), which in ((i1, f1, 'first'), (i2, f2, 'second')):
                if idir is not None and idir != fdir:
                    self.issue('direction', node, '%s: %s index runs over %s-terms but its flags are %s-flags' % (name, which, idir, fdir))
                if itag is not None:
                    self.tag_pairs.add((itag, ftag, node.lineno))
            a = self.atoms.integral(direction, kind,
                                    Factor(i1[0], f1[2], f1[0], d1), Factor(i2[0], f2[2], f2[0], d2), limits)
            return P.sym(a)
        if name in POINTS:
            d = POINTS[name]
            args = node.args
            if len(args) != 6:
                self.issue('arity', node, '%s called with %d arguments' % (name, len(args)))
                return P.sym('BAD(%s@%d)' % (name, node.lineno))
            i1 = self._index(args[0], node)
            f1 = self._flagset(args[2:6], node)
            if not (i1 and f1):
                return P.sym('BAD(%s@%d)' % (name, node.lineno))
            if i1[1] is not None and i1[1] != f1[1]:
                self.issue('direction', node, '%s: index runs over %s-terms but flags are %s-flags' % (name, i1[1], f1[1]))
            if i1[2] is not None:
                self.tag_pairs.add((i1[2], f1[2], node.lineno))
            a = self.atoms.point(f1[1], Factor(i1[0], f1[2], f1[0], d), self.nf(args[1]))
            return P.sym(a)
        if name == 'float' and len(node.args) == 1:
            return self.ev(node.args[0])
        if name in ('sin', 'cos', 'tan', 'sqrt', 'exp', 'fabs', 'abs', 'atan', 'deg2rad', 'pow', 'sum'):
            return P.sym('%s(%s)' % (name, ','.join(self.nf(a) for a in node.args)))
        return None

    def leaf_subscript(self, node):
        base = node.value
        if isinstance(base, ast.Name) and base.id in self.vecs:
            d, at, flags, line = self.vecs[base.id]
            idx = self._index(node.slice, node)
            if idx is None or flags is None:
                return P.sym('BAD(%s@%d)' % (base.id, node.lineno))
            if idx[1] is not None and idx[1] != flags[1]:
                self.issue('direction', node, '%s[%s]: index runs over %s-terms but the vector holds %s-functions' % (base.id, ast.unparse(node.slice), idx[1], flags[1]))
            return P.sym(self.atoms.point(flags[1], Factor(idx[0], flags[2], flags[0], d), at))
        if isinstance(base, ast.Name) and base.id in self.state_arrays:
            try:
                iv = self.ev(node.slice)
            except (Unsupported, NonMonomialDivision):
                return None
            off, b = MatrixKernel._split(iv)
            name = '%s[%s]' % (base.id, nfs(iv))
            self.state_reg[name] = (b, off)
            return P.sym(name)
        # generic: base value + normal forms of the indices
        try:
            if isinstance(base, ast.Name):
                bv = self.env.get(base.id)
                bname = base.id
                if bv is not None and len(bv.t) == 1:
                    (mono, c), = bv.t.items()
                    if c == 1 and len(mono) == 1 and mono[0][1] == 1:
                        bname = mono[0][0]
            elif isinstance(base, ast.Attribute):
                bv = self.leaf(base)
                if bv is None:
                    return None
                (mono, c), = bv.t.items()
                bname = mono[0][0]
            else:
                return None
            sl = node.slice
            idxs = sl.elts if isinstance(sl, ast.Tuple) else [sl]
            return P.sym('%s[%s]' % (bname, ';'.join(self.nf(i) for i in idxs)))
        except (Unsupported, NonMonomialDivision, ValueError):
            return None

    # ---- statements ------------------------------------------------------
    def do_call_stmt(self, call):
        name = call.func.id if isinstance(call.func, ast.Name) else None
        self.calls.append((name, call, tuple(self.loops)))
        if name in VECS and len(call.args) == 6 and isinstance(call.args[0], ast.Name):
            flags = self._flagset(call.args[2:6], call)
            self.vecs[call.args[0].id] = (VECS[name], self.nf(call.args[1]), flags, call.lineno)

    def _is_plain(self, v):
        """no semantic atoms inside (pure geometry / parameters)"""
        for a in v.atoms():
            if a in self.atoms.reg or a.startswith('F[') or a.startswith('BAD('):
                return False
        return True

    def do_assign(self, st):
        if len(st.targets) != 1:
            return
        t = st.targets[0]
        if isinstance(t, ast.Tuple) and isinstance(st.value, ast.Tuple) and len(t.elts) == len(st.value.elts):
            for tt, vv in zip(t.elts, st.value.elts):
                fake = ast.Assign(targets=[tt], value=vv, lineno=st.lineno)
                self.do_assign(fake)
            return
        if isinstance(t, ast.Name):
            self.assign_name(t.id, st.value, st)
            return
        if isinstance(t, ast.Subscript) and isinstance(t.value, ast.Name):
            self.assign_subscript(t, st.value, st, aug=False)

    def assign_name(self, name, value, st):
        self._int_division(value)
        try:
            v = self.ev(value)
        except NonMonomialDivision:
            try:
                r = from_ast(value, self.env, self.leaf, ring=Rat)
                self.frame['$' + name] = r
                self.frame_lines['$' + name] = st.lineno
            except Exception:
                self.frame.pop('$' + name, None)
            self.env[name] = P.sym('$' + name)
            return
        except Unsupported:
            self.env.pop(name, None)
            self.frame.pop('$' + name, None)
            return
        if len(v.t) <= 1 or not self._is_plain(v) or not known_frame_name(name):
            # (a loop invariant hoisted under a name that is not one of the frame scalars of the confirmed tree is just its value)
            self.env[name] = v
            self.frame.pop('$' + name, None)
        else:
            # non-monomial pure geometry stays opaque ('$name'); definition kept in the frame
            self.env[name] = P.sym('$' + name)
            self.frame['$' + name] = Rat(v)
            self.frame_lines['$' + name] = st.lineno

    def _int_division(self, value):
        for n in ast.walk(value):
            if isinstance(n, ast.BinOp) and isinstance(n.op, ast.Div) \
                    and isinstance(n.left, ast.Constant) and isinstance(n.right, ast.Constant) \
                    and isinstance(n.left.value, int) and isinstance(n.right.value, int) \
                    and not isinstance(n.left.value, bool) and n.left.value % n.right.value != 0:
                self.issue('int-division', n, 'C integer division %s truncates under cdivision' % ast.unparse(n))

    def assign_subscript(self, t, value, st, aug):
        arr = t.value.id
        self._int_division(value)
        sl = t.slice
        idxs = sl.elts if isinstance(sl, ast.Tuple) else [sl]
        # x[c] = x[c] + E  ==  x[c] += E
        if not aug and isinstance(value, ast.BinOp) and isinstance(value.op, ast.Add) \
                and isinstance(value.left, ast.Subscript) and ast.unparse(value.left) == ast.unparse(t):
            value = value.right
            aug = True
        # out[c] = beta*out[c] + alpha*E is kept as a 'set' emit with the
        # self reference left as an opaque atom
        try:
            v = self.ev(value)
        except (Unsupported, NonMonomialDivision) as e:
            self.stores.append((arr, idxs, value, tuple(self.loops), st.lineno, None, aug))
            return
        e = Emit()
        e.array = arr
        e.index = [self.nf(i) for i in idxs]
        e.index_nodes = idxs
        e.index_polys = []
        for i in idxs:
            try:
                e.index_polys.append(self.ev(i))
            except (Unsupported, NonMonomialDivision):
                e.index_polys.append(None)
        e.value = v
        e.node = st
        e.line = st.lineno
        e.loops = tuple(self.loops)
        e.guards = tuple(self.guards)
        e.frame = dict(self.frame)
        e.kind = 'aug' if aug else 'set'
        e.pending = dict(self.pending)
        self.pending[arr] = e
        self.emits.append(e)

    def do_aug(self, st):
        t = st.target
        if isinstance(t, ast.Subscript) and isinstance(t.value, ast.Name):
            if isinstance(st.op, ast.Add):
                return self.assign_subscript(t, st.value, st, aug=True)
            if isinstance(st.op, ast.Sub):
                neg = ast.UnaryOp(op=ast.USub(), operand=st.value)
                ast.copy_location(neg, st.value)
                return self.assign_subscript(t, neg, st, aug=True)
            if isinstance(st.op, ast.Mult):
                self.stores.append((t.value.id, [t.slice], st.value, tuple(self.loops), st.lineno, 'mul', True))
            return
        if isinstance(t, ast.Name):
            name = t.id
            self._int_division(st.value)
            try:
                v = self.ev(st.value)
            except (Unsupported, NonMonomialDivision):
                self.env.pop(name, None)
                return
            if isinstance(st.op, ast.Sub):
                v = -v
            elif isinstance(st.op, ast.Mult):
                cur = self.env.get(name)
                if cur is not None:
                    self.env[name] = cur * v
                self.accum.setdefault(name, []).append(('mul', v, tuple(self.loops), st.lineno, dict(self.frame), tuple(self.guards)))
                return
            elif not isinstance(st.op, ast.Add):
                self.env.pop(name, None)
                return
            self.accum.setdefault(name, []).append(('add', v, tuple(self.loops), st.lineno, dict(self.frame), tuple(self.guards)))
            if self.state_arrays and any(a in self.state_reg for a in v.atoms()):
                return self.accumulate_state(name, v, st)
            # pure counters (c += 1): every increment opens a new generation so
            # that stores at 'the same position' can be recognised
            if v.t and set(v.t) == {()}:
                self.ncount += 1
                self.env[name] = P.sym('%s#%d' % (name, self.ncount))
                return
            cur = self.env.get(name, P())
            self.env[name] = cur + v

    def accumulate_state(self, name, v, st):
        """``acc += c[col+d]*phi`` inside the series loops: the accumulated
        quantity is the linear form sum_S c_{S,d} phi_S.  Monomials that are not
        of degree exactly one in the amplitude vector are reported (a power of a
        series *term* is not a function of the field)."""
        cur = self.env.get(name, P())
        tot = P.sym('@' + name)
        if cur.t and cur != tot:
            # a value assigned before the series loop other than zero
            self.issue('accumulator-base', st, '%s starts from %r before the series accumulation' % (name, cur))
        lin = self.lin.setdefault(name, {})
        self.lin_lines.setdefault(name, st.lineno)
        for mono, c in v.t.items():
            st_atoms = [(s, e) for s, e in mono if s in self.state_reg]
            deg = sum(e for s, e in st_atoms)
            if deg != 1:
                self.issue('nonlinear-accumulation', st,
                           '%s accumulates a term of degree %d in the amplitudes inside the series loop: %s' % (
                               name, deg, '*'.join('%s^%d' % x for x in st_atoms)))
                continue
            atom = st_atoms[0][0]
            base, off = self.state_reg[atom]
            fdef = self.frame.get(base)
            if fdef is None:
                self.issue('state-index', st, 'no definition of the amplitude index base %s' % base)
                continue
            mapping = {tok: 'S' for tok in self.loop_tokens(fdef)}
            rest = P({tuple(x for x in mono if x[0] != atom): c})
            res, unresolved = self.resolve(rest, mapping)
            if unresolved:
                self.issue('stale-index', st, '%s: series factor uses an index that is not the amplitude index' % name)
            lin[off] = lin.get(off, P()) + res
            lg = self.lin_g.setdefault(name, {}).setdefault(tuple(self.guards), {})
            lg[off] = lg.get(off, P()) + res
            self.lin_maps.setdefault(name, []).append((fdef, mapping, st.lineno))
        self.env[name] = tot

    # ------------------------------------------------------------------
    # role resolution
    def loop_tokens(self, poly_or_rat):
        toks = set()
        ps = [poly_or_rat.n, poly_or_rat.d] if isinstance(poly_or_rat, Rat) else [poly_or_rat]
        for p in ps:
            for a in p.atoms():
                if re.match(r'^L\d+$', a):
                    toks.add(a)
        return toks

    def resolve(self, value, mapping):
        """rename loop tokens inside semantic atoms; -> (P, unresolved tokens)"""
        unresolved = set()
        cache = {}

        def fn(a):
            if a not in cache:
                cache[a] = self.atoms.retok(a, mapping, unresolved)
            return cache[a]
        out = value.rename(fn)
        # bare loop tokens left in the value (index used as a number)
        for a in out.atoms():
            if re.match(r'^L\d+$', a):
                unresolved.add(a)
        return out, unresolved


def find_coo(fn):
    """coo_matrix((v, (r, c)), shape=...) calls -> list of (v, r, c, result name)"""
    out = []
    for st in ast.walk(fn):
        if isinstance(st, ast.Assign) and isinstance(st.value, ast.Call) \
                and getattr(st.value.func, 'id', getattr(st.value.func, 'attr', '')) == 'coo_matrix' \
                and st.value.args and isinstance(st.value.args[0], ast.Tuple):
            tup = st.value.args[0]
            if len(tup.elts) == 2 and isinstance(tup.elts[1], ast.Tuple) and len(tup.elts[1].elts) == 2:
                v = tup.elts[0]
                r, c = tup.elts[1].elts
                if all(isinstance(x, ast.Name) for x in (v, r, c)):
                    tgt = st.targets[0].id if isinstance(st.targets[0], ast.Name) else None
                    out.append((v.id, r.id, c.id, tgt))
    return out


class MatrixKernel:
    """coo-matrix kernel: emits grouped by (row offset, column offset) with
    roles resolved.  ``blocks`` maps (P, Q) -> list of (polynomial, Emit)."""

    def __init__(self, unit, fname, state_arrays=()):
        self.unit = unit
        self.fname = fname
        self.fn = unit.func(fname)
        if self.fn is None:
            raise KeyError('%s not found in %s' % (fname, unit.rel))
        self.w = Walker(unit, self.fn, state_arrays=state_arrays).run()
        self.issues = list(self.w.issues)
        coo = find_coo(self.fn)
        if len(coo) != 1:
            raise KeyError('%s: expected one coo_matrix triple, found %d' % (fname, len(coo)))
        self.varr, self.rarr, self.carr, self.result = coo[0]
        self.blocks = {}
        self.row_defs = []
        self.other_arrays = set()
        self._collect()

    def _collect(self):
        w = self.w
        for e in w.emits:
            if e.array in (self.rarr, self.carr):
                continue
            if e.array != self.varr:
                self.other_arrays.add(e.array)
                continue
            r = e.pending.get(self.rarr)
            c = e.pending.get(self.carr)
            if r is None or c is None:
                self.issues.append(Issue('emit', e.line, 'value stored before row/column indices'))
                continue
            if r.index != e.index or c.index != e.index:
                self.issues.append(Issue('emit', e.line, 'row/column/value stored at different positions %s %s %s' % (r.index, c.index, e.index)))
            # row value = base symbol + constant offset
            roff, rbase = self._split(r.value)
            coff, cbase = self._split(c.value)
            if rbase is None or cbase is None:
                self.issues.append(Issue('emit', e.line, 'row/column index is not base+offset: %r / %r' % (r.value, c.value)))
                continue
            rdef = e.frame.get(rbase)
            cdef = e.frame.get(cbase)
            if rdef is None or cdef is None:
                self.issues.append(Issue('emit', e.line, 'no reaching definition for %s / %s' % (rbase, cbase)))
                continue
            mapping = {}
            for tok in w.loop_tokens(rdef):
                mapping[tok] = 'A'
            for tok in w.loop_tokens(cdef):
                if mapping.get(tok) == 'A':
                    self.issues.append(Issue('roles', e.line, 'loop variable used for both row and column'))
                mapping[tok] = 'B'
            val, unresolved = w.resolve(e.value, mapping)
            if unresolved:
                names = sorted(next(l.var for l in w.all_loops if l.tok == t) for t in unresolved)
                self.issues.append(Issue('stale-index', e.line,
                                         'emit (%d,%d) uses series index %s that is neither the row nor the column index of this entry' % (roff, coff, names)))
            e.roff, e.coff, e.rbase, e.cbase, e.rdef, e.cdef, e.mapping = roff, coff, rbase, cbase, rdef, cdef, mapping
            e.resolved = val
            self.blocks.setdefault((roff, coff), []).append(e)
            self.row_defs.append((rbase, rdef, cbase, cdef, mapping, e))

    @staticmethod
    def _split(v):
        """P = sym(base) + const -> (const, base)"""
        base, off = None, 0
        for mono, c in v.t.items():
            if mono == ():
                if c.denominator != 1:
                    return None, None
                off = int(c)
            elif len(mono) == 1 and mono[0][1] == 1 and c == 1 and base is None:
                base = mono[0][0]
            else:
                return None, None
        return off, base

    def block(self, pq):
        """sum of the emits into block pq within one innermost iteration"""
        es = self.blocks.get(pq, [])
        tot = P()
        for e in es:
            tot = tot + e.resolved
        return tot


class VectorKernel:
    """dense-vector kernel (calc_fint): emits ``vec[base+d] += E``; the loop
    indices of ``base`` are the row role A.  ``entries`` maps d -> [Emit]"""

    def __init__(self, unit, fname, array, state_arrays=()):
        self.unit = unit
        self.fname = fname
        self.fn = unit.func(fname)
        if self.fn is None:
            raise KeyError('%s not found in %s' % (fname, unit.rel))
        self.w = Walker(unit, self.fn, state_arrays=state_arrays).run()
        self.issues = list(self.w.issues)
        self.array = array
        self.entries = {}
        self.other_arrays = set()
        w = self.w
        for e in w.emits:
            if e.array != array:
                self.other_arrays.add(e.array)
                continue
            try:
                iv = w.ev(e.index_nodes[0])
            except (Unsupported, NonMonomialDivision):
                self.issues.append(Issue('emit', e.line, 'cannot read the index of %s' % array))
                continue
            off, base = MatrixKernel._split(iv)
            # the walker's env may have moved on; use the frame captured at the emit
            fdef = e.frame.get(base) if base else None
            if fdef is None:
                self.issues.append(Issue('emit', e.line, 'index of %s is not base+offset with a reaching definition' % array))
                continue
            mapping = {tok: 'A' for tok in w.loop_tokens(fdef)}
            val, unresolved = w.resolve(e.value, mapping)
            if unresolved:
                self.issues.append(Issue('stale-index', e.line, 'entry %d uses a series index that is not the row index' % off))
            e.off, e.base, e.fdef, e.mapping, e.resolved = off, base, fdef, mapping, val
            self.entries.setdefault(off, []).append(e)

    def entry(self, d):
        tot = P()
        for e in self.entries.get(d, []):
            tot = tot + e.resolved
        return tot


# --------------------------------------------------------------------------
# loop-scope rule (R16.5): an index variable or a temporary computed from one
# must not be used outside the loop that defines it.


def loop_scope_hits(fn):
    hits = []
    params = {a.arg for a in fn.args.args}
    defs = {}
    uses = []

    def names_in(node):
        return [n for n in ast.walk(node) if isinstance(n, ast.Name) and isinstance(n.ctx, ast.Load)]

    def visit(node, path):
        if isinstance(node, ast.For):
            p2 = path + (id(node),)
            for t in ast.walk(node.target):
                if isinstance(t, ast.Name):
                    defs.setdefault(t.id, []).append(p2)
            for n in names_in(node.iter):
                uses.append((n.id, path, n.lineno))
            for st in node.body:
                visit(st, p2)
            return
        if isinstance(node, (ast.Assign, ast.AugAssign)):
            tg = node.targets if isinstance(node, ast.Assign) else [node.target]
            for t in tg:
                if isinstance(t, ast.Name):
                    if isinstance(node, ast.AugAssign):
                        uses.append((t.id, path, node.lineno))
                    defs.setdefault(t.id, []).append(path)
                elif isinstance(t, ast.Tuple):
                    for e in t.elts:
                        if isinstance(e, ast.Name):
                            defs.setdefault(e.id, []).append(path)
                else:
                    for n in names_in(t):
                        uses.append((n.id, path, n.lineno))
            for n in names_in(node.value):
                uses.append((n.id, path, n.lineno))
            return
        if isinstance(node, (ast.If, ast.While)):
            for n in names_in(node.test):
                uses.append((n.id, path, n.lineno))
            for st in node.body + node.orelse:
                visit(st, path)
            return
        if isinstance(node, ast.With):
            for st in node.body:
                visit(st, path)
            return
        if isinstance(node, ast.Expr):
            for n in names_in(node.value):
                uses.append((n.id, path, n.lineno))
            return
        if isinstance(node, ast.Return) and node.value is not None:
            for n in names_in(node.value):
                uses.append((n.id, path, n.lineno))

    for st in fn.body:
        if not isinstance(st, ast.FunctionDef):
            visit(st, ())
    seen = set()
    for name, path, line in uses:
        if name in params or name not in defs:
            continue
        if not any(path[:len(d)] == d for d in defs[name]):
            if name in seen:
                continue
            seen.add(name)
            hits.append((name, line))
    return hits


def stale_iteration_reads(fn):
    """reads, inside a loop body, of a plain local that the same loop body assigns only
    *after* the read (and that is not an accumulator): the read sees the value of the
    previous iteration - or, in the first iteration, whatever an earlier loop left behind.
    Returns [(name, line of the read, line of the later definition)]."""
    params = {a.arg for a in fn.args.args}
    accum = set()
    for n in ast.walk(fn):
        if isinstance(n, ast.AugAssign) and isinstance(n.target, ast.Name):
            accum.add(n.target.id)
        # x = x + ... style accumulators
        if isinstance(n, ast.Assign) and len(n.targets) == 1 and isinstance(n.targets[0], ast.Name):
            if any(isinstance(m, ast.Name) and m.id == n.targets[0].id for m in ast.walk(n.value)):
                accum.add(n.targets[0].id)
    hits = []

    def events(body, out):
        """program-order events of one loop body (nested loops included): ('use'|'def', name, line)"""
        for st in body:
            if isinstance(st, ast.For):
                for n in ast.walk(st.iter):
                    if isinstance(n, ast.Name):
                        out.append(('use', n.id, n.lineno))
                for t in ast.walk(st.target):
                    if isinstance(t, ast.Name):
                        out.append(('def', t.id, st.lineno))
                events(st.body, out)
            elif isinstance(st, (ast.If, ast.While)):
                for n in ast.walk(st.test):
                    if isinstance(n, ast.Name):
                        out.append(('use', n.id, n.lineno))
                events(st.body, out)
                events(st.orelse, out)
            elif isinstance(st, ast.With):
                events(st.body, out)
            elif isinstance(st, (ast.Assign, ast.AugAssign)):
                for n in ast.walk(st.value):
                    if isinstance(n, ast.Name) and isinstance(n.ctx, ast.Load):
                        out.append(('use', n.id, n.lineno))
                tg = st.targets if isinstance(st, ast.Assign) else [st.target]
                for t in tg:
                    if isinstance(t, ast.Name):
                        out.append(('def', t.id, st.lineno))
                    elif isinstance(t, ast.Tuple):
                        for e in t.elts:
                            if isinstance(e, ast.Name):
                                out.append(('def', e.id, st.lineno))
                    else:
                        for n in ast.walk(t):
                            if isinstance(n, ast.Name) and isinstance(n.ctx, ast.Load):
                                out.append(('use', n.id, n.lineno))
            elif isinstance(st, (ast.Expr, ast.Return)) and getattr(st, 'value', None) is not None:
                for n in ast.walk(st.value):
                    if isinstance(n, ast.Name) and isinstance(n.ctx, ast.Load):
                        out.append(('use', n.id, n.lineno))

    seen = set()
    for loop in [n for n in ast.walk(fn) if isinstance(n, ast.For)]:
        ev = []
        events(loop.body, ev)
        defined = set(t.id for t in ast.walk(loop.target) if isinstance(t, ast.Name))
        first_def = {}
        for kind, name, line in ev:
            if kind == 'def':
                first_def.setdefault(name, line)
        done = set(defined)
        for kind, name, line in ev:
            if kind == 'def':
                done.add(name)
            elif name not in done and name in first_def and name not in params and name not in accum and (name, line) not in seen:
                seen.add((name, line))
                hits.append((name, line, first_def[name]))
    return hits
