"""C18 - shell loads, prescribed amplitudes and partitioning: named clauses only."""
import ast
import os
import re

from . import pyflow, pyrules, pyxast, shellk
from .poly import P, Rat, from_ast, nfs
from .pyflow import dotted, callee_name, CFG
from .pyrules import module, norm, local_defs
from .report import repo_path, REPO, AnalysisError

LEVEL = 'other'
CONECYL = 'compmech/conecyl/conecyl.py'
COMMONS = ['compmech/conecyl/clpt/clpt_commons_bc%s.pyx' % b for b in '1234'] + \
          ['compmech/conecyl/fsdt/fsdt_commons_bc%s.pyx' % b for b in ('1', '2', '3', '4', 'n')]
S, C = P.sym, P.const


def r18_1(chk):
    """fg (cfgss) is the gradient of the displacement the package reports (cfuvw)"""
    n = 0
    for rel in COMMONS:
        if not os.path.exists(repo_path(rel)):
            raise AnalysisError('anchor file missing: ' + rel)
        u = pyxast.parse(repo_path(rel), REPO)
        fu = u.func('cfuvw')
        fgp = u.func('fg')
        chk.need(fu is not None and fgp is not None, 'cfuvw / fg vanished in ' + rel)
        helpers = [c.func.id for c in pyflow.calls_in(fgp) if isinstance(c.func, ast.Name) and u.func(c.func.id) is not None]
        chk.need(len(helpers) == 1, 'fg in %s: expected one helper call' % rel)
        fgs = u.func(helpers[0])
        call = [c for c in pyflow.calls_in(fgp) if isinstance(c.func, ast.Name) and c.func.id == helpers[0]][0]
        fwd = [norm(a) for a in call.args] == [a.arg for a in fgs.args.args] == [a.arg for a in fgp.args.args]
        chk.ob('R18.1', fwd, rel, 'fg', 'forwards its arguments to %s in order' % helpers[0], got=[norm(a) for a in call.args])
        state = fu.args.args[0].arg
        eu = shellk.Eval(u, fu, state=state, alias={'xs[i]': 'x', 'ts[i]': 't'}).run()
        eg = shellk.Eval(u, fgs).run()
        outs = [(arr, val) for arr, idx, val, line, loops, guards, aug in eu.stores if idx is not None and not aug]
        # outputs in signature order
        params = [a.arg for a in fu.args.args]
        outs = sorted([o for o in outs if o[0] in params], key=lambda o: params.index(o[0]))
        garr = fgs.args.args[0].arg
        entries = {}
        for arr, idx, val, line, loops, guards, aug in eg.stores:
            if arr == garr and idx is not None and len(idx) == 2:
                entries.setdefault((idx[0], idx[1]), []).append((val, line))
        # rename the evaluation point: cfuvw uses x, t from xs[i], ts[i]; cfgss its parameters x, t
        for r, (arr, val) in enumerate(outs):
            lin, rem = shellk.linear_in_state(val, state)
            ok_rem = not rem.t
            chk.ob('R18.1', ok_rem, rel, 'cfuvw', '%s is linear in the amplitudes' % arr, got=repr(rem)[:120])
            for key, coef in sorted(lin.items()):
                idx = key[len(state) + 1:-1]
                got = entries.pop((str(r), idx), None)
                coef2 = coef.rename(lambda a: _pt(a))
                ok = got is not None and len(got) == 1 and got[0][0].rename(lambda a: _pt(a)).close(coef2)
                chk.ob('R18.1', ok, rel, fgs.name, 'g[%d, %s] is d(%s)/dc' % (r, idx, arr), line=got[0][1] if got else 0,
                       expected=repr(coef2)[:160], got=[repr(g[0])[:160] for g in got] if got else 'missing',
                       sample='g[%d,%s] = %r' % (r, idx, coef2) if n < 3 else None)
                n += 1
        for key, got in entries.items():
            chk.ob('R18.1', False, rel, fgs.name, 'extra entry g[%s, %s]' % key, line=got[0][1], expected='only entries of the displacement gradient', got=repr(got[0][0])[:100])
    chk.floor('R18.1 gradient entries', n, 9 * 15)


def _pt(a):
    return a.replace('xs[i]', 'x').replace('ts[i]', 't')


def r18_2(chk):
    m = module(CONECYL)
    fn = m.method('ConeCyl', 'calc_fext')
    fname = 'ConeCyl.calc_fext'
    defs = {k: [norm(v) for v in vs if v is not None] for k, vs in local_defs(fn).items()}
    for nm, want in (('uTM', 'inc*self.uTM'), ('Nxxtop', 'inc*self.Nxxtop'), ('thetaTrad', 'inc*self.thetaTrad'),
                     ('P', 'self.P+inc*self.P_inc'), ('T', 'self.T+inc*self.T_inc')):
        nodes = [v for v in local_defs(fn).get(nm, []) if v is not None]
        chk.ob('R18.2', len(nodes) == 1 and pyrules.same_expr(nodes[0], want), CONECYL, fname, 'load factor scaling of ' + nm, expected=want, got=defs.get(nm),
               sample='%s = %s' % (nm, want))
    # point forces: constant without inc, incremental with inc exactly once
    loops = {}
    for lp in fn.body:
        if isinstance(lp, ast.For) and isinstance(lp.iter, ast.Call) and getattr(lp.iter.func, 'id', '') == 'enumerate':
            loops[norm(lp.iter.args[0])] = lp
    chk.ob('R18.2', set(loops) == {'self.forces', 'self.forces_inc'}, CONECYL, fname, 'constant and incremental point forces', got=sorted(loops))
    for lst, deg in (('self.forces', 0), ('self.forces_inc', 1)):
        lp = loops.get(lst)
        if lp is None:
            continue
        nbr = len([n for n in ast.walk(lp) if isinstance(n, ast.Assign) and norm(n.targets[0]) == 'fpt'])
        ninc = sum(1 for n in ast.walk(lp) if isinstance(n, ast.Name) and n.id == 'inc')
        chk.ob('R18.2', ninc == deg * nbr, CONECYL, fname, 'degree in inc of ' + lst, expected='%d use(s) of inc per force row' % deg, got='%d uses in %d rows' % (ninc, nbr),
               sample='%s: inc used %d times in %d force rows' % (lst, ninc, nbr))
        calls = [c for c in pyflow.calls_in(lp) if getattr(c.func, 'id', '') == 'fg']
        ok = len(calls) == 1 and [norm(a) for a in calls[0].args] == ['g', 'm1', 'm2', 'n2', 'r2', 'x', 'theta', 'L', 'cosa', 'tLArad']
        chk.ob('R18.2', ok, CONECYL, fname, 'fg call in the %s loop' % lst, got=[norm(c) for c in calls])
        unp = [norm(s.targets[0]) for s in lp.body if isinstance(s, ast.Assign) and isinstance(s.targets[0], ast.Tuple)]
        chk.ob('R18.2', unp == ['(x,theta,fx,ftheta,fz)'], CONECYL, fname, 'tuple order of ' + lst, got=unp)
        gu = [norm(s.value) for s in lp.body if isinstance(s, ast.Assign) and norm(s.targets[0]) == 'gu']
        chk.ob('R18.2', gu == ['np.delete(g,self.excluded_dofs,axis=1)'], CONECYL, fname, 'row matrix reduced by the excluded dofs (%s)' % lst, got=gu)
    # uniform axial term: equals 2 pi r2 * gss[0,0] at x = 0 (gss[0,0] = (L-x)/(L cosa))
    ax = [n for n in ast.walk(fn) if isinstance(n, ast.AugAssign) and norm(n.target) == 'fext_tmp[0]']
    ok = False
    if len(ax) == 1:
        v = from_ast(ax[0].value, {}, lambda n: P.sym(norm(n)) if isinstance(n, ast.Subscript) else None)
        ok = v == S('Nxxtop[0]') * C(2) * S('pi') * S('r2') / S('cosa')
    chk.ob('R18.2', ok, CONECYL, fname, 'uniform axial load', expected='Nxxtop[0]*2*pi*r2/cosa = line load x circumference x g[0,0](x=0)', got=[norm(a.value) for a in ax],
           sample='fext[0] += Nxxtop[0]*(2*pi*r2)/cosa')
    # pressure closed form
    pr = [n for n in ast.walk(fn) if isinstance(n, ast.AugAssign) and norm(n.target) == 'fext_tmp[col+2]']
    ok = False
    got = None
    if len(pr) == 1:
        def leaf(n):
            if isinstance(n, ast.BinOp) and isinstance(n.op, ast.Pow) and norm(n.left) in ('(-1)', '-1'):
                return S('SGN')
            return None
        src = pr[0].value
        # (-1)**i1 -> SGN : rewrite the tree
        class T(ast.NodeTransformer):
            def visit_BinOp(self, node):
                self.generic_visit(node)
                if isinstance(node.op, ast.Pow) and norm(node.left) in ('(-1)', '-1'):
                    return ast.copy_location(ast.Name(id='SGN', ctx=ast.Load()), node)
                return node
        tree = T().visit(ast.parse(ast.unparse(src), mode='eval')).body
        try:
            v = from_ast(tree, {})
            i = S('i1')
            exp = S('P') * S('L') * C(2) / i * (S('r2') - S('SGN') * (S('r2') + S('L') * S('sina')))
            ok = v.close(exp)
            got = repr(v)
        except Exception as e:
            got = str(e)
    chk.ob('R18.2', ok, CONECYL, fname, 'pressure: 2 pi P int_0^L sin(i pi x/L)(r2 + x sina) dx', expected='P*2L/i*(r2 - (-1)^i (r2 + L sina))', got=got,
           sample='pressure term == exact Fourier integral with s = (-1)^i')

    # a load term skipped by `if X != 0` must be a term in X itself (not in a differently scaled sibling of X)
    ng = 0
    for n in ast.walk(fn):
        if isinstance(n, ast.If) and isinstance(n.test, ast.Compare) and len(n.test.ops) == 1 and isinstance(n.test.ops[0], ast.NotEq) \
                and isinstance(n.test.comparators[0], ast.Constant) and n.test.comparators[0].value == 0 and isinstance(n.test.left, (ast.Name, ast.Attribute)):
            g = norm(n.test.left)
            used = set()
            stores = 0
            for st in n.body:
                for x in ast.walk(st):
                    if isinstance(x, (ast.Assign, ast.AugAssign)):
                        tg = x.targets[0] if isinstance(x, ast.Assign) else x.target
                        if isinstance(tg, ast.Subscript) or isinstance(x, ast.AugAssign):
                            stores += 1
                        # plain assignments feed the stores (fpt = [0, T/r2, 0]; fext += fpt.dot(gu))
                        for y in ast.walk(x.value):
                            if isinstance(y, (ast.Name, ast.Attribute)):
                                used.add(norm(y))
            if not stores:
                continue
            ng += 1
            chk.ob('R18.2', g in used, CONECYL, fname, 'terms under `if %s != 0` are terms in %s' % (g, g), line=n.lineno,
                   expected='the guarded load terms contain %s as a factor' % g, got=sorted(u for u in used if u.split('.')[-1] == g.split('.')[-1]),
                   detail='' if g in used else 'the guard tests %s but the terms use another quantity: they are skipped although they do not vanish (e.g. purely incremental load)' % g,
                   sample='calc_fext: `if %s != 0` guards terms in %s' % (g, g))
    chk.floor('R18.2 zero-load guards', ng, 2)


def r18_3(chk):
    """every prescribed amplitude with a value contributes -inc*value*k0uk[:, dof] to the right-hand side"""
    m = module(CONECYL)
    reb = m.method('ConeCyl', '_rebuild')
    fn = m.method('ConeCyl', 'calc_fext')
    pres = []
    for n in ast.walk(reb):
        if isinstance(n, ast.If):
            dof = val = None
            for s in n.body:
                if isinstance(s, ast.Expr) and isinstance(s.value, ast.Call):
                    f = dotted(s.value.func)
                    if f == 'self.excluded_dofs.append' and isinstance(s.value.args[0], ast.Constant):
                        dof = s.value.args[0].value
                    if f == 'self.excluded_dofs_ck.append':
                        val = norm(s.value.args[0])
            if dof is not None and val is not None:
                pres.append((dof, val, norm(n.test)))
    chk.floor('prescribed amplitudes found in _rebuild', len(pres), 3)
    txt = [norm(n) for n in ast.walk(fn) if isinstance(n, ast.AugAssign) and norm(n.target) == 'fext']
    defs = {k: [norm(v) for v in vs if v is not None] for k, vs in local_defs(fn).items()}
    for dof, val, cond in pres:
        # a column of k0uk (or kuk) with this dof multiplied by the (inc-scaled) prescribed value
        cols = [k for k, vs in defs.items() if any(re.match(r'^(self\.k0uk|kuk)\[:,%d\]\.ravel\(\)$' % dof, v) for v in vs)]
        vname = val.replace('self.', '')
        vnodes = [v for v in local_defs(fn).get(vname, []) if v is not None]
        ok = any(t == 'fext+=-%s*%s' % (vname, c) for t in txt for c in cols) and len(vnodes) == 1 and pyrules.same_expr(vnodes[0], 'inc*%s' % val)
        chk.ob('R18.3', ok, CONECYL, 'ConeCyl.calc_fext', 'right-hand side term of prescribed amplitude %d (%s)' % (dof, val),
               expected='fext += -inc*%s*k0uk[:, %d] where the amplitude is prescribed (%s)' % (val, dof, cond), got=[t for t in txt if 'kuk' in t],
               detail='' if ok else '_rebuild prescribes amplitude %d to %s (under %s) but calc_fext never moves k0uk[:, %d]*%s to the right-hand side: the reduced system ignores the prescribed value' % (dof, val, cond, dof, val),
               sample='dof %d: fext += -%s*k0uk[:, %d]' % (dof, vname, dof))


def r18_4(chk):
    """geometry: every derived quantity is a consequence of H = L cos(alpha), r1 = r2 + L sin(alpha)"""
    m = module(CONECYL)
    reb = m.method('ConeCyl', '_rebuild')
    want = {'self.H': [Rat((S('self.r1') - S('self.r2')) * S('cosa'), S('sina')), Rat(S('self.L') * S('cosa'))],
            'self.L': [Rat(S('self.H'), S('cosa'))],
            'self.r2': [Rat(S('self.r1') - S('self.L') * S('sina'))],
            'self.r1': [Rat(S('self.r2') + S('self.L') * S('sina'))]}

    def leaf(n):
        t = norm(n)
        if t == 'self.cosa':
            return S('cosa')
        if t == 'self.sina':
            return S('sina')
        if t == 'tan(self.alpharad)':
            return None
        if isinstance(n, ast.Attribute):
            return S(t)
        return None
    nfound = 0
    for n in ast.walk(reb):
        if isinstance(n, ast.Assign) and norm(n.targets[0]) in want:
            tgt = norm(n.targets[0])

            class T(ast.NodeTransformer):
                def visit_Call(self, node):
                    if norm(node) == 'tan(self.alpharad)':
                        return ast.parse('SINA/COSA', mode='eval').body
                    return node
            tree = T().visit(ast.parse(ast.unparse(n.value), mode='eval')).body
            try:
                v = from_ast(tree, {'SINA': Rat(S('sina')), 'COSA': Rat(S('cosa'))}, leaf, ring=Rat)
                ok = any(v.equals(w) for w in want[tgt])
            except Exception as e:
                ok = False
                v = str(e)
            nfound += 1
            chk.ob('R18.4', ok, CONECYL, 'ConeCyl._rebuild', 'geometry: ' + norm(n)[:50], line=n.lineno,
                   expected='consequence of H = L cos(alpha), r1 = r2 + L sin(alpha)', got=repr(v)[:100], sample=norm(n)[:70])
    chk.floor('R18.4 geometry assignments', nfound, 5)
    defs = [norm(n) for n in ast.walk(reb) if isinstance(n, ast.Assign) and norm(n.targets[0]) in ('self.sina', 'self.cosa', 'self.alpharad')]
    chk.ob('R18.4', sorted(defs) == sorted(['self.alpharad=deg2rad(self.alphadeg)', 'self.sina=sin(self.alpharad)', 'self.cosa=cos(self.alpharad)']),
           CONECYL, 'ConeCyl._rebuild', 'trigonometric constants of the same angle', got=defs)
    isc = [n for n in ast.walk(reb) if isinstance(n, ast.If) and norm(n.test) == 'self.alpharad==0']
    ok = len(isc) == 1 and norm(isc[0].body[0]) == 'self.is_cylinder=True' and norm(isc[0].orelse[0]) == 'self.is_cylinder=False'
    chk.ob('R18.4', ok, CONECYL, 'ConeCyl._rebuild', 'is_cylinder <=> alpharad == 0')


def r18_5(chk):
    """partition and re-insertion are inverse bookkeeping"""
    m = module(CONECYL)
    ex = m.method('ConeCyl', 'exclude_dofs_matrix')
    defs = {k: [norm(v) for v in vs if v is not None] for k, vs in local_defs(ex).items()}
    chk.ob('R18.5', defs.get('rows') == ['np.sort(self.excluded_dofs)[::-1]'] and defs.get('cols') == ['np.sort(self.excluded_dofs)[::-1]'], CONECYL,
           'ConeCyl.exclude_dofs_matrix', 'removal in descending order of self.excluded_dofs', got=(defs.get('rows'), defs.get('cols')),
           sample='rows = cols = sort(excluded_dofs)[::-1]')
    # inside the removal loops: the kept-entry mask is computed before the renumbering
    for lp in [n for n in ast.walk(ex) if isinstance(n, ast.For) and norm(n.iter) in ('rows', 'cols')]:
        v = lp.target.id
        which = 'row' if norm(lp.iter) == 'rows' else 'col'
        body = [norm(s) for s in lp.body]
        want = ['ind=np.where(kuu.%s!=%s)[0]' % (which, v), 'kuu.%s[kuu.%s>%s]-=1' % (which, which, v), 'kuu.row=np.take(kuu.row,ind)',
                'kuu.col=np.take(kuu.col,ind)', 'kuu.data=np.take(kuu.data,ind)']
        ok = body[:5] == want
        chk.ob('R18.5', ok, CONECYL, 'ConeCyl.exclude_dofs_matrix', 'removal of one %s' % which, line=lp.lineno, expected=want, got=body[:5],
               sample='remove %s: mask, renumber, take' % which)
    fc = m.method('ConeCyl', 'calc_full_c')
    txt = norm(fc)
    ok = 'ordered=sorted(zip(self.excluded_dofs,self.excluded_dofs_ck),key=lambdax:x[0])' in txt and 'c=np.insert(c,dof,inc*cai)' in txt
    loops = [n for n in ast.walk(fc) if isinstance(n, ast.For) and norm(n.iter) == 'ordered']
    ok = ok and len(loops) == 1 and norm(loops[0].target) == '(dof,cai)'
    chk.ob('R18.5', ok, CONECYL, 'ConeCyl.calc_full_c', 'insertion in ascending order with the paired values',
           expected='for dof, cai in sorted(zip(excluded_dofs, excluded_dofs_ck)): c = insert(c, dof, inc*cai)', sample='calc_full_c inserts (dof, inc*value) ascending')
    first = [s for s in fc.body if not (isinstance(s, ast.Expr) and isinstance(s.value, ast.Constant))][0]
    chk.ob('R18.5', norm(first) == 'c=cu.copy()', CONECYL, 'ConeCyl.calc_full_c', 'works on a copy of the reduced vector', got=norm(first))
    # every reduction uses the same attribute
    for meth in ('calc_fext', 'calc_fint'):
        f = m.method('ConeCyl', meth)
        dels = [norm(c) for c in pyflow.calls_in(f) if dotted(c.func) == 'np.delete']
        chk.ob('R18.5', bool(dels) and all('self.excluded_dofs' in d for d in dels), CONECYL, 'ConeCyl.' + meth, 'vectors reduced by self.excluded_dofs', got=dels)


def run(chk):
    chk.level = LEVEL
    chk.trusted = ['python3 ast', 'E1 lowering', 'polynomial normal forms with trigonometric calls as opaque atoms']
    chk.assumptions = ['K_uu c_u = f_u to solver precision is not decided']
    r18_1(chk)
    r18_2(chk)
    r18_3(chk)
    r18_4(chk)
    r18_5(chk)
    # R18.6 one rebuild, one consistent set of prescribed values; the reported fields use the requested load level
    pyrules.check_derive_order(chk, 'R18.6', CONECYL, 'ConeCyl', '_rebuild', floor=7)
    pyrules.check_forwarding(chk, 'R18.6', CONECYL, 'ConeCyl', 'inc', methods=('uvw', 'strain', 'stress', 'plot'), floor=7,
                             why='the prescribed amplitudes are re-inserted as inc*value: the reported field belongs to another load level')
    chk.explanation = ('fg vs fuvw agreement in all commons modules; degree in the load factor of every load; closed forms of the axial and '
                       'pressure terms as polynomial identities; right-hand-side terms of prescribed amplitudes; geometry identities; '
                       'inverse bookkeeping of partition and re-insertion')
