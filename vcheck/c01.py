"""C01 - laminate ABD/ABDE = through-thickness integrals of the rotated ply stiffness."""
import ast
import re
from fractions import Fraction as Fr

from . import pyrules, pyflow
from .poly import P, Rat, from_ast, nfs, Unsupported, NonMonomialDivision
from .pyrules import module, norm, local_defs
from .pyflow import CFG, dotted
from .report import AnalysisError

LEVEL = 'proof'
LAMINA = 'compmech/composite/lamina.py'
LAMINATE = 'compmech/composite/laminate.py'
MATLAMINA = 'compmech/composite/matlamina.py'
S, C = P.sym, P.const


def leaf(n):
    if isinstance(n, ast.Attribute):
        d = dotted(n)
        if d:
            return P.sym(d)
    if isinstance(n, ast.Call):
        f = dotted(n.func) or ''
        name = f.split('.')[-1]
        if name in ('cos', 'sin', 'deg2rad', 'float', 'sum'):
            args = []
            for a in n.args:
                try:
                    args.append(nfs(from_ast(a, {}, leaf)))
                except Exception:
                    args.append(norm(a))
            return P.sym('%s(%s)' % (name, ','.join(args)))
    if isinstance(n, ast.Subscript):
        return P.sym(norm(n))
    return None


def seq_env(fn, ring=Rat, stop_at=None, branch=None):
    """sequential evaluation of the simple assignments of a function body"""
    env = {}

    def walk(body):
        for st in body:
            if st is stop_at:
                return True
            if isinstance(st, ast.Assign) and len(st.targets) == 1 and isinstance(st.targets[0], ast.Name):
                try:
                    v = from_ast(st.value, env, lambda n: _leaf_env(n, env), ring=ring)
                    env[st.targets[0].id] = v
                except (Unsupported, NonMonomialDivision, ZeroDivisionError):
                    env.pop(st.targets[0].id, None)
            elif isinstance(st, ast.If) and branch is not None:
                pol = branch(st)
                if pol is True:
                    if walk(st.body):
                        return True
                elif pol is False:
                    if walk(st.orelse):
                        return True
        return False
    walk(fn.body)
    return env


def _leaf_env(n, env):
    # cos(thetarad): the argument is resolved through env so both cos and sin see the same angle atom
    if isinstance(n, ast.Call):
        f = (dotted(n.func) or '').split('.')[-1]
        if f in ('cos', 'sin', 'deg2rad', 'float', 'sum') and len(n.args) == 1:
            try:
                a = from_ast(n.args[0], env, lambda m: _leaf_env(m, env), ring=Rat)
                arg = nfs(a.n) if a.d == P.const(1) else repr(a)
            except Exception:
                arg = norm(n.args[0])
            return P.sym('%s(%s)' % (f, arg))
    return leaf(n)


def reduce_trig(p, c, s):
    """s^2 -> 1 - c^2"""
    out = P()
    one_minus = C(1) - S(c) * S(c)
    for mono, co in p.t.items():
        d = dict(mono)
        e = d.pop(s, 0)
        if e < 0:
            raise ValueError('negative power of sin')
        term = P({tuple(sorted(d.items())): co})
        if e % 2:
            term = term * S(s)
        if e // 2:
            term = term * (one_minus ** (e // 2))
        out = out + term
    return out


def rotation_oracle(c, s):
    """plane-stress Qbar = Tsigma(-theta) . Q . Teps(theta) and the transverse-shear block"""
    cc, ss = S(c), S(s)
    q = {(0, 0): S('q11'), (0, 1): S('q12'), (1, 0): S('q12'), (1, 1): S('q22'), (2, 2): S('q66')}
    Q = [[q.get((i, j), P()) for j in range(3)] for i in range(3)]

    def Tsig(c_, s_):
        return [[c_ * c_, s_ * s_, C(2) * c_ * s_], [s_ * s_, c_ * c_, C(-2) * c_ * s_], [-c_ * s_, c_ * s_, c_ * c_ - s_ * s_]]

    def Teps(c_, s_):
        return [[c_ * c_, s_ * s_, c_ * s_], [s_ * s_, c_ * c_, -c_ * s_], [C(-2) * c_ * s_, C(2) * c_ * s_, c_ * c_ - s_ * s_]]

    def mm(A, B):
        return [[sum((A[i][k] * B[k][j] for k in range(3)), P()) for j in range(3)] for i in range(3)]
    Ti = Tsig(cc, -ss)           # inverse of the stress transformation = rotation by -theta
    Qb = mm(mm(Ti, Q), Teps(cc, ss))
    out = [[P() for _ in range(5)] for _ in range(5)]
    for i in range(3):
        for j in range(3):
            out[i][j] = Qb[i][j]
    q44, q55 = S('q44'), S('q55')
    out[3][3] = q44 * cc * cc + q55 * ss * ss
    out[4][4] = q55 * cc * cc + q44 * ss * ss
    out[3][4] = out[4][3] = (q55 - q44) * cc * ss
    return out


def r01_1(chk):
    m = module(LAMINA)
    fn = m.method('Lamina', 'rebuild')
    fname = 'Lamina.rebuild'
    # the MatLamina branch
    br = [n for n in fn.body if isinstance(n, ast.If) and 'isinstance(self.matobj,MatLamina)' in norm(n.test)]
    chk.need(len(br) == 1, 'Lamina.rebuild: material branch vanished')
    env = seq_env(fn, branch=lambda st: True if st is br[0] else None)
    cost, sint = env.get('cost'), env.get('sint')
    okang = False
    cname = sname = None
    if cost is not None and sint is not None and cost.d == P.const(1) and sint.d == P.const(1):
        ca, sa = nfs(cost.n), nfs(sint.n)
        mc, ms = re.match(r'^cos\((.*)\)$', ca), re.match(r'^sin\((.*)\)$', sa)
        okang = bool(mc and ms and mc.group(1) == ms.group(1) and mc.group(1) == 'deg2rad(self.theta)')
        cname, sname = ca, sa
    chk.ob('R01.1', okang, LAMINA, fname, 'cos and sin of the same ply angle', expected='cost = cos(deg2rad(theta)), sint = sin(deg2rad(theta))',
           got='%s / %s' % (cost, sint), sample='cost=%s sint=%s' % (cname, sname))
    if not okang:
        return
    # material constants
    den = Rat(C(1) - S('self.matobj.nu12') * S('self.matobj.nu21'))
    want_q = {'q11': Rat(S('self.matobj.e1')) / den, 'q12': Rat(S('self.matobj.nu12') * S('self.matobj.e2')) / den,
              'q22': Rat(S('self.matobj.e2')) / den, 'q66': Rat(S('self.matobj.g12')), 'q44': Rat(S('self.matobj.g23')),
              'q55': Rat(S('self.matobj.g13'))}
    for k, w in want_q.items():
        g = env.get(k)
        chk.ob('R01.1', g is not None and g.equals(w), LAMINA, fname, 'plane-stress constant ' + k, expected=repr(w), got=repr(g),
               sample='%s = %r' % (k, w))
    # rotated matrix: evaluate again with q's kept symbolic
    stq = [st for st in fn.body if isinstance(st, ast.Assign) and isinstance(st.targets[0], ast.Name) and st.targets[0].id == 'q11L']
    chk.need(stq, 'Lamina.rebuild: q11L vanished')
    # second pass over the whole body, in order, with the plane-stress constants kept symbolic (whatever temporaries the
    # code introduces between them and the rotated entries are followed)
    env2 = {}
    for st in fn.body:
        if isinstance(st, ast.Assign) and len(st.targets) == 1 and isinstance(st.targets[0], ast.Name):
            nm = st.targets[0].id
            if nm in want_q:
                env2[nm] = Rat(S(nm))
                continue
            try:
                env2[nm] = from_ast(st.value, env2, lambda n_: _leaf_env(n_, env2), ring=Rat)
            except Exception:
                env2.pop(nm, None)
    for k in want_q:
        env2.setdefault(k, Rat(S(k)))
    orc = rotation_oracle(cname, sname)
    ql = [st for st in fn.body if isinstance(st, ast.Assign) and norm(st.targets[0]) == 'self.QL']
    chk.need(len(ql) == 1 and isinstance(ql[0].value, ast.Call) and ql[0].value.args and isinstance(ql[0].value.args[0], ast.List),
             'Lamina.rebuild: QL literal vanished')
    rows = ql[0].value.args[0].elts
    chk.ob('R01.1', len(rows) == 5 and all(isinstance(r, ast.List) and len(r.elts) == 5 for r in rows), LAMINA, fname, 'QL is 5x5')
    names = ['11', '12', '16', '22', '26', '66', '44', '45', '55']
    n = 0
    for i in range(5):
        for j in range(5):
            try:
                v = from_ast(rows[i].elts[j], env2, leaf, ring=Rat)
            except Exception as e:
                chk.ob('R01.1', False, LAMINA, fname, 'QL[%d,%d]' % (i, j), line=rows[i].lineno, detail=str(e))
                continue
            g = reduce_trig(v.n, cname, sname) if v.d == P.const(1) else None
            x = reduce_trig(orc[i][j], cname, sname)
            ok = g is not None and g.close(x)
            chk.ob('R01.1', ok, LAMINA, fname, 'QL[%d,%d]' % (i, j), line=rows[i].lineno,
                   expected='tensor rotation of the plane-stress matrix: %r' % x, got=repr(g),
                   detail='; '.join(g.diffterms(x, 3)) if g is not None and not ok else '',
                   sample='QL[%d,%d] == %r (mod c^2+s^2=1)' % (i, j, x) if (i, j) in ((0, 0), (0, 2), (3, 4)) else None)
            n += 1
    chk.floor('R01.1 QL entries', n, 25)


def block_layout(stmts):
    """name -> (rows, cols, [(row0, col0, source slice)]) for arrays built from 2-D slices of other arrays by np.concatenate
    or by filling a np.zeros / np.empty array through slices; anything else makes the name unknown (absent)"""
    env = {}

    def key(t):
        return dotted(t) if isinstance(t, (ast.Name, ast.Attribute)) else None

    def const(n):
        return n.value if isinstance(n, ast.Constant) and isinstance(n.value, int) else None

    def slice2(sub):
        sl = sub.slice
        if isinstance(sl, ast.Tuple) and len(sl.elts) == 2 and all(isinstance(e, ast.Slice) and e.step is None for e in sl.elts):
            b = [(const(e.lower) if e.lower is not None else 0, const(e.upper)) for e in sl.elts]
            if all(x is not None and y is not None for x, y in b):
                return b
        return None

    def value(e):
        k = key(e)
        if k is not None and k in env:
            return env[k]
        if isinstance(e, ast.Subscript) and key(e.value):
            b = slice2(e)
            if b:
                (r0, r1), (c0, c1) = b
                base = env.get(key(e.value))
                if base is None:
                    return (r1 - r0, c1 - c0, [(0, 0, '%s[%d:%d,%d:%d]' % (key(e.value), r0, r1, c0, c1))])
                return None
        if isinstance(e, ast.Call):
            f = dotted(e.func)
            args = {k_.arg: k_.value for k_ in e.keywords}
            if f in ('np.zeros', 'np.empty', 'zeros', 'empty'):
                sh = e.args[0] if e.args else args.get('shape')
                if isinstance(sh, (ast.Tuple, ast.List)) and len(sh.elts) == 2 and all(const(x) is not None for x in sh.elts):
                    return (const(sh.elts[0]), const(sh.elts[1]), [])
            if f == 'np.concatenate':
                seq = e.args[0] if e.args else args.get('arrays')
                ax = e.args[1] if len(e.args) > 1 else args.get('axis')
                ax = const(ax) if ax is not None else 0
                if isinstance(seq, (ast.List, ast.Tuple)) and ax in (0, 1):
                    parts = [value(x) for x in seq.elts]
                    if all(p is not None for p in parts):
                        out, off = [], 0
                        for (r, c, bl) in parts:
                            out += [(r0 + (off if ax == 0 else 0), c0 + (off if ax == 1 else 0), src) for r0, c0, src in bl]
                            off += r if ax == 0 else c
                        other = {(p[1] if ax == 0 else p[0]) for p in parts}
                        if len(other) == 1:
                            return (off, other.pop(), out) if ax == 0 else (other.pop(), off, out)
        return None
    for st in stmts:
        if not isinstance(st, ast.Assign) or len(st.targets) != 1:
            continue
        t = st.targets[0]
        if key(t):
            v = value(st.value)
            if v is not None:
                env[key(t)] = (v[0], v[1], list(v[2]))
            else:
                env.pop(key(t), None)
        elif isinstance(t, ast.Subscript) and key(t.value) in env:
            b = slice2(t)
            v = value(st.value)
            if b and v is not None and (b[0][1] - b[0][0], b[1][1] - b[1][0]) == (v[0], v[1]):
                r, c, bl = env[key(t.value)]
                # blocks overwritten by this store disappear
                bl = [x for x in bl if not (b[0][0] <= x[0] < b[0][1] and b[1][0] <= x[1] < b[1][1])]
                env[key(t.value)] = (r, c, bl + [(r0 + b[0][0], c0 + b[1][0], src) for r0, c0, src in v[2]])
            else:
                env.pop(key(t.value), None)
    return env


def r01_2(chk):
    m = module(LAMINATE)
    fn = m.method('Laminate', 'calc_constitutive_matrix')
    fname = 'Laminate.calc_constitutive_matrix'
    defs = {k: [norm(v) for v in vs if v is not None] for k, vs in local_defs(fn).items()}
    lt = [re.sub(r'^sum\(\(?\[?(.*?)\]?\)?\)$', r'sum(\1)', v) for v in defs.get('lam_thick', [])]
    okt = len(lt) == 1 and re.match(r'^sum\((\w+)\.tfor\1inself\.plies\)$', lt[0]) is not None
    chk.ob('R01.2', okt, LAMINATE, fname, 'laminate thickness', expected='sum of ply.t over self.plies', got=defs.get('lam_thick'))
    h0s = [st for st in fn.body if isinstance(st, ast.Assign) and norm(st.targets[0]) == 'h0']
    ok = False
    if len(h0s) == 1:
        v = from_ast(h0s[0].value, {}, leaf)
        ok = v == S('self.offset') - S('lam_thick') * C(Fr(1, 2))
    chk.ob('R01.2', ok, LAMINATE, fname, 'bottom surface', expected='h0 = -lam_thick/2 + offset', got=[norm(h.value) for h in h0s],
           sample='h0 = -t/2 + offset')
    loops = [n for n in fn.body if isinstance(n, ast.For)]
    ok = len(loops) == 1 and norm(loops[0].iter) == 'self.plies' and isinstance(loops[0].target, ast.Name)
    chk.ob('R01.2', ok, LAMINATE, fname, 'iterates the plies in stacking order', expected='for ply in self.plies', got=[norm(l.iter) for l in loops])
    if not ok:
        return
    lp = loops[0]
    pv = lp.target.id
    # abstract interpretation of the body over polynomial terms with h0 = H0, ply.t = T
    env = {'h0': S('H0')}
    acc = {}

    def lf(n):
        if isinstance(n, ast.Attribute):
            d = dotted(n)
            if d == pv + '.t':
                return S('T')
            if d == pv + '.QL':
                return S('QL')
            return S(d) if d else None
        return None
    order = []
    for st in lp.body:
        if isinstance(st, ast.Assign) and isinstance(st.targets[0], ast.Name):
            env[st.targets[0].id] = from_ast(st.value, env, lf)
            order.append(st.targets[0].id)
        elif isinstance(st, ast.AugAssign) and isinstance(st.op, ast.Add):
            tgt = norm(st.target)
            if isinstance(st.target, ast.Name):
                env[tgt] = env.get(tgt, S(tgt)) + from_ast(st.value, env, lf)
                order.append(tgt)
            else:
                acc[tgt] = acc.get(tgt, P()) + from_ast(st.value, env, lf)
        else:
            chk.ob('R01.2', False, LAMINATE, fname, 'unexpected statement in the ply loop', line=st.lineno, got=norm(st)[:80])
    H0, T, QL = S('H0'), S('T'), S('QL')
    want = {'self.A_general': QL * T,
            'self.B_general': QL * ((H0 + T) ** 2 - H0 ** 2) * C(Fr(1, 2)),
            'self.D_general': QL * ((H0 + T) ** 3 - H0 ** 3) * C(Fr(1, 3))}
    for k, w in want.items():
        g = acc.get(k, P())
        chk.ob('R01.2', g.close(w), LAMINATE, fname, 'accumulation of ' + k.split('.')[1],
               expected='QL * int_{hk_1}^{hk} z^%d dz = %r' % (list(want).index(k), w), got=repr(g),
               sample='%s += %r' % (k, w))
    chk.ob('R01.2', env.get('h0') == H0 + T, LAMINATE, fname, 'running surface advances by the ply thickness', got=repr(env.get('h0')))
    chk.ob('R01.2', set(acc) == set(want), LAMINATE, fname, 'only A, B, D accumulated', got=sorted(acc))
    # slices and block layout: a small block-matrix interpretation of the statements after the loop (np.concatenate and
    # pre-allocated arrays filled by slices are the same thing to it)
    txt = [norm(st) for st in fn.body if isinstance(st, ast.Assign)]
    lay = block_layout(fn.body[fn.body.index(lp) + 1:])
    want_lay = {'self.A': (3, 3, [(0, 0, 'self.A_general[0:3,0:3]')]), 'self.B': (3, 3, [(0, 0, 'self.B_general[0:3,0:3]')]),
                'self.D': (3, 3, [(0, 0, 'self.D_general[0:3,0:3]')]), 'self.E': (2, 2, [(0, 0, 'self.A_general[3:5,3:5]')]),
                'self.ABD': (6, 6, [(0, 0, 'self.A_general[0:3,0:3]'), (0, 3, 'self.B_general[0:3,0:3]'), (3, 0, 'self.B_general[0:3,0:3]'), (3, 3, 'self.D_general[0:3,0:3]')]),
                'self.ABDE': (8, 8, [(0, 0, 'self.A_general[0:3,0:3]'), (0, 3, 'self.B_general[0:3,0:3]'), (3, 0, 'self.B_general[0:3,0:3]'), (3, 3, 'self.D_general[0:3,0:3]'),
                                     (6, 6, 'self.A_general[3:5,3:5]')])}
    for k, w in want_lay.items():
        g = lay.get(k)
        okl = g is not None and g[0] == w[0] and g[1] == w[1] and sorted(g[2]) == sorted(w[2])
        chk.ob('R01.2', okl, LAMINATE, fname, 'layout: ' + k, expected='%dx%d blocks %s (zero elsewhere)' % w, got=g,
               detail='' if okl else 'the laminate matrix is not [[A, B], [B, D]] (+ the transverse-shear block in rows/columns 6..7)',
               sample='%s = %dx%d %s' % (k, w[0], w[1], w[2]))
    zeros = [t for t in txt if t.startswith('self.A_general=') or t.startswith('self.B_general=') or t.startswith('self.D_general=')]
    chk.ob('R01.2', sorted(zeros) == sorted('self.%s_general=np.zeros([5,5],dtype=DOUBLE)' % x for x in 'ABD'), LAMINATE, fname,
           'accumulators start from zero on every call', got=zeros)
    # initialisation precedes the loop, slicing follows it
    cfg = CFG(fn)
    lid = cfg.node_of_stmt(lp)
    for st in fn.body:
        t = norm(st) if isinstance(st, ast.Assign) else ''
        if t.startswith('self.A=') or t.startswith('self.ABD='):
            i = cfg.node_of_stmt(st)
            chk.ob('R01.2', cfg.must_pass(i, {lid}), LAMINATE, fname, 'sliced after the accumulation: ' + t.split('=')[0])
    # exclusive writers: the integrals are whatever the ply loop accumulated - nothing else writes into them
    # (a store through a slice of the accumulator, self.B_general[:] = 0., also writes the views A/B/D/ABD later take)
    accs = ('self.A_general', 'self.B_general', 'self.D_general')
    inside = {id(n) for n in ast.walk(lp)}
    others = []
    for n in ast.walk(fn):
        tgts = []
        if isinstance(n, ast.Assign):
            tgts = n.targets
        elif isinstance(n, ast.AugAssign):
            tgts = [n.target]
        for t in tgts:
            base = t
            while isinstance(base, ast.Subscript):
                base = base.value
            if norm(base) in accs:
                plain_init = isinstance(n, ast.Assign) and t is base and norm(n.value) == 'np.zeros([5,5],dtype=DOUBLE)'
                if not plain_init and id(n) not in inside:
                    others.append((n.lineno, norm(n)[:60]))
        if isinstance(n, ast.Call) and isinstance(n.func, ast.Attribute) and norm(n.func.value) in accs and n.func.attr in ('fill', 'put', 'itemset', 'resize', 'sort', 'clip'):
            others.append((n.lineno, norm(n)[:60]))
    chk.ob('R01.2', not others, LAMINATE, fname, 'A/B/D accumulators are written only by their zero initialisation and by the ply loop',
           line=others[0][0] if others else 0, got=others,
           detail='' if not others else 'a write outside the ply summation changes the integrals for the inputs its condition selects',
           sample='calc_constitutive_matrix: A_general, B_general, D_general written by np.zeros(...) and the ply loop only')


def r01_3(chk):
    m = module(LAMINATE)
    fn = m.function('read_stack')
    fname = 'read_stack'
    loops = [n for n in fn.body if isinstance(n, ast.For)]
    ok = len(loops) == 1 and norm(loops[0].iter) == 'zip(plyts,laminaprops,stack)' and norm(loops[0].target) == '(plyt,laminaprop,theta)'
    chk.ob('R01.3', ok, LAMINATE, fname, 'ply-wise association of thickness, material and angle',
           expected='for plyt, laminaprop, theta in zip(plyts, laminaprops, stack)', got=[(norm(l.target), norm(l.iter)) for l in loops],
           sample='zip(plyts, laminaprops, stack) -> (plyt, laminaprop, theta)')
    if ok:
        body = [norm(s) for s in loops[0].body]
        for w in ('ply=Lamina()', 'ply.theta=float(theta)', 'ply.t=plyt', 'ply.matobj=read_laminaprop(laminaprop)', 'lam.plies.append(ply)'):
            chk.ob('R01.3', w in body, LAMINATE, fname, 'ply construction: ' + w, got=body)
        chk.ob('R01.3', body.index('lam.plies.append(ply)') == len(body) - 1 if 'lam.plies.append(ply)' in body else False, LAMINATE, fname,
               'ply appended after it is filled')
    txt = norm(fn)
    chk.ob('R01.3', 'plyts=[plytforiinstack]' in txt and 'laminaprops=[laminapropforiinstack]' in txt, LAMINATE, fname,
           'uniform forms expand to one entry per stack element')
    cfg = CFG(fn)

    def node(pred):
        return cfg.ids_where(lambda i, n: pred(norm(n)) if isinstance(n, (ast.Assign, ast.Expr)) else False)
    off = node(lambda t: t == 'lam.offset=offset')
    reb = node(lambda t: t == 'lam.rebuild()')
    ccm = node(lambda t: t == 'lam.calc_constitutive_matrix()')
    lst = node(lambda t: t == 'lam.plies=[]')
    lp = cfg.node_of_stmt(loops[0]) if loops else None
    ok = bool(off and reb and ccm and lp) and cfg.must_pass(ccm[0], off) and cfg.must_pass(ccm[0], reb) and cfg.must_pass(reb[0], {lp}) and \
        bool(lst) and cfg.must_pass(lp, lst)
    chk.ob('R01.3', ok, LAMINATE, fname, 'order: offset, plies, rebuild, constitutive matrix',
           expected='lam.offset set and every ply rebuilt before calc_constitutive_matrix', sample='read_stack: offset -> plies -> rebuild -> calc_constitutive_matrix')
    rets = [n for n in ast.walk(fn) if isinstance(n, ast.Return)]
    chk.ob('R01.3', len(rets) == 1 and norm(rets[0].value) == 'lam', LAMINATE, fname, 'returns the laminate')
    rb = m.method('Laminate', 'rebuild')
    calls = [norm(c) for c in pyflow.calls_in(rb)]
    chk.ob('R01.3', 'ply.rebuild()' in calls and any(norm(l.iter) == 'self.plies' for l in ast.walk(rb) if isinstance(l, ast.For)), LAMINATE,
           'Laminate.rebuild', 'every ply is rebuilt (rotated matrix computed)', got=calls)


class _Stop(Exception):
    pass


def _exec_laminaprop(fn, n):
    """abstract interpretation (term domain: rational functions of the tuple entries; every test is decided on the abstract value, no
    path constraints, no solver) of read_laminaprop for a material tuple of length n (entries p0..p(n-1)): sequences are python lists of
    Rat, scalars are Rat; tests on len() / None are decided; -> {attribute of the MatLamina object: Rat}"""
    par = fn.args.args[0].arg
    env = {par: [Rat(S('p%d' % k)) for k in range(n)]}
    attrs = {}
    obj = [None]

    def ev(e):
        if isinstance(e, ast.Constant):
            if e.value is None:
                return None
            if isinstance(e.value, (int, float)) and not isinstance(e.value, bool):
                return Rat(P.const(Fr(repr(e.value)) if isinstance(e.value, float) else Fr(e.value)))
            raise _Stop('constant %r' % (e.value,))
        if isinstance(e, ast.Name):
            if e.id in env:
                return env[e.id]
            raise _Stop('name ' + e.id)
        if isinstance(e, ast.Attribute) and isinstance(e.value, ast.Name) and e.value.id == obj[0]:
            if e.attr in attrs:
                return attrs[e.attr]
            raise _Stop('attribute read before it is set: ' + e.attr)
        if isinstance(e, (ast.Tuple, ast.List)):
            return [ev(x) for x in e.elts]
        if isinstance(e, ast.Call):
            f = dotted(e.func)
            if f in ('tuple', 'list') and len(e.args) == 1:
                v = ev(e.args[0])
                if isinstance(v, list):
                    return list(v)
            if f == 'len' and len(e.args) == 1:
                v = ev(e.args[0])
                if isinstance(v, list):
                    return ('int', len(v))
            if f == 'float' and len(e.args) == 1:
                return ev(e.args[0])
            raise _Stop('call ' + norm(e)[:40])
        if isinstance(e, ast.Subscript):
            v = ev(e.value)
            if isinstance(v, list):
                sl = e.slice
                if isinstance(sl, ast.Slice):
                    lo = sl.lower.value if isinstance(sl.lower, ast.Constant) else None if sl.lower is None else 'x'
                    hi = sl.upper.value if isinstance(sl.upper, ast.Constant) else None if sl.upper is None else 'x'
                    if 'x' in (lo, hi) or sl.step is not None:
                        raise _Stop('slice')
                    return v[lo:hi]
                k = ev(sl)
                if isinstance(k, Rat) and k.d == P.const(1) and set(k.n.t) <= {()}:
                    k = int(k.n.t.get((), 0))
                    if -len(v) <= k < len(v):
                        return v[k]
                    raise _Stop('index %d out of range for length %d' % (k, len(v)))
            raise _Stop('subscript ' + norm(e)[:40])
        if isinstance(e, ast.BinOp):
            l, r = ev(e.left), ev(e.right)
            if isinstance(l, list) and isinstance(r, list) and isinstance(e.op, ast.Add):
                return l + r
            if isinstance(l, Rat) and isinstance(r, Rat):
                if isinstance(e.op, ast.Add):
                    return l + r
                if isinstance(e.op, ast.Sub):
                    return l - r
                if isinstance(e.op, ast.Mult):
                    return l * r
                if isinstance(e.op, ast.Div):
                    return l / r
            raise _Stop('operator in ' + norm(e)[:40])
        if isinstance(e, ast.UnaryOp) and isinstance(e.op, ast.USub):
            return Rat(P()) - ev(e.operand)
        raise _Stop('expression ' + norm(e)[:40])

    def test(t):
        if isinstance(t, ast.BoolOp):
            vals = [test(v) for v in t.values]
            return all(vals) if isinstance(t.op, ast.And) else any(vals)
        if isinstance(t, ast.UnaryOp) and isinstance(t.op, ast.Not):
            return not test(t.operand)
        if isinstance(t, ast.Compare) and len(t.ops) == 1:
            l, r = ev(t.left), ev(t.comparators[0])
            op = t.ops[0]
            if isinstance(op, (ast.Is, ast.Eq)) and (l is None or r is None):
                return l is None and r is None
            if isinstance(op, (ast.IsNot, ast.NotEq)) and (l is None or r is None):
                return not (l is None and r is None)

            def num(x):
                if isinstance(x, tuple) and x[0] == 'int':
                    return x[1]
                if isinstance(x, Rat) and x.d == P.const(1) and set(x.n.t) <= {()}:
                    return x.n.t.get((), Fr(0))
                raise _Stop('comparison of a symbolic value: ' + norm(t))
            a_, b_ = num(l), num(r)
            return {ast.Eq: a_ == b_, ast.NotEq: a_ != b_, ast.Lt: a_ < b_, ast.LtE: a_ <= b_, ast.Gt: a_ > b_, ast.GtE: a_ >= b_}[type(op)]
        raise _Stop('test ' + norm(t)[:40])

    def run(stmts):
        for st in stmts:
            if isinstance(st, ast.Assign):
                v = None
                if isinstance(st.value, ast.Call) and dotted(st.value.func) == 'MatLamina':
                    for t in st.targets:
                        obj[0] = t.id
                    continue
                v = ev(st.value)
                for t in st.targets:
                    if isinstance(t, ast.Name):
                        env[t.id] = v
                    elif isinstance(t, ast.Attribute) and isinstance(t.value, ast.Name) and t.value.id == obj[0]:
                        attrs[t.attr] = v
                    elif isinstance(t, (ast.Tuple, ast.List)) and isinstance(v, list) and len(v) == len(t.elts):
                        for tt, vv in zip(t.elts, v):
                            env[tt.id] = vv
                    else:
                        raise _Stop('target ' + norm(t))
            elif isinstance(st, ast.If):
                run(st.body if test(st.test) else st.orelse)
            elif isinstance(st, ast.Expr):
                continue
            elif isinstance(st, ast.Return):
                raise _Stop('return')
            elif isinstance(st, ast.Raise):
                raise _Stop('raise')
            else:
                raise _Stop('statement ' + type(st).__name__)
    try:
        run(fn.body)
    except _Stop as e:
        if str(e) not in ('return',):
            return attrs, str(e)
    return attrs, None


def r01_4(chk):
    """read_laminaprop, interpreted over the term domain for material tuples of length 3, 6 and 9 (the three documented forms): the attributes of the MatLamina object as
    rational functions of the entries (whatever temporaries, branch layout or tuple/list idiom the code uses)"""
    m = module(MATLAMINA)
    fn = m.function('read_laminaprop')
    fname = 'read_laminaprop'
    p = [Rat(S('p%d' % k)) for k in range(9)]
    two = Rat(C(2))
    one = Rat(C(1))
    n_ob = 0
    for n, label in ((3, 'isotropic (E, E, nu)'), (6, 'orthotropic, in-plane (6 entries)'), (9, 'orthotropic (9 entries)')):
        got, err = _exec_laminaprop(fn, n)
        if n == 3:
            e, nu = p[0], p[2]
            g = e / (two * (one + nu))
            full = [e, e, nu, g, g, g, e, nu, nu]
        elif n == 6:
            full = p[:6] + [p[1], p[2], p[2]]
        else:
            full = p[:9]
        want = {'e1': full[0], 'e2': full[1], 'nu12': full[2], 'g12': full[3], 'g13': full[4], 'g23': full[5], 'e3': full[6], 'nu13': full[7], 'nu23': full[8],
                'nu21': full[2] * full[1] / full[0], 'nu31': full[7] * full[6] / full[0], 'nu32': full[8] * full[6] / full[1]}
        chk.ob('R01.4', err is None, MATLAMINA, fname, 'term-domain interpretation for a %d-entry tuple' % n, got=err, expected='every statement on the path understood')
        for k, w in want.items():
            g_ = got.get(k)
            ok = isinstance(g_, Rat) and g_.equals(w)
            n_ob += 1
            chk.ob('R01.4', ok, MATLAMINA, fname, '%s: constant %s' % (label, k), expected=repr(w), got=repr(g_),
                   detail='' if ok else 'the engineering constant read from / completed for a %d-entry material tuple is not the documented one' % n,
                   sample='%d entries: matlam.%s = %r' % (n, k, w) if k in ('e1', 'nu21', 'g12', 'e3') else None)
    chk.floor('R01.4 constants', n_ob, 36)


def run(chk):
    chk.level = LEVEL
    chk.trusted = ['python3 ast', 'Fraction polynomial / rational-function arithmetic', 'numpy: += on 5x5 arrays broadcasts scalars',
                   'tensor-rotation oracle in vcheck/c01.py (Tsigma(-theta).Q.Teps(theta))']
    chk.assumptions = ['symmetry, positive definiteness, offset law, B=0 for symmetric stacks, order independence of A and the '
                       'mirror/90-degree laws are mathematical corollaries of the verified integrals and are not separately checked']
    r01_1(chk)
    r01_2(chk)
    r01_3(chk)
    r01_4(chk)
    chk.explanation = ('Lamina.rebuild, Laminate.calc_constitutive_matrix, read_stack and read_laminaprop lowered to rational '
                       'normal forms and compared with tensor rotation and exact through-thickness integrals')
