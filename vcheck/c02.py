"""C02 - panel constitutive stiffness = Hessian of the Donnell strain energy."""
from . import spec, panelk, pyrules
from .poly import P
from .spec import S, C

LEVEL = 'proof'
R = {'hess': 'R02.1', 'alias': 'R02.2', 'frame': 'R02.3', 'index': 'R02.5', 'swap': 'R02.6'}


def k0_spec(model):
    def fn(frame, k):
        g = frame.geo()
        b = spec.Builder()
        if model == 'plate_w':
            rows = spec.only_fields(spec.strain_rows('plate', g), {'w'})
            dof = spec.DOF1
        else:
            rows = spec.strain_rows(model, g)
            dof = spec.DOF3
        jac = g.a * g.b / C(4)
        return b.hessian(rows, spec.F_sym, jac, dof, xlim=frame.xlim, ylim=frame.ylim)
    return fn


def run(chk):
    chk.level = LEVEL
    chk.trusted = ['python3 ast', 'E1 lowering (vcheck/pyxast.py)', 'Fraction polynomial arithmetic (vcheck/poly.py)',
                   'C10: integral_* functions return the exact integrals of the Bardell functions',
                   'C01: the laminate matrix is [[A,B],[B,D]] with symmetric blocks',
                   'Cython/C translate +,-,*,/ faithfully', 'Donnell strain table in vcheck/spec.py']
    chk.assumptions = ['kpanel: the package-wide cone convention kxy = -2 w,xy + sin(alpha) w,y / r',
                       'floating point rounding is not modelled']
    nums = pyrules.modeldb_nums(chk)
    full = {}
    nemit = 0
    for model in ('plate', 'plate_w', 'cpanel', 'kpanel'):
        rel = panelk.MODELS[model]
        num = nums.get(model)
        chk.need(num is not None, 'modelDB has no num for ' + model)
        for fname in ('fk0', 'fk0y1y2'):
            k, got, fr, bad = panelk.check_matrix_kernel(chk, R, model, rel, fname, fname.endswith('y1y2'), num,
                                                          k0_spec(model), 'Hessian of the strain energy')
            full[(model, fname)] = (k, got)
            nemit += len(got)
        panelk.sibling_check(chk, 'R02.2', model, 'fk0', 'fk0y1y2', full[(model, 'fk0')][1],
                             full[(model, 'fk0y1y2')][1], full[(model, 'fk0y1y2')][0])
    chk.floor('R02.1 emitted blocks', nemit, 56)
    pyrules.r02_python(chk)
    chk.explanation = ('each emitted block of fk0/fk0y1y2 is expanded to a polynomial normal form over '
                       'semantic integral atoms and compared with the bilinear expansion of the Donnell '
                       'strain table against the symbolic laminate matrix')
