"""C02 - panel constitutive stiffness = Hessian of the Donnell strain energy."""
from . import pyxast, spec, panelk, pyrules
from .kernel import MatrixKernel
from .poly import P
from .report import repo_path, REPO, AnalysisError
from .spec import S, C

LEVEL = 'proof'


def k0_spec(model, frame):
    g = frame.geo()
    b = spec.Builder()
    if model == 'plate_w':
        rows = spec.only_fields(spec.strain_rows('plate', g), {'w'})
        dof = spec.DOF1
    else:
        rows = spec.strain_rows(model, g)
        dof = spec.DOF3
    jac = g.a * g.b * C(1) / C(4)
    return b.hessian(rows, spec.F_sym, jac, dof, xlim=frame.xlim, ylim=frame.ylim)


def kernel_blocks(k):
    return {pq: panelk.canon_F(k.block(pq)) for pq in k.blocks}


def check_kernel(chk, model, rel, fname, sub, num):
    u = pyxast.parse(repo_path(rel), REPO)
    chk.need(u.func(fname) is not None, 'anchor vanished: %s in %s' % (fname, rel))
    try:
        k = MatrixKernel(u, fname)
    except KeyError as e:
        raise AnalysisError(str(e))
    # R02.2 alias discipline
    panelk.issue_obligations(chk, 'R02.2', k, rel)
    # frame: limits / sections
    fr = panelk.Frame(model, k, sub)
    for construct, exp, got in fr.problems:
        chk.ob('R02.3' if model == 'kpanel' and 'sub-interval' not in construct and 'y ' not in construct else 'R02.2',
               False, rel, fname, construct, expected=exp, got=got, detail='integration frame')
    for c in fr.checked:
        chk.ob('R02.3' if 'section' in c or 'rbot' in c else 'R02.2', True, rel, fname, c, sample=c)
    # R02.1 Hessian identity
    got = kernel_blocks(k)
    exp = k0_spec(model, fr)
    n = panelk.compare_blocks(chk, 'R02.1', k, rel, got, exp, 'Hessian of the strain energy')
    # every block emitted exactly once per innermost iteration, nothing else written
    for pq, es in k.blocks.items():
        chk.ob('R02.1', len(es) == 1, rel, fname, 'single emit (%d,%d)' % pq, line=es[0].line,
               detail='block written %d times per iteration' % len(es))
    chk.ob('R02.1', not k.other_arrays, rel, fname, 'no other array written', got=sorted(k.other_arrays))
    # emitted values contain no series-size symbol (nested trial spaces)
    bad = sorted({a for v in got.values() for a in v.atoms() if a in ('m', 'n') or a.startswith('L')})
    chk.ob('R02.1', not bad, rel, fname, 'values independent of m, n and raw indices', got=bad)
    # R02.5 index maps and guard
    probs = panelk.index_map_problems(k, num)
    for line, base, e, g_ in probs:
        chk.ob('R02.5', False, rel, fname, 'index map ' + base, line=line, expected=e, got=g_)
    if not probs:
        chk.ob('R02.5', True, rel, fname, 'index maps', sample='row = row0 + %d*(j*m+i), col = col0 + %d*(l*m+k)' % (num, num))
    guards = panelk.guards_of(k)
    okg = all(any(g.replace(' ', '') in ('skip-if$row>$col', 'skip-ifrow>col') for g in gs) for gs in guards) and guards
    gtxt = sorted({g for gs in guards for g in gs})
    okg = bool(guards) and all(('skip-if row > col' in gs) and len(gs) == 1 for gs in guards)
    chk.ob('R02.5', okg, rel, fname, 'upper-triangle guard', expected='every emit guarded by: if row > col: continue (and nothing else)', got=gtxt)
    # R02.6 role-swap symmetry E_PQ(A,B) == E_QP(B,A)
    for pq in sorted(got):
        qp = (pq[1], pq[0])
        sw = panelk.swap_roles(got.get(qp, P()), k.w.atoms)
        chk.ob('R02.6', got[pq].close(sw), rel, fname, 'role-swap (%d,%d)' % pq,
               expected='E_PQ(A,B) == E_QP(B,A)', detail='; '.join(got[pq].diffterms(sw, 3)))
    # y-linearity: every monomial has exactly one y-integral atom (tiles add up)
    for pq, v in sorted(got.items()):
        degs = v.degree_in(lambda a: a.startswith('Iy['))
        chk.ob('R02.2', degs <= {1}, rel, fname, 'y-degree (%d,%d)' % pq, expected='degree exactly 1 in y-integrals', got=sorted(degs))
    return k, got


KERNELS = [(m, panelk.MODELS[m], f, f.endswith('y1y2')) for m in ('plate', 'plate_w', 'cpanel', 'kpanel') for f in ('fk0', 'fk0y1y2')]


def run(chk):
    chk.level = LEVEL
    chk.trusted = ['python3 ast', 'E1 lowering (vcheck/pyxast.py)', 'Fraction polynomial arithmetic (vcheck/poly.py)',
                   'C10: integral_* functions return the exact integrals of the Bardell functions',
                   'Cython/C translate +,-,*,/ faithfully', 'Donnell strain table in vcheck/spec.py']
    chk.assumptions = ['kpanel: the package-wide cone convention kxy = -2 w,xy + sin(alpha) w,y / r',
                       'floating point rounding is not modelled']
    nums = pyrules.modeldb_nums(chk)
    full = {}
    nemit = 0
    for model, rel, fname, sub in KERNELS:
        num = nums.get(model)
        chk.need(num is not None, 'modelDB has no num for ' + model)
        k, got = check_kernel(chk, model, rel, fname, sub, num)
        unit_num = k.unit.module_consts().get('num')
        chk.ob('R02.5', unit_num == num, rel, fname, 'num', expected='cdef int num == modelDB num == %s' % num, got=unit_num)
        full[(model, fname)] = (k, got)
        nemit += len(got)
    chk.floor('R02.1 emitted blocks', nemit, 56)
    # sibling check: sub-interval kernel == full kernel under atom map (y limits dropped)
    for model in ('plate', 'plate_w', 'cpanel', 'kpanel'):
        kf, gf = full[(model, 'fk0')]
        ks, gs = full[(model, 'fk0y1y2')]
        for pq in sorted(set(gf) | set(gs)):
            a = strip_ylimits(gs.get(pq, P()), ks.w.atoms)
            b = gf.get(pq, P())
            chk.ob('R02.2', a.close(b), panelk.MODELS[model], 'fk0y1y2', 'sibling fk0 (%d,%d)' % pq,
                   expected='same polynomial as fk0 under full->sub atom map', detail='; '.join(a.diffterms(b, 3)))
    # Python side: dispatch, symmetrisation
    pyrules.r02_python(chk)
    chk.explanation = ('each emitted block of fk0/fk0y1y2 is expanded to a polynomial normal form over '
                       'semantic integral atoms and compared with the bilinear expansion of the Donnell '
                       'strain table against the symbolic laminate matrix')


def strip_ylimits(p, atoms):
    cache = {}

    def fn(a):
        if a in cache:
            return cache[a]
        info = atoms.reg.get(a)
        r = a
        if info and info[0] == 'I' and info[1] == 'y' and info[4]:
            r = atoms.integral('y', 'full', info[3][0], info[3][1], None)
        cache[a] = r
        return r
    return p.rename(fn)
