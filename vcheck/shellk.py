"""Helpers for the complete-shell (conecyl) kernels: a light symbolic evaluator
with trigonometric calls as opaque atoms, linear forms over the amplitude
vector, and homogeneity-degree analysis on the syntax tree."""
import ast
import re
from fractions import Fraction

from .poly import P, Rat, from_ast, nfs, Unsupported, NonMonomialDivision

TRIG = ('sin', 'cos', 'tan', 'atan', 'sqrt', 'exp', 'fabs')


class Eval:
    """sequential evaluation of a kernel function; loop variables are atoms
    named by the variable; ``state[idx]`` reads become atoms ``state{idx}``"""

    def __init__(self, unit, fn, state=None, ring=P, alias=None, sub_hook=None):
        self.unit, self.fn, self.state, self.ring = unit, fn, state, ring
        self.alias = alias or {}
        self.sub_hook = sub_hook
        self.trig = {}
        self.env = {}
        for k, v in unit.module_consts().items():
            self.env[k] = P.const(Fraction(repr(v)))
        self.stores = []      # (array, [index nfs], value, line, loop vars, guards)
        self.finals = {}
        self.loops = []
        self.guards = []
        self.problems = []

    def leaf(self, n):
        if isinstance(n, ast.Call) and isinstance(n.func, ast.Name):
            if n.func.id in TRIG and len(n.args) == 1:
                name = '%s(%s)' % (n.func.id, self.nf(n.args[0]))
                if n.func.id in ('sin', 'cos'):
                    try:
                        a = from_ast(n.args[0], self.env, self.leaf, ring=self.ring)
                        if isinstance(a, Rat):
                            a = a.n * a.d.inv()
                        name = '%s(%s)' % (n.func.id, nfs(a))
                        params = {x.arg for x in self.fn.args.args}
                        # constants such as sin(alpharad) stay opaque; only arguments that vary
                        # inside the kernel take part in the Fourier normal form
                        if not a.atoms() <= params:
                            self.trig[name] = (n.func.id, a)
                    except (Unsupported, NonMonomialDivision):
                        pass
                return P.sym(name)
            if n.func.id == 'float' and len(n.args) == 1:
                return self.ev(n.args[0])
        if isinstance(n, ast.Subscript) and isinstance(n.value, ast.Name):
            sl = n.slice
            idxs = sl.elts if isinstance(sl, ast.Tuple) else [sl]
            name = n.value.id
            if self.sub_hook is not None:
                r = self.sub_hook(name, [self.nf(i) for i in idxs])
                if r is not None:
                    return r
            if name == self.state:
                return P.sym('%s{%s}' % (name, ';'.join(self.nf(i) for i in idxs)))
            nm = '%s[%s]' % (name, ';'.join(self.nf(i) for i in idxs))
            return P.sym(self.alias.get(nm, nm))
        if isinstance(n, ast.Attribute):
            return P.sym(ast.unparse(n).replace(' ', ''))
        return None

    def ev(self, node):
        v = from_ast(node, self.env, self.leaf, ring=self.ring)
        return v

    def nf(self, node):
        try:
            v = from_ast(node, self.env, self.leaf, ring=self.ring)
            if isinstance(v, Rat):
                if v.d == P.const(1):
                    return nfs(v.n)
                return repr(v).replace(' ', '')
            return nfs(v)
        except (Unsupported, NonMonomialDivision):
            return ast.unparse(node).replace(' ', '')

    def run(self):
        self.walk(self.fn.body)
        return self

    def walk(self, body):
        for st in body:
            if isinstance(st, ast.For):
                vars_ = [st.target.id] if isinstance(st.target, ast.Name) else [e.id for e in st.target.elts]
                for v in vars_:
                    self.env[v] = P.sym(v)
                self.loops.append((tuple(vars_), ast.unparse(st.iter).replace(' ', '')))
                ng = len(self.guards)
                self.walk(st.body)
                del self.guards[ng:]
                self.loops.pop()
            elif isinstance(st, ast.If):
                t = ast.unparse(st.test).replace(' ', '')
                if len(st.body) == 1 and isinstance(st.body[0], ast.Continue) and not st.orelse:
                    self.guards.append('skip-if ' + t)
                    continue
                if isinstance(st.test, ast.Name) and st.test.id in ('NOGIL', 'GIL'):
                    self.walk(st.body)
                    continue
                self.guards.append('if ' + t)
                self.walk(st.body)
                self.guards.pop()
                if st.orelse:
                    self.guards.append('else ' + t)
                    self.walk(st.orelse)
                    self.guards.pop()
            elif isinstance(st, (ast.With, ast.While)):
                self.walk(st.body)
            elif isinstance(st, ast.Assign) and len(st.targets) == 1:
                self.assign(st.targets[0], st.value, st, aug=False)
            elif isinstance(st, ast.AugAssign):
                self.assign(st.target, st.value, st, aug=type(st.op).__name__)

    def assign(self, t, value, st, aug):
        try:
            v = self.ev(value)
        except (Unsupported, NonMonomialDivision, ZeroDivisionError) as e:
            if isinstance(t, ast.Name):
                self.env.pop(t.id, None)
            elif isinstance(t, ast.Subscript) and isinstance(t.value, ast.Name):
                self.stores.append((t.value.id, None, None, st.lineno, tuple(self.loops), tuple(self.guards), aug))
            return
        if isinstance(t, ast.Name):
            if aug == 'Add':
                cur = self.env.get(t.id)
                if cur is None:
                    cur = P() if self.ring is P else Rat(P())
                # counters
                if isinstance(v, P) and v.t and set(v.t) == {()} and t.id in ('c',):
                    return
                self.env[t.id] = cur + v
            elif aug == 'Sub':
                self.env[t.id] = self.env.get(t.id, P()) - v
            elif aug == 'Mult':
                self.env[t.id] = self.env.get(t.id, P()) * v
            elif not aug:
                self.env[t.id] = v
        elif isinstance(t, ast.Subscript) and isinstance(t.value, ast.Name):
            sl = t.slice
            idxs = sl.elts if isinstance(sl, ast.Tuple) else [sl]
            self.stores.append((t.value.id, [self.nf(i) for i in idxs], v, st.lineno, tuple(self.loops), tuple(self.guards), aug))


def linear_in_state(p, state):
    """{state atom: coefficient P} ; returns (lin, remainder)"""
    lin = {}
    rem = P()
    for mono, c in p.t.items():
        sa = [(s, e) for s, e in mono if s.startswith(state + '{')]
        if len(sa) == 1 and sa[0][1] == 1:
            key = sa[0][0]
            rest = tuple(x for x in mono if x[0] != key)
            lin[key] = lin.get(key, P()) + P({rest: c})
        else:
            rem = rem + P({mono: c})
    return {k: v for k, v in lin.items() if v.t}, rem


# --------------------------------------------------------------------------
# homogeneity degree on the syntax tree


def degree(node, env, loads):
    """set of degrees of an arithmetic expression in the variables ``loads``"""
    if isinstance(node, ast.Constant):
        return {None} if node.value == 0 else {0}       # None: the zero polynomial (any degree)
    if isinstance(node, ast.Name):
        if node.id in loads:
            return {1}
        return env.get(node.id, {0})
    if isinstance(node, ast.UnaryOp):
        return degree(node.operand, env, loads)
    if isinstance(node, ast.IfExp):
        return degree(node.body, env, loads) | degree(node.orelse, env, loads)
    if isinstance(node, ast.BinOp):
        l = degree(node.left, env, loads)
        r = degree(node.right, env, loads)
        errs = {x for x in l | r if isinstance(x, str)}
        if errs:
            return errs
        if isinstance(node.op, (ast.Add, ast.Sub)):
            return (l | r)
        if isinstance(node.op, ast.Mult):
            if None in l and len(l) == 1 or None in r and len(r) == 1:
                return {None}
            return {a + b for a in l if a is not None for b in r if b is not None} | ({None} if None in l or None in r else set())
        if isinstance(node.op, ast.Div):
            rr = {b for b in r if b is not None}
            if rr != {0}:
                return {'non-constant denominator'}
            return l
        if isinstance(node.op, ast.Pow):
            if isinstance(node.right, ast.Constant) and isinstance(node.right.value, int):
                return {a * node.right.value if a is not None else None for a in l}
            if l <= {0} and r <= {0}:
                return {0}
            return {'power'}
    if isinstance(node, ast.Call):
        ds = set()
        for a in node.args:
            ds |= degree(a, env, loads)
        if {x for x in ds if isinstance(x, str)}:
            return {x for x in ds if isinstance(x, str)}
        if ds - {0, None}:
            return {'load inside a function call'}
        return {0}
    if isinstance(node, (ast.Subscript, ast.Attribute)):
        return {0}
    return {'?'}


def trig_normal(p, trig):
    """Fourier normal form: products/powers of sin/cos of known arguments are
    rewritten as sums of single sin/cos of combined arguments (product-to-sum),
    with sin(-x) = -sin(x), cos(-x) = cos(x), cos(0) = 1, sin(0) = 0."""
    out = P()
    half = Fraction(1, 2)
    for mono, c in p.t.items():
        factors, rest = [], []
        for s_, e in mono:
            if s_ in trig:
                if e < 0:
                    raise NonMonomialDivision('trigonometric factor in a denominator: ' + s_)
                factors += [trig[s_]] * e
            else:
                rest.append((s_, e))
        terms = [(Fraction(1), None, None)]
        for kind, arg in factors:
            new = []
            for co, k0, a0 in terms:
                if k0 is None:
                    new.append((co, kind, arg))
                elif k0 == 'sin' and kind == 'sin':
                    new += [(co * half, 'cos', a0 - arg), (-co * half, 'cos', a0 + arg)]
                elif k0 == 'cos' and kind == 'cos':
                    new += [(co * half, 'cos', a0 - arg), (co * half, 'cos', a0 + arg)]
                elif k0 == 'sin' and kind == 'cos':
                    new += [(co * half, 'sin', a0 + arg), (co * half, 'sin', a0 - arg)]
                else:
                    new += [(co * half, 'sin', arg + a0), (co * half, 'sin', arg - a0)]
            terms = new
        base0 = P({tuple(rest): c})
        for co, k, a in terms:
            base = base0 * P.const(co)
            if k is None:
                out = out + base
                continue
            if not a.t:
                if k == 'cos':
                    out = out + base
                continue
            first = sorted(a.t.items())[0][1]
            if first < 0:
                a = -a
                if k == 'sin':
                    base = -base
            out = out + base * P.sym('%s(%s)' % (k, nfs(a)))
    return out
