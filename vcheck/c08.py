"""C08 - internal force = energy gradient; tangent = its exact Jacobian (panels)."""
from . import numk, pyrules

LEVEL = 'proof'


def run(chk):
    chk.level = LEVEL
    chk.trusted = ['python3 ast', 'E1 lowering', 'Fraction polynomial arithmetic', 'C10 function and Gauss tables',
                   'Donnell strain table (vcheck/spec.py)', 'symbolic differentiation in vcheck/poly.py']
    chk.assumptions = ['exactness of a particular Gauss order for the quartic integrand is the caller\'s choice']
    numk.run_c08(chk)
    pyrules.r08_python(chk)
    pyrules.check_conn_cache(chk, 'R08.8')
    pyrules.check_assembly_fint_accumulator(chk, 'R08.9')
    pyrules.check_one_laminate_matrix(chk, 'R08.10')
    chk.explanation = ('calc_fint, fkL_num and fkG_num are lowered to polynomials over point atoms and '
                       'strain accumulators; fint is compared with sigma.d(eps)/dc, kL with the Gauss-Newton '
                       'form, and d(fint)/dc (symbolic derivative of the extracted fint) with kL+kG block by block')
