"""C11 - recovered displacement / strain / stress fields."""
import ast
from fractions import Fraction as Fr
import re

from . import fieldk, spec, panelk, pyrules, pyflow
from .kernel import MatrixKernel
from .poly import P, from_ast
from .spec import S, C
from .pyrules import module, norm, PANEL, attr_calls
from .pyflow import Sig, bind, dotted
from .report import AnalysisError

LEVEL = 'proof'
ASSEMBLY = 'compmech/panel/assembly/assembly.py'
BAY = 'compmech/stiffpanelbay/stiffpanelbay.py'


def expect_lin(chk, rule, ser, rel, out_arr, want, what, factor_want=None, guards=None):
    """output array = factor * sum_S c_S * want[dof]"""
    acc, factor, rem = ser.lin_of_output(out_arr)
    line = ser.out_lines.get(out_arr, 0)
    if acc is None or rem.t:
        chk.ob(rule, False, rel, ser.fname, what, line=line, expected='factor * accumulated series', got=repr(ser.outputs.get(out_arr)))
        return
    lin = fieldk.series_lin(ser, acc, guards)
    f = factor if factor_want is None else factor
    ok = set(lin) == set(want) and all((lin[d] * f).close(want[d]) for d in want)
    chk.ob(rule, ok, rel, ser.fname, what, line=line, expected={d: repr(v) for d, v in want.items()},
           got={d: repr(v * f) for d, v in lin.items()},
           sample='%s: %s = sum_S c_S * %s' % (ser.fname, out_arr, {d: repr(v) for d, v in want.items()}))


def expect_strain_row(chk, ser, rel, out_arr, want, p_, model, guards, A):
    """strain output = linear series (R11.2) + NLterms * quadratic terms of the TOTAL slopes (R11.3):
    exx: (w,x)^2/2, eyy: (w,y)^2/2, gxy: w,x*w,y with w,x = (2/a) sum_S c_S f'_S g_S, w,y = (2/b) sum_S c_S f_S g'_S"""
    acc, factor, rem = ser.lin_of_output(out_arr)
    line = ser.out_lines.get(out_arr, 0)
    what = 'linear strain row %d (%s)' % (p_, model)
    if acc is None:
        chk.ob('R11.2', False, rel, ser.fname, what, line=line, expected='factor * accumulated series (+ quadratic slope terms)', got=repr(ser.outputs.get(out_arr)))
        return
    lin = fieldk.series_lin(ser, acc, guards)
    ok = set(lin) == set(want) and all((lin[d] * factor).close(want[d]) for d in want)
    chk.ob('R11.2', ok, rel, ser.fname, what, line=line, expected={d: repr(v) for d, v in want.items()},
           got={d: repr(v * factor) for d, v in lin.items()},
           sample='%s: %s = sum_S c_S * %s' % (ser.fname, out_arr, {d: repr(v) for d, v in want.items()}))
    if p_ > 2 or model != 'plate':
        # curvatures carry no quadratic term; the quadratic part is judged once (it does not depend on the curvature switch)
        if p_ > 2:
            chk.ob('R11.3', not rem.t, rel, ser.fname, 'curvature row %d has no quadratic term (%s)' % (p_, model), line=line, got=repr(rem))
        return
    g = spec.Geo()
    slope = {}
    for a_ in sorted(rem.atoms()):
        if a_.startswith('@'):
            l_ = fieldk.series_lin(ser, a_[1:], None)
            if set(l_) == {2} and l_[2].close(fieldk.phi(A, 'S', 'w', 1, 0)):
                slope[a_] = S('WXI')
            elif set(l_) == {2} and l_[2].close(fieldk.phi(A, 'S', 'w', 0, 1)):
                slope[a_] = S('WETA')
    got = rem.subs(slope)
    NL = S('NLterms')
    expq = [NL * C(Fr(1, 2)) * g.dx * g.dx * S('WXI') * S('WXI'), NL * C(Fr(1, 2)) * g.dy * g.dy * S('WETA') * S('WETA'),
            NL * g.dx * g.dy * S('WXI') * S('WETA')][p_]
    name = ['exx', 'eyy', 'gxy'][p_]
    per_term = any(i.kind == 'nonlinear-accumulation' and i.msg.split()[0] == acc for i in ser.w.issues)
    if not rem.t and per_term:
        return          # reported term by term below (quadratic terms accumulated inside the series loop)
    chk.ob('R11.3', got.close(expq), rel, ser.fname, 'quadratic slope term of ' + name, line=line,
           expected='NLterms * %s of the accumulated slopes w,x = (2/a)*sum_S c_S f\'_S g_S, w,y = (2/b)*sum_S c_S f_S g\'_S' % ['(w,x)^2/2', '(w,y)^2/2', 'w,x*w,y'][p_],
           got=repr(got) if rem.t else 'no quadratic term at all', detail='; '.join(got.diffterms(expq, 3)),
           sample='%s: %s += NLterms * %s' % (ser.fname, name, repr(expq)))


def run(chk):
    chk.level = LEVEL
    chk.trusted = ['python3 ast', 'E1 lowering', 'Fraction polynomial arithmetic', 'C10 function tables', 'Donnell strain table']
    # ---------------- 3-dof field module
    u3, rel3 = fieldk.load(chk, '3dof')
    at = None
    ser = fieldk.Series(u3, 'cfuvw')
    A = ser.w.atoms
    ph = lambda f, dx, dy: fieldk.phi(A, 'S', f, dx, dy)
    _, probs = ser.at_canon()
    chk.ob('R11.1', not probs, rel3, 'cfuvw', 'natural coordinates', expected='xi = 2x/a - 1, eta = 2y/b - 1', got=probs)
    outs = [p for p in ser.params if p in ser.outputs]
    chk.need(len(outs) == 3, 'cfuvw: expected three output arrays')
    for d, (arr, f) in enumerate(zip(outs, 'uvw')):
        expect_lin(chk, 'R11.1', ser, rel3, arr, {d: ph(f, 0, 0)}, 'displacement %s' % f)
    for iss in ser.w.issues:
        chk.ob('R11.1', False, rel3, 'cfuvw', '%s' % iss.kind, line=iss.line, detail=iss.msg)
    # slopes: cfwx = (2/a) sum c f' g ; rotations = - slopes (negated in fuvw)
    g = spec.Geo()
    for hname, want in (('cfwx', {2: g.dx * ph('w', 1, 0)}), ('cfwy', {2: g.dy * ph('w', 0, 1)})):
        s2 = fieldk.Series(u3, hname)
        A2 = s2.w.atoms
        w2 = {2: (g.dx * fieldk.phi(A2, 'S', 'w', 1, 0)) if hname == 'cfwx' else (g.dy * fieldk.phi(A2, 'S', 'w', 0, 1))}
        outs2 = [p for p in s2.params if p in s2.outputs]
        chk.need(len(outs2) == 1, hname + ': expected one output array')
        expect_lin(chk, 'R11.1', s2, rel3, outs2[0], w2, 'slope ' + hname[2:])
        _, pr2 = s2.at_canon()
        chk.ob('R11.1', not pr2, rel3, hname, 'natural coordinates', got=pr2)
        for iss in s2.w.issues:
            chk.ob('R11.1', False, rel3, hname, iss.kind, line=iss.line, detail=iss.msg)
    negation(chk, u3, rel3, 'fuvw')
    # ---------------- strains
    ser = fieldk.Series(u3, 'cfstrain')
    A = ser.w.atoms
    _, probs = ser.at_canon()
    chk.ob('R11.2', not probs, rel3, 'cfstrain', 'natural coordinates', got=probs)
    outs = [p for p in ser.params if p in ser.outputs]
    chk.need(len(outs) == 6, 'cfstrain: expected six output arrays')
    for model, guards in (('cpanel', ('if flagcyl == 1',)), ('plate', ('else-of flagcyl == 1',))):
        gg = spec.Geo(r=S('r'))
        rows = spec.strain_rows(model, gg)
        for p_, (arr, row) in enumerate(zip(outs, rows)):
            want = {}
            for (c, f, dx, dy) in row:
                dd = spec.DOF3[f]
                want[dd] = want.get(dd, P()) + c * fieldk.phi(A, 'S', f, dx, dy)
            expect_strain_row(chk, ser, rel3, arr, want, p_, model, guards, A)
    # flagcyl is 1 iff r != 0
    fl = [n for n in ast.walk(ser.fn) if isinstance(n, ast.If) and norm(n.test) in ('r==0', 'r!=0')]
    okf = len(fl) == 1 and ((norm(fl[0].test) == 'r==0' and norm(fl[0].body[0]) == 'flagcyl=0' and norm(fl[0].orelse[0]) == 'flagcyl=1') or
                            (norm(fl[0].test) == 'r!=0' and norm(fl[0].body[0]) == 'flagcyl=1' and norm(fl[0].orelse[0]) == 'flagcyl=0'))
    chk.ob('R11.2', okf, rel3, 'cfstrain', 'curvature switch', expected='flagcyl = 0 iff r == 0')
    # R11.3 series-loop linearity
    nl = [i for i in ser.w.issues if i.kind == 'nonlinear-accumulation']
    others = [i for i in ser.w.issues if i.kind != 'nonlinear-accumulation']
    seen = {}
    for iss in nl:
        name = iss.msg.split()[0]
        k = seen.get(name, 0) + 1
        seen[name] = k
        chk.ob('R11.3', False, rel3, 'cfstrain', 'non-linear term of %s #%d' % (name, k), line=iss.line,
               expected='quadratic slope terms formed from the accumulated slopes after the series loop: (sum_S c_S w_S,x)^2',
               got='sum_S (c_S w_S,x)^2 accumulated per series term', detail=iss.msg)
    for name in ('exx', 'eyy', 'gxy', 'kxx', 'kyy', 'kxy'):
        if name not in seen:
            chk.ob('R11.3', True, rel3, 'cfstrain', 'series linearity of ' + name, sample='%s accumulates only degree-1 terms' % name)
    for iss in others:
        chk.ob('R11.2', False, rel3, 'cfstrain', iss.kind, line=iss.line, detail=iss.msg)
    # ---------------- 1-dof module
    u1, rel1 = fieldk.load(chk, '1dof')
    for hname, dx, dy, fac in (('cfw', 0, 0, None), ('cfwx', 1, 0, 'dx'), ('cfwy', 0, 1, 'dy')):
        s1 = fieldk.Series(u1, hname)
        A1 = s1.w.atoms
        want = fieldk.phi(A1, 'S', 'w', dx, dy)
        if fac == 'dx':
            want = g.dx * want
        elif fac == 'dy':
            want = g.dy * want
        outs1 = [p for p in s1.params if p in s1.outputs]
        chk.need(len(outs1) == 1, hname + ' (w model): expected one output array')
        expect_lin(chk, 'R11.1', s1, rel1, outs1[0], {0: want}, 'w-model ' + hname)
        for iss in s1.w.issues:
            chk.ob('R11.1', False, rel1, hname, iss.kind, line=iss.line, detail=iss.msg)
    negation(chk, u1, rel1, 'fuvw')
    # ---------------- R11.5 chunking / prange
    fieldk.prange_structure(chk, 'R11.5', u3, rel3, 'fuvw', {'cfuvw', 'cfwx', 'cfwy'})
    fieldk.prange_structure(chk, 'R11.5', u3, rel3, 'fstrain', {'cfstrain'})
    fieldk.prange_structure(chk, 'R11.5', u1, rel1, 'fuvw', {'cfw', 'cfwx', 'cfwy'})
    for h in ('cfuvw', 'cfwx', 'cfwy', 'cfstrain'):
        fieldk.helper_bounds(chk, 'R11.5', u3, rel3, h)
    for h in ('cfw', 'cfwx', 'cfwy'):
        fieldk.helper_bounds(chk, 'R11.5', u1, rel1, h)
    r11_python(chk)
    r11_6(chk)
    chk.explanation = ('series loops of the field kernels lowered to linear forms over the amplitude vector and compared '
                       'with the Ritz series / strain table; structural rules for chunking, option forwarding, stress table and slices')


def negation(chk, unit, rel, fname):
    """rotations are minus the slopes: the slope outputs are multiplied by -1 once, over all rows/cols"""
    fn = unit.func(fname)
    muls = [n for n in ast.walk(fn) if isinstance(n, ast.AugAssign) and isinstance(n.op, ast.Mult)]
    got = sorted(norm(m) for m in muls)
    # x = -x and x = -1*x are the same sign flip as x *= -1
    for n in ast.walk(fn):
        if isinstance(n, ast.Assign) and len(n.targets) == 1 and isinstance(n.targets[0], ast.Subscript):
            t = norm(n.targets[0])
            v = norm(n.value)
            if v in ('-' + t, '-1*' + t, '-1.0*' + t, t + '*-1', t + '*-1.0', '-(' + t + ')'):
                got.append(t + '*=-1.0')
    got = sorted(x.replace('*=-1', '*=-1.0') if x.endswith('*=-1') else x for x in got)
    rets = [n for n in ast.walk(fn) if isinstance(n, ast.Return)][0]
    names = [re.match(r'^np\.ravel\((\w+)\)', norm(e)).group(1) for e in rets.value.elts if re.match(r'^np\.ravel\((\w+)\)', norm(e))]
    rot = names[-2:]
    # which arrays receive cfwx / cfwy
    tgt = {}
    for c in pyflow.calls_in(fn):
        if getattr(c.func, 'id', '') in ('cfwx', 'cfwy'):
            for a in c.args:
                m = re.match(r'^ADDR\((\w+)\[pti,0\]\)$', norm(a))
                if m and m.group(1) not in ('xs_core', 'ys_core'):
                    tgt[c.func.id] = m.group(1)
    want = sorted('%s[pti,j]*=-1.0' % a for a in tgt.values())
    loops_ok = False
    for n in ast.walk(fn):
        if isinstance(n, ast.For) and norm(n.iter) == 'range(num_cores)':
            inner = [x for x in n.body if isinstance(x, ast.For)]
            if inner and norm(inner[0].iter) == 'range(size_core)' and n.target.id == 'pti' and inner[0].target.id == 'j':
                loops_ok = True
    ok = got == want and loops_ok and sorted(tgt.values()) == sorted(rot)
    chk.ob('R11.1', ok, rel, fname, 'rotations = -slopes', expected='phix, phiy multiplied by -1 exactly once over all chunks', got=got,
           sample='%s: %s' % (fname, got))


# --------------------------------------------------------------------------


def r11_python(chk):
    m = module(PANEL)
    # R11.4 stress = F . strain (6x6 index table)
    order = ['exx', 'eyy', 'gxy', 'kxx', 'kyy', 'kxy']
    names = ['Nxx', 'Nyy', 'Nxy', 'Mxx', 'Myy', 'Mxy']

    def row_terms(value, rowsym=None):
        """sum_j strain_j*F[row, j] -> {strain: (i, j)} or None"""
        v = from_ast(value, {}, lambda nd: P.sym(norm(nd)))
        terms = {}
        for mono, c in v.t.items():
            d = dict(mono)
            fs = [a for a in d if re.match(r'^F\[\w+,\d\]$', a) or re.match(r'^F\[\d,\w+\]$', a)]
            es = [a for a in d if a in order]
            if c != 1 or len(fs) != 1 or len(es) != 1 or len(d) != 2 or d[fs[0]] != 1 or d[es[0]] != 1:
                return None
            i, j = fs[0][2:-1].split(',')
            terms[es[0]] = (i, j)
        return terms
    fn = m.method('Panel', 'stress')
    n = 0
    for st in ast.walk(fn):
        if isinstance(st, ast.Assign) and isinstance(st.targets[0], ast.Subscript) and isinstance(st.targets[0].slice, ast.Constant) \
                and st.targets[0].slice.value in names:
            row = names.index(st.targets[0].slice.value)
            try:
                terms = row_terms(st.value)
            except Exception:
                terms = None
            ok = terms is not None and len(terms) == 6 and all(sorted(terms[e]) == sorted((str(row), str(col))) for col, e in enumerate(order) if e in terms)
            chk.ob('R11.4', ok, PANEL, 'Panel.stress', st.targets[0].slice.value, line=st.lineno,
                   expected='sum_j F[%d,j]*strain_j' % row, got=norm(st.value)[:160],
                   sample='Panel.stress %s = F[%d,:].(exx..kxy)' % (names[row], row))
            n += 1
    chk.floor('R11.4 stress rows in Panel', n, 6)
    # strains feeding the table are the entries of the strain result under their own names
    loads = {}
    for st in ast.walk(fn):
        if isinstance(st, ast.Assign) and isinstance(st.targets[0], ast.Name) and st.targets[0].id in order:
            loads[st.targets[0].id] = norm(st.value)
    chk.ob('R11.4', all(re.match(r"^\w+\['%s'\]$" % e, loads.get(e, '')) for e in order), PANEL, 'Panel.stress', 'strain components by name', got=loads)
    am0 = module(ASSEMBLY)
    fn = am0.method('PanelAssembly', 'stress')
    # the table is checked on the unrolled view of the method: one row per index, whether written as a loop or line by line
    ufn = pyrules.unrolled(fn)
    rows = {}
    bad_rows = []
    for st in ast.walk(ufn):
        if isinstance(st, ast.Assign) and isinstance(st.targets[0], ast.Subscript) and norm(st.targets[0]).startswith('Ns[...,'):
            iv = norm(st.targets[0])[len('Ns[...,'):-1]
            try:
                terms = row_terms(st.value)
            except Exception:
                terms = None
            if iv.isdigit() and int(iv) not in rows:
                rows[int(iv)] = terms
            else:
                bad_rows.append(norm(st)[:120])
    ok = not bad_rows and sorted(rows) == list(range(6)) and all(
        rows[i] is not None and len(rows[i]) == 6 and all(rows[i].get(e) in ((str(i), str(col)), (str(col), str(i))) for col, e in enumerate(order)) for i in range(6))
    chk.ob('R11.4', ok, ASSEMBLY, 'PanelAssembly.stress', 'resultant table', expected='Ns[..., i] = sum_j F[i,j]*strain_j for i = 0..5',
           got={i: rows[i] for i in sorted(rows)} if not ok else 'six rows', detail='; '.join(bad_rows), sample='PanelAssembly.stress Ns[...,i] = F[i,:].(exx..kxy)')
    app = {}
    for c in pyflow.calls_in(ufn):
        if isinstance(c.func, ast.Attribute) and c.func.attr == 'append' and isinstance(c.func.value, ast.Subscript) and c.args:
            mm = re.match(r'^Ns\[\.\.\.,(\d)\]$', norm(c.args[0]))
            if mm and isinstance(c.func.value.slice, ast.Constant):
                app[c.func.value.slice.value] = int(mm.group(1))
    chk.ob('R11.4', app == {nm: i for i, nm in enumerate(names)}, ASSEMBLY, 'PanelAssembly.stress', 'resultant names',
           expected={nm: i for i, nm in enumerate(names)}, got=app)
    fl = [st for st in ast.walk(fn) if isinstance(st, ast.Assign) and norm(st.targets[0]) == 'F']
    chk.ob('R11.4', [norm(x.value) for x in fl] == ['panel.F'], ASSEMBLY, 'PanelAssembly.stress', 'laminate of the evaluated panel', got=[norm(x.value) for x in fl])
    # option forwarding: every option parameter of a public field method reaches the kernel call
    fwd = [('Panel', 'uvw', 'fuvw', {'c': 'c', 'p': 'self', 'xs': 'xs', 'ys': 'ys', 'num_cores': 'self.out_num_cores'}),
           ('Panel', 'strain', 'fstrain', {'c': 'c', 'p': 'self', 'xs': 'xs', 'ys': 'ys', 'num_cores': 'self.out_num_cores', 'NLterms': 'int(NLterms)'})]
    u3, rel3 = fieldk.load(chk, '3dof')
    for cls, meth, kname, exp in fwd:
        fn = m.method(cls, meth)
        calls = [c for c in pyflow.calls_in(fn) if getattr(c.func, 'id', '') == kname]
        chk.need(len(calls) == 1, '%s.%s: expected one %s call' % (cls, meth, kname))
        mp, probs = bind(calls[0], Sig(u3.func(kname)))
        got = pyrules.bound_texts(fn, mp)
        chk.ob('R11.4', not probs and got == exp, PANEL, '%s.%s' % (cls, meth), '%s call binding' % kname, line=calls[0].lineno,
               expected=exp, got=got, detail='; '.join(probs), sample='%s.%s -> %s%s' % (cls, meth, kname, got))
    # Panel.stress forwards its options to strain
    fn = m.method('Panel', 'stress')
    calls = attr_calls(fn, 'strain')
    chk.need(len(calls) == 1, 'Panel.stress: expected one strain call')
    sig = Sig(m.method('Panel', 'strain'), drop_self=True)
    mp, probs = bind(calls[0], sig)
    params = [a.arg for a in fn.args.args][1:]
    for p in params:
        if p in sig.names:
            a = mp.get(p)
            chk.ob('R11.4', a is not None and norm(a) == p, PANEL, 'Panel.stress', 'forwarding of option ' + p, line=calls[0].lineno,
                   expected='strain(..., %s=%s)' % (p, p), got=norm(calls[0]),
                   detail='Panel.stress accepts %s but calls strain without it: the option has no effect' % p if a is None else '',
                   sample='Panel.stress forwards %s' % p)
    # R11.6 slices of assemblies
    am = module(ASSEMBLY)
    u3, rel3 = fieldk.load(chk, '3dof')
    for meth, kname in (('uvw', 'fuvw'), ('strain', 'fstrain'), ('stress', 'fstrain')):
        fn = am.method('PanelAssembly', meth)
        loops = [l for l in fn.body if isinstance(l, ast.For) and norm(l.iter) == 'self.panels']
        ok = len(loops) == 1
        det = ''
        if ok:
            lp = loops[0]
            pv = lp.target.id
            first = lp.body[0]
            okg = isinstance(first, ast.If) and norm(first.test) in ('%s.group!=group' % pv,) and isinstance(first.body[0], ast.Continue)
            chk.ob('R11.6', okg, ASSEMBLY, 'PanelAssembly.' + meth, 'group filter', line=first.lineno,
                   expected='if panel.group != group: continue', got=norm(first)[:80])
            calls = [c for c in pyflow.calls_in(lp) if getattr(c.func, 'id', '') == kname]
            ok = len(calls) == 1
            if ok:
                mp, probs = bind(calls[0], Sig(u3.func(kname)))
                got = pyrules.bound_texts(fn, mp)
                cdefs = [norm(n.value) for n in ast.walk(lp) if isinstance(n, ast.Assign) and norm(n.targets[0]) == got.get('c')]
                want_slice = 'c[%s.col_start:%s.col_end]' % (pv, pv)
                ok = not probs and got.get('p') == pv and cdefs[:1] == [want_slice] and \
                    all(d in (want_slice, 'np.ascontiguousarray(%s,dtype=DOUBLE)' % got.get('c')) for d in cdefs) and \
                    got.get('num_cores') == 'self.out_num_cores'
                if kname == 'fstrain':
                    ok = ok and got.get('NLterms') == 'int(NLterms)'
                det = 'binding %s, amplitude definitions %s' % (got, cdefs)
        chk.ob('R11.6', ok, ASSEMBLY, 'PanelAssembly.' + meth, 'own slice of the amplitude vector', detail=det,
               expected='%s(c[panel.col_start:panel.col_end], panel, ...) for the panel being evaluated' % kname,
               sample='PanelAssembly.%s: %s' % (meth, det))
    bay_slices(chk)


def bay_slices(chk):
    bm = module(BAY)
    fn = bm.method('StiffPanelBay', 'uvw_skin')
    src = norm(fn)
    # skin amplitudes: the first num*m*n entries
    sl = [n for n in ast.walk(fn) if isinstance(n, ast.Subscript) and isinstance(n.slice, ast.Slice) and norm(n.value) == 'c']
    ok = any(n.slice.lower is None and norm(n.slice.upper) in ('num*m*n', 'num*self.m*self.n', 'self.get_size_skin()') for n in sl) or 'c[:num*m*n]' in src or 'c[:num*self.m*self.n]' in src
    got = [norm(n) for n in sl]
    # also accept passing c with kernels that only read the leading block
    chk.ob('R11.6', ok or not sl, BAY, 'StiffPanelBay.uvw_skin', 'skin slice', expected='c[:num*m*n] (skin block is first in the layout)', got=got)
    from . import c13
    c13.uvw_stiffener_layout(chk, 'R11.6')


def r11_6(chk):
    """point arrays are flattened, and results reshaped, in one and the same (default, C) order: the value at
    [i, j] of an output is the field at (xs[i, j], ys[i, j]) whatever the memory layout of the caller's arrays"""
    import ast as _ast
    from .pyrules import module as _module, norm as _norm
    n = 0
    for rel, cls in (('compmech/panel/_panel.py', 'Panel'), ('compmech/stiffpanelbay/stiffpanelbay.py', 'StiffPanelBay'),
                     ('compmech/panel/assembly/assembly.py', 'PanelAssembly')):
        m = _module(rel)
        for name, fn in m.classes.get(cls, {}).items():
            if name not in ('_default_field', 'uvw', 'strain', 'stress', 'uvw_skin', 'uvw_stiffener', 'plot'):
                continue
            for c in _ast.walk(fn):
                if isinstance(c, _ast.Call) and isinstance(c.func, _ast.Attribute) and c.func.attr in ('ravel', 'flatten', 'reshape'):
                    order = [k for k in c.keywords if k.arg == 'order']
                    pos = None
                    if c.func.attr in ('ravel', 'flatten') and c.args:
                        pos = c.args[0]
                    bad = [k.value for k in order if not (isinstance(k.value, _ast.Constant) and k.value.value == 'C')]
                    if pos is not None and not (isinstance(pos, _ast.Constant) and pos.value == 'C'):
                        bad.append(pos)
                    n += 1
                    chk.ob('R11.6', not bad, rel, '%s.%s' % (cls, name), 'C-order %s' % _norm(c)[:40], line=c.lineno,
                           expected='default (C) order for every flatten / reshape of point and result arrays', got=[_norm(b) for b in bad],
                           detail='' if not bad else 'points flattened in memory order but results reshaped in C order: for Fortran-ordered or transposed inputs the value at [i, j] is the field at another point',
                           sample='%s.%s: %s' % (cls, name, _norm(c)[:50]))
    chk.floor('R11.6 flatten/reshape sites', n, 10)
